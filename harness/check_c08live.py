"""C08, live half -- shutdown of the REAL circusd is complete.

  "After an accepted quit request, or a SIGTERM, SIGINT or SIGQUIT delivered to the daemon at any moment of its
   life, the daemon stops every watcher (no surviving or zombie worker), closes its control, event and managed
   sockets, removes the unix-socket files and the pid file it created, and exits with status 0."

Every run starts `python -m circus.circusd --pidfile P cfg.ini` (PYTHONPATH = VERIF_REPO) in a scratch directory:
two watchers of harness/live/worker.py -- `stub` (use_sockets, workers IGNORE SIGTERM, so every stop takes
graceful_timeout and ends with SIGKILL) and `plain` -- one inet and one unix managed socket, a pid file.  A
shutdown stimulus (SIGTERM / SIGINT / SIGQUIT from outside, or a `quit` request that was ACCEPTED) is delivered

   idle     after start-up, nothing in flight (check_delay is large: no periodic check nearby)
   warmup   inside the start-up sequence ([circus] warmup_delay = 1: one second per watcher)
   op       inside a waiting restart / stop / reload of the stubborn watcher or of the whole arbiter

and then the machine is inspected: exit status 0; none of the processes ever seen as a child of the daemon (and
none that wrote a worker record) is still in the process table, zombies included; the managed unix socket path is
gone; nobody listens on the managed inet socket (by inode, and connect() is refused); the pid file is gone.

Known defect D6 (DESIGN 7): a signal that arrives while an exclusive operation holds the arbiter's slot becomes a
`quit` that is refused (ConflictError) and dropped.  Whether the slot was held is ESTABLISHED, not assumed: a `set`
request without options (a no-op) is refused with "arbiter is already running X command" exactly when it is, and
is sent right before and right after the signal.  Daemon alive after a generous timeout:
   both probes name the same operation X  ->  verdict.attributed("D6", ...)
   anything else                          ->  verdict.violation(...)   (a signal ignored while idle)
After a dropped signal the run goes on: the slot is awaited free, the signal repeated, and the shutdown inspected.

Robustness: all waits scale with VERIF_LIVE_SCALE; no exact timing is asserted; a run that fails (violation or
machinery trouble) is repeated once, alone, and counts only if it fails the same way again.  The daemon's process
group is SIGKILLed in a finally block.

`run_live_shutdown(verdict, tier, seed, scratch) -> coverage dict` is the helper for the C08 check;
`run(prop, tier, seed)` is a stand-alone check writing evidence under the id it is given.
"""
import json
import os
import random
import signal
import sys
import threading
import time
from concurrent.futures import ThreadPoolExecutor

ROOT = os.path.dirname(os.path.dirname(os.path.abspath(__file__)))
if ROOT not in sys.path:
    sys.path.insert(0, ROOT)

from harness import checklib, tlcrun, livelib  # noqa: E402
from harness.livelib import T  # noqa: E402

FINDING = "D6"
# D4 (manage_processes drops a surplus worker right after kill_process, without waitpid), seen from C08: the
# trimmed worker is a zombie until the next periodic check; a shutdown that comes first exits leaving it behind
FINDING_ZOMBIE = "D4"
SIGNALS = ("TERM", "INT", "QUIT")
STIMULI = SIGNALS + ("quit", "quit_waiting")
OPS = {"restart_stub": ("restart", {"name": "stub", "waiting": True}, "watcher_restart"),
       "stop_stub": ("stop", {"name": "stub", "waiting": True}, "watcher_stop"),
       "reload_stub": ("reload", {"name": "stub", "waiting": True}, "watcher_reload"),
       "restart_all": ("restart", {"waiting": True}, "arbiter_restart"),
       "stop_all": ("stop", {"waiting": True}, "arbiter_stop_watchers")}
MAX_REPORTS = 12
MAX_RERUNS = 6


# ------------------------------------------------------------------------------------------------
# scenarios
# ------------------------------------------------------------------------------------------------
def scenarios(tier, seed):
    rng = random.Random(seed * 48271 + 5)
    base = [("idle", "TERM", None), ("idle", "INT", None), ("idle", "QUIT", None),
            ("idle", rng.choice(["quit", "quit_waiting"]), None),
            ("warmup", rng.choice(SIGNALS), None),
            ("op", rng.choice(SIGNALS), rng.choice(["restart_stub", "stop_stub"])),
            ("op", rng.choice(SIGNALS), rng.choice(["reload_stub", "stop_all"])),
            ("op", rng.choice(SIGNALS), "restart_all"),      # (always: a signal while the whole arbiter restarts)
            (rng.choice(["warmup", "op"]), rng.choice(["quit", "quit_waiting"]), "restart_stub")]
    out = list(base)
    if tier != "quick":
        while len(out) < 192:
            phase = rng.choice(["idle", "warmup", "warmup", "op", "op", "op"])
            out.append((phase, rng.choice(STIMULI), rng.choice(sorted(OPS)) if phase == "op" else None))
    scs = []
    for i, (phase, stim, op) in enumerate(out):
        r = random.Random(seed * 1009 + i * 7 + 1)
        gt = r.choice([0.5, 0.7, 1.0])
        scs.append({"idx": i, "phase": phase, "stimulus": stim, "op": op if phase == "op" else None,
                    "graceful_timeout": gt, "np_stub": r.choice([1, 2]), "np_plain": r.choice([1, 2]),
                    "plain_term": r.choice(["default", "trap"]),
                    "pidfile_in": r.choice(["argv", "ini"]),
                    "unix_replace": r.random() < 0.3,
                    # the managed unix socket as a datagram socket (bound, never listening): its file is the daemon's too
                    "unix_dgram": (i % 3 == 2),
                    # where inside the window (fraction); never asserted, the probes say what was hit
                    "offset": round(r.uniform(0.15, 0.55), 2)})
    return scs


def make_ini(d, sc, port):
    rec = os.path.join(d, "rec")
    warm = 1 if sc["phase"] == "warmup" else 0
    lines = ["[circus]", "endpoint = ipc://%s/ctl.sock" % d, "pubsub_endpoint = ipc://%s/pub.sock" % d,
             "check_delay = 60", "statsd = False", "httpd = False", "warmup_delay = %d" % warm]
    if sc["pidfile_in"] == "ini":
        lines.append("pidfile = %s/circusd.pid" % d)
    lines += ["", "[socket:inet]", "host = 127.0.0.1", "port = %d" % port,
              "", "[socket:unix]", "path = %s/m.sock" % d]
    if sc.get("unix_dgram"):
        lines.append("type = SOCK_DGRAM")
    if sc["unix_replace"]:
        lines.append("replace = True")
    lines += ["", "[watcher:stub]",
              "cmd = " + livelib.worker_cmd(rec, "stub", "--term", "ignore", "--fd", "inet=$(circus.sockets.inet)",
                                            "--fd", "unix=$(circus.sockets.unix)"),
              "use_sockets = True", "numprocesses = %d" % sc["np_stub"],
              "graceful_timeout = %s" % sc["graceful_timeout"], "copy_env = True",
              "", "[watcher:plain]",
              "cmd = " + livelib.worker_cmd(rec, "plain", "--term", sc["plain_term"], "--trap-delay", "0.05"),
              "numprocesses = %d" % sc["np_plain"], "graceful_timeout = %s" % sc["graceful_timeout"],
              "copy_env = True"]
    return "\n".join(lines) + "\n"


# ------------------------------------------------------------------------------------------------
# one run
# ------------------------------------------------------------------------------------------------
class Sampler(threading.Thread):
    """Remembers every process ever seen as a direct child of the daemon while it lived."""

    def __init__(self, daemon, every=None):
        threading.Thread.__init__(self, daemon=True)
        self.d = daemon
        self.stop = False
        self.every = every          # callable run every ~0.25 s (the managed sockets may be re-created)
        self.zombie = {}            # pid -> [first time seen as a zombie in the current streak, last time seen so]
        self.last_sample = 0.0

    def zombies_until_the_end(self, min_age=1.0):
        """Children that were zombies for more than `min_age` seconds up to the last look before the daemon went."""
        return dict((p, round(z[1] - z[0], 2)) for p, z in self.zombie.items()
                    if z[1] == self.last_sample and z[1] - z[0] > min_age)

    def run(self):
        n = 0
        while not self.stop and self.d.alive():
            try:
                kids = self.d.children()
                if not self.d.alive():
                    break               # an empty answer because the daemon just went
                now = time.time()
                self.last_sample = now
                for p, s in kids.items():
                    if s == "Z":
                        z = self.zombie.setdefault(p, [now, now])
                        z[1] = now
                for p in list(self.zombie):
                    if kids.get(p) != "Z":
                        del self.zombie[p]
                n += 1
                if self.every is not None and n % 8 == 0:
                    self.every()
            except Exception:       # noqa
                pass
            time.sleep(0.03)


class ShutdownRun(object):
    def __init__(self, d, sc):
        self.d = d
        self.sc = sc
        self.port = livelib.free_port()
        self.pidfile = os.path.join(d, "circusd.pid")
        args = ["--pidfile", self.pidfile] if sc["pidfile_in"] == "argv" else []
        self.daemon = livelib.Daemon(d, make_ini(d, sc, self.port), args=args)
        self.records = livelib.Records(os.path.join(d, "rec"))
        self.ctl = None
        self.t0 = None
        self.timeline = []
        self.sampler = None
        # every inode ever seen as a managed listening socket of the daemon (an arbiter restart re-creates them)
        self.managed = {"inet": set(), "unix": set()}
        self.res = {"scenario": sc, "dir": d, "port": self.port, "outcome": None, "problems": [], "leftovers": [],
                    "dropped": []}

    def note(self, what, **kw):
        e = {"t": round(time.time() - self.t0, 3), "what": what}
        e.update(kw)
        self.timeline.append(e)

    def new_ctl(self):
        c = livelib.Ctl(self.daemon.endpoint, timeout=8.0)
        c.watcher_names = ("plain",)
        return c

    def total_np(self):
        return self.sc["np_stub"] + self.sc["np_plain"]

    def wait_idle(self, timeout):
        """All workers up and recorded, every watcher active, the slot free."""
        end = time.time() + timeout
        why = "timeout"
        while time.time() < end:
            if not self.daemon.alive():
                return "the daemon exited (status %s)" % self.daemon.p.returncode
            kids = self.daemon.children()
            recs = self.records.by_pid()
            live = [k for k, s in kids.items() if s != "Z"]
            if len(live) == self.total_np() and all(k in recs for k in live):
                st = self.ctl.once("status")
                if st.get("status") == "ok" and all(v == "active" for v in st["statuses"].values()):
                    slot = self.ctl.slot()
                    if slot == "":
                        time.sleep(T(0.1))     # the no-op's own slot is released on the next loop turn
                        return None
                    why = "slot: %r" % (slot,)
                else:
                    why = "status: %s" % (st.get("statuses") or st.get("reason"),)
            else:
                why = "%d live children (%d expected), recorded: %s" % (len(live), self.total_np(),
                                                                          [k in recs for k in live])
            time.sleep(T(0.05))
        return why

    def identify_boot(self):
        dfd = self.daemon.fds()
        tcp = livelib.tcp_listeners()
        unx = livelib.unix_bound() if self.sc.get("unix_dgram") else livelib.unix_listeners()
        b = {"inet": None, "unix": None}
        for fd, t in dfd.items():
            ino = livelib.socket_inode(t)
            if ino is None:
                continue
            if ino in tcp and tcp[ino] == ("127.0.0.1", self.port):
                b["inet"] = ino
                self.managed["inet"].add(ino)
            if unx.get(ino) == os.path.join(self.d, "m.sock"):
                b["unix"] = ino
                self.managed["unix"].add(ino)
        if "boot_inodes" not in self.res:
            self.res["boot_inodes"] = b
        return b

    # ---- stimulus -----------------------------------------------------------------------------
    def deliver(self, established_needed):
        """Send the stimulus once.  For a signal: slot probe, kill(2), slot probe.
        -> dict(kind, before, after, accepted)"""
        stim = self.sc["stimulus"]
        if stim in SIGNALS:
            before = self.ctl.slot() if established_needed else None
            self.note("signal", sig=stim, slot_before=before)
            self.daemon.signal(getattr(signal, "SIG" + stim))
            after = self.ctl.slot() if established_needed else None
            self.note("signal sent", slot_after=after)
            return {"kind": "signal", "before": before, "after": after}
        # quit request: repeated until ACCEPTED (a refused request is not the statement's premise)
        end = time.time() + T(30)
        refused = 0
        while time.time() < end and self.daemon.alive():
            props = {"waiting": True} if stim == "quit_waiting" else {}
            rep = self.ctl.once("quit", **props)
            if rep.get("status") == "ok":
                self.note("quit accepted", refused_before=refused)
                return {"kind": "quit", "accepted": True, "refused": refused}
            if livelib.Ctl.is_conflict(rep):
                refused += 1
                self.note("quit refused", reason=str(rep.get("reason"))[:80])
            elif rep.get("status") == "noreply" and stim == "quit_waiting" and not self.daemon.alive():
                break
            time.sleep(T(0.1))
        # a waiting quit may lose its reply to the shutdown itself (QUITW); the exit tells
        return {"kind": "quit", "accepted": not self.daemon.alive(), "refused": refused}

    def run(self):
        sc = self.sc
        self.t0 = time.time()
        sampler = None
        opthread = None
        try:
            self.daemon.start()
            sampler = self.sampler = Sampler(self.daemon, every=self.identify_boot)
            sampler.start()
            if not self.daemon.wait_control(T(30)):
                self.res["problems"].append("no control endpoint after %.0f s: %s" % (T(30), self.daemon.log_tail(500)))
                return self.finish("machinery")
            self.note("control endpoint up")
            self.ctl = self.new_ctl()
            boot = self.identify_boot()
            if boot["inet"] is None or boot["unix"] is None:
                self.res["problems"].append("managed sockets not found among the daemon's descriptors: %s" % boot)
                return self.finish("machinery")
            # ---- bring the daemon to the scheduled moment
            if sc["phase"] == "idle":
                why = self.wait_idle(T(40))
                if why:
                    self.res["problems"].append("not idle after start-up: " + why)
                    return self.finish("machinery")
                d1 = self.deliver(established_needed=False)
            elif sc["phase"] == "warmup":
                # the start-up sequence sleeps warmup_delay (1 s) after every watcher: aim inside it
                time.sleep(sc["offset"] * 2.0)
                d1 = self.deliver(established_needed=True)
            else:
                why = self.wait_idle(T(40))
                if why:
                    self.res["problems"].append("not idle before the operation: " + why)
                    return self.finish("machinery")
                cmd, props, _name = OPS[sc["op"]]
                opres = {}

                def do_op():
                    c = self.new_ctl()
                    try:
                        opres["reply"] = c.once(cmd, timeout=T(30), **props)
                    finally:
                        c.close()
                opthread = threading.Thread(target=do_op, daemon=True)
                opthread.start()
                self.note("operation requested", op=sc["op"])
                # every stop of the stubborn watcher lasts graceful_timeout: aim inside it
                time.sleep(0.05 + sc["offset"] * sc["graceful_timeout"] * 0.8)
                d1 = self.deliver(established_needed=True)
                self.res["op_reply"] = opres
            self.res["delivery"] = d1
            # ---- does it exit?
            rc = self.daemon.wait(T(12))
            if rc is None:
                busy = (d1["kind"] == "signal" and d1.get("before") and d1.get("before") == d1.get("after"))
                self.res["dropped"].append({"slot_before": d1.get("before"), "slot_after": d1.get("after"),
                                            "established_busy": bool(busy), "kind": d1["kind"],
                                            "log_has_got_signal": "Got signal SIG_%s" % sc["stimulus"] in
                                            self.daemon.log_text()})
                self.note("still running %.0f s after the stimulus" % T(12), established_busy=bool(busy))
                # go on: await a free slot and shut down for good, so that the rest can be inspected
                if d1["kind"] == "signal":
                    why = self.wait_idle_or_stopped(T(30))
                    self.note("second delivery", idle=why is None)
                    d2 = self.deliver(established_needed=True)
                    self.res["second_delivery"] = d2
                    rc = self.daemon.wait(T(12))
                    if rc is None:
                        busy2 = d2.get("before") and d2.get("before") == d2.get("after")
                        self.res["dropped"].append({"slot_before": d2.get("before"), "slot_after": d2.get("after"),
                                                    "established_busy": bool(busy2), "kind": "signal", "second": True})
            if rc is None:
                return self.finish("alive")
            self.note("exited", status=rc)
            self.res["exit_status"] = rc
            self.inspect()
            return self.finish("exited")
        except Exception:       # noqa
            import traceback
            self.res["problems"].append("exception: " + traceback.format_exc()[-1200:])
            return self.finish("machinery")
        finally:
            if sampler is not None:
                sampler.stop = True
            try:
                if self.ctl is not None:
                    self.ctl.close()
            except Exception:   # noqa
                pass
            self.daemon.destroy()

    def wait_idle_or_stopped(self, timeout):
        """After a dropped signal: the slot free again (watchers may be stopped by the operation we ran)."""
        end = time.time() + timeout
        slot = None
        while time.time() < end and self.daemon.alive():
            slot = self.ctl.slot()
            if slot == "":
                time.sleep(T(0.1))
                return None
            time.sleep(T(0.1))
        return "slot %r" % (slot,)

    def inspect(self):
        """What is left on the machine after the daemon's exit."""
        left = self.res["leftovers"]
        if self.res["exit_status"] != 0:
            left.append({"what": "exit_status", "detail": "nothing, but its exit status was %s" % self.res["exit_status"]})
        # processes: everything seen as a child, everything that wrote a record; twice, a moment apart
        cands = dict(self.daemon.seen_children)
        for r in self.records.by_pid().values():
            if not r.get("child"):
                cands.setdefault(r["pid"], r["start_ticks"])
        first = dict((p, livelib.exists_same(p, tk)) for p, tk in cands.items())
        first = dict((p, s) for p, s in first.items() if s is not None)
        if first:
            time.sleep(T(0.3))
        both = dict((p, (s, livelib.exists_same(p, cands[p]))) for p, s in first.items())
        # left behind: alive at the exit and still there a moment later; or a zombie at the exit (the daemon
        # is gone: it never reaped it), whether or not init has collected it since
        zold = self.sampler.zombies_until_the_end() if self.sampler is not None else {}
        bad = dict((p, s) for p, s in both.items() if s[1] is not None or s[0] == "Z")
        for p, age in zold.items():
            bad.setdefault(p, ("Z", None))
        self.res["processes_known"] = len(cands)
        self.res["present_at_exit_only"] = sorted(p for p in first if p not in bad)
        if bad:
            recs = self.records.by_pid()
            procs = dict((p, {"state_at_exit": s[0], "state_later": s[1], "watcher": (recs.get(p) or {}).get("tag"),
                              "zombie_for_s_before_exit": zold.get(p)}) for p, s in bad.items())
            left.append({"what": "process", "procs": procs,
                         "only_zombies": all(v["state_at_exit"] == "Z" for v in procs.values()),
                         "detail": "former children still in the process table when the daemon was gone: %s" % procs})
        path = os.path.join(self.d, "m.sock")
        if os.path.lexists(path):
            left.append({"what": "unix_path", "detail": "managed unix socket path %s still exists" % path})
        tcp = livelib.tcp_listeners()
        unx = livelib.unix_bound() if self.sc.get("unix_dgram") else livelib.unix_listeners()
        pr = livelib.probe_inet(self.port)
        self.res["inet_probe_after_exit"] = pr
        self.res["managed_inodes_seen"] = dict((k, sorted(v)) for k, v in self.managed.items())
        still = sorted(i for i in self.managed["inet"] if i in tcp)
        if still:
            left.append({"what": "inet_listening", "detail": "the managed inet socket (inode %s, port %d) is still "
                         "listening; connect(): %s" % (still, self.port, pr)})
        elif pr == "ok":
            self.res["problems"].append("port %d answers after the exit, but through another socket (%s): taken by "
                                        "someone else" % (self.port, [i for i, a in tcp.items() if a[1] == self.port]))
        still = sorted(i for i in self.managed["unix"] if i in unx)
        if still:
            left.append({"what": "unix_listening", "detail": "the managed unix socket (inode %s) is still listening"
                         % still})
        if os.path.lexists(self.pidfile):
            try:
                with open(self.pidfile) as fh:
                    content = fh.read()
            except OSError:
                content = "?"
            left.append({"what": "pidfile", "detail": "pid file %s still exists (content %r, daemon pid %d)" % (
                self.pidfile, content, self.daemon.pid)})
        # observation only (DESIGN C08): the zmq ipc endpoint files
        self.res["ipc_endpoint_files_left"] = [n for n in ("ctl.sock", "pub.sock")
                                               if os.path.lexists(os.path.join(self.d, n))]

    def finish(self, outcome):
        self.res["outcome"] = outcome
        self.res["timeline"] = self.timeline
        self.res["daemon_pid"] = self.daemon.pid if self.daemon.p else None
        self.res["wall_s"] = round(time.time() - (self.t0 or time.time()), 2)
        if outcome != "exited" or self.res["leftovers"] or self.res["dropped"]:
            self.res["daemon_log_tail"] = self.daemon.log_tail(1500)
        return self.res


def one_run(job):
    d, sc = job
    return ShutdownRun(d, sc).run()


# ------------------------------------------------------------------------------------------------
# judging
# ------------------------------------------------------------------------------------------------
def findings_of(res):
    """-> list of (kind, attributed finding id or None, sentence).  Kinds are what a re-run has to repeat."""
    sc = res["scenario"]
    out = []
    where = {"idle": "while idle", "warmup": "during the start-up sequence (warmup_delay 1)",
             "op": "during a waiting %s" % (sc.get("op") or "")}[sc["phase"]]
    for dr in res["dropped"]:
        if dr["kind"] == "signal" and dr["established_busy"]:
            out.append(("dropped_busy", FINDING,
                        "SIG%s sent %s while the arbiter was running %s (refusals of a no-op `set` right before and "
                        "right after the kill(2) name it): the daemon was still running %.0f s later" % (
                            sc["stimulus"], where, dr["slot_before"], T(12))))
        elif dr["kind"] == "signal":
            out.append(("dropped_idle", None,
                        "SIG%s sent %s%s: the daemon was still running %.0f s later, and no exclusive operation could "
                        "be established around the signal (slot before: %r, after: %r)" % (
                            sc["stimulus"], where, " (second delivery, slot awaited free)" if dr.get("second") else "",
                            T(12), dr["slot_before"], dr["slot_after"])))
        else:
            out.append(("quit_ignored", None, "a quit request was accepted (%s) and the daemon was still running "
                                              "%.0f s later" % (where, T(12))))
    if res["outcome"] == "exited":
        for l in res["leftovers"]:
            fid = None
            # signature of the proposed finding: nothing alive is left, only ZOMBIES, all of them workers of the
            # watcher that a graceful reload trimmed earlier in this run (manage_processes: kill_process + pop,
            # no waitpid), and no periodic check (check_delay 60) could have collected them before the exit
            if (l["what"] == "process" and l.get("only_zombies") and sc.get("op") == "reload_stub" and
                    all(v["watcher"] == "stub" for v in l["procs"].values())):
                fid = FINDING_ZOMBIE
            out.append(("left_" + l["what"], fid, "after %s %s the daemon exited and left behind: %s" % (
                ("SIG" + sc["stimulus"]) if sc["stimulus"] in SIGNALS else "an accepted quit", where, l["detail"])))
    return out


def replay_obj(res, seed):
    keep = ("scenario", "port", "outcome", "exit_status", "delivery", "second_delivery", "dropped", "leftovers",
            "timeline", "boot_inodes", "managed_inodes_seen", "inet_probe_after_exit", "op_reply", "daemon_log_tail", "present_at_exit_only", "processes_known",
            "ipc_endpoint_files_left", "problems", "daemon_pid", "wall_s")
    return {"kind": "c08-live", "seed": seed, "repo": livelib.REPO, "run": dict((k, res.get(k)) for k in keep),
            "ini": make_ini("<dir>", res["scenario"], res["port"]),
            "how": "python -B harness/check_c08live.py --replay <this file>"}


def run_live_shutdown(verdict, tier, seed, scratch):
    t = checklib.Timer()
    scs = scenarios(tier, seed)
    par = 8 if tier == "quick" else 16
    jobs = [(os.path.join(scratch, "sd%03d" % sc["idx"]), sc) for sc in scs]
    with ThreadPoolExecutor(max_workers=min(par, len(jobs))) as ex:
        runs = list(ex.map(one_run, jobs))
    reruns, unreproduced, machinery_twice, not_rerun = 0, [], 0, 0
    final = []
    for (d, sc), r in zip(jobs, runs):
        f1 = findings_of(r)
        bad1 = [f for f in f1 if f[1] is None]
        if (r["outcome"] == "machinery" or bad1) and reruns >= MAX_RERUNS:
            not_rerun += 1              # too many failures to repeat them all: reported, not counted
            final.append((r, [f for f in f1 if f[1] is not None]))
        elif r["outcome"] == "machinery" or bad1:
            # once more, alone
            reruns += 1
            r2 = one_run((d + "r", sc))
            f2 = findings_of(r2)
            if r2["outcome"] == "machinery":
                if r["outcome"] == "machinery":
                    machinery_twice += 1
                    verdict.machinery.append("live shutdown run %s: %s / again: %s" % (
                        dict((k, sc[k]) for k in ("phase", "stimulus", "op")), r["problems"][:1], r2["problems"][:1]))
                final.append((r2, []))
                continue
            kinds2 = set(f[0] for f in f2)
            confirmed = [f for f in f2 if f[1] is not None or f[0] in set(x[0] for x in bad1)]
            for f in bad1:
                if f[0] not in kinds2:
                    unreproduced.append({"scenario": sc, "what": f[2]})
            r2["first_attempt"] = {"outcome": r["outcome"], "findings": [f[2] for f in f1], "problems": r["problems"]}
            final.append((r2, confirmed))
        else:
            final.append((r, f1))
    counters = {"violations": 0, "attributed": 0}
    outcomes = {}
    for r, fs in final:
        sc = r["scenario"]
        key = "%s/%s" % (sc["phase"], "signal" if sc["stimulus"] in SIGNALS else "quit")
        o = outcomes.setdefault(key, {"runs": 0, "clean_exit": 0, "dropped_busy": 0, "violations": 0})
        o["runs"] += 1
        if r["outcome"] == "exited" and not r["leftovers"] and not r["dropped"]:
            o["clean_exit"] += 1
        for kind, fid, what in fs:
            if fid is not None:
                counters["attributed_" + fid] = counters.get("attributed_" + fid, 0) + 1
                if fid == FINDING:
                    counters["attributed"] += 1
                    o["dropped_busy"] += 1
                # one report per finding and run of the check is enough; every occurrence is counted
                if counters["attributed_" + fid] == 1 or fid in verdict.known_hits:
                    verdict.attributed(fid, what, replay_obj(r, seed))
            else:
                counters["violations"] += 1
                o["violations"] += 1
                if counters["violations"] <= MAX_REPORTS:
                    verdict.violation(what, replay_obj(r, seed))
    for u in unreproduced[:5]:
        print("UNREPRODUCED (does not count): %s" % u["what"])
    done = [r for r, _ in final if r["outcome"] != "machinery"]
    samples = []
    for r, fs in final[:3] + [x for x in final if x[0]["dropped"]][:2]:
        samples.append({"scenario": r["scenario"], "outcome": r["outcome"], "exit_status": r.get("exit_status"),
                        "delivery": r.get("delivery"), "dropped": r["dropped"], "leftovers": r["leftovers"],
                        "processes_known": r.get("processes_known"), "timeline": r["timeline"][:12],
                        "ipc_endpoint_files_left": r.get("ipc_endpoint_files_left"), "wall_s": r["wall_s"]})
    hit = [r for r, _ in final if r.get("delivery", {}).get("kind") == "signal" and r["delivery"].get("before")]
    return {"live_shutdown_runs": len(final), "live_shutdown_inspected": len([r for r in done if r["outcome"] == "exited"]),
            "traces_validated_against_impl": len(done),
            "outcomes": outcomes,
            "signals_that_met_a_held_slot": len(hit),
            "signals_dropped_with_slot_established": counters["attributed"],
            "zombies_left_by_trimmed_reload": counters.get("attributed_" + FINDING_ZOMBIE, 0),
            "unattributed_violations": counters["violations"],
            "reruns_in_isolation": reruns, "failed_but_not_rerun": not_rerun, "unreproduced": unreproduced[:10], "machinery_twice": machinery_twice,
            "observation_ipc_endpoint_files_left": len([r for r in done if r.get("ipc_endpoint_files_left")]),
            "observation_present_at_exit_only": sum(len(r.get("present_at_exit_only") or []) for r in done),
            "samples": samples, "live_scale": livelib.SCALE, "circus": livelib.REPO, "wall_live_shutdown_s": t.wall()}


def replay_case(rep):
    """Re-run one recorded scenario.  -> 1 if it shows an unattributed finding again (attributed ones are printed)."""
    with tlcrun.Scratch() as scratch:
        r = one_run((os.path.join(scratch, "replay"), rep["run"]["scenario"]))
    fs = findings_of(r)
    print("replayed %s: outcome %s, exit status %s" % (
        dict((k, r["scenario"][k]) for k in ("phase", "stimulus", "op")), r["outcome"], r.get("exit_status")))
    for kind, fid, what in fs:
        print("   %s%s" % ("[%s] " % fid if fid else "", what))
    if r["outcome"] == "machinery":
        print("MACHINERY-FAILURE: %s" % r["problems"][:2])
        return 2
    return 1 if fs else 0


def run(prop, tier, seed):
    t = checklib.Timer()
    verdict = checklib.Verdict(prop)
    cov = {}
    with tlcrun.Scratch() as scratch:
        try:
            cov = run_live_shutdown(verdict, tier, seed, scratch)
        except Exception:       # noqa
            import traceback
            verdict.machinery.append("check_c08live: " + traceback.format_exc()[-1500:])
    n = int(cov.get("live_shutdown_runs", 0))
    cov.update({"evaluations": n,
                "distinct_nontrivial": len(set(json.dumps(s, sort_keys=True) for s in
                                               [dict((k, v) for k, v in sc.items() if k != "idx")
                                                for sc in scenarios(tier, seed)][:n])),
                "rule": "one evaluation = one real circusd process brought to a scheduled moment (idle / start-up "
                        "sequence / inside a waiting operation), given a shutdown stimulus, and inspected after its "
                        "exit; distinct = distinct scenario records (phase, stimulus, operation, configuration)"})
    ev = {"tier": tier, "seed": seed, "level": "exploration", "coverage": cov, "wall_s": t.wall(),
          "assumptions": [
              "the slot probe (`set` without options) is a no-op when accepted and has no effect when refused",
              "processes of the daemon = everything sampled as its direct child every 30 ms + every worker record",
              "a process counts as left behind when it is in the process table (any state, same start time) at the "
              "exit of the daemon and still 0.3 s later",
              "the zmq ipc endpoint files of the control/event channels are observed, not asserted (DESIGN C08)"]}
    return verdict.finish(ev)


if __name__ == "__main__":
    if len(sys.argv) > 2 and sys.argv[1] == "--replay":
        with open(sys.argv[2]) as _fh:
            sys.exit(replay_case(json.load(_fh)))
    _tier, _seed = checklib.tier_seed()
    sys.exit(run(sys.argv[1] if len(sys.argv) > 1 else "C08", _tier, _seed))

"""Sim binding: the REAL circus Arbiter / Watcher / Process / Controller imported from /repo, run on a
virtual-time loop over a simulated kernel.  Nothing in circus is modified: it is observed at its
boundary (process creation, signals, waitpid, clock, zmq frames, hook callables, event loop).

One `Sim` = one daemon life.  The trace is a list of dict lines (see DESIGN.md appendix B, as built):
   {"i": n, "t": ms, "k": kind, "w": watcher, "p": pid, "a": int, "r": str, "x": str, "s": state?}
"s" is present only when the projected state differs from the previous line's.
"""
import json
import os as _real_os
import signal as _signal
import sys
import time as _real_time
import types

REPO = _real_os.environ.get("VERIF_REPO", "/repo")
if REPO not in sys.path:
    sys.path.insert(0, REPO)

from harness import vloop  # noqa: E402
from harness.simkernel import Kernel, FakePopen, PID_BASE  # noqa: E402

import circus.process  # noqa: E402
import circus.watcher  # noqa: E402
import circus.arbiter  # noqa: E402
import circus.controller  # noqa: E402
import circus.sighandler  # noqa: E402
import circus.util  # noqa: E402
from circus import logger as _circus_logger  # noqa: E402
import logging  # noqa: E402

_circus_logger.setLevel(logging.CRITICAL + 1)
logging.getLogger("tornado.application").setLevel(logging.CRITICAL + 1)
logging.getLogger("asyncio").setLevel(logging.CRITICAL + 1)

CUR = None          # the Sim the module-level proxies talk to

BLOCK_CAP = 40      # blocking sleeps tolerated on one live pid before the environment ends the spin


def _safe_int(v, d=-1):
    """projection helpers: a daemon whose settings hold garbage must still be observable"""
    try:
        return int(v)
    except Exception:
        return d


def _safe_ms(v, d=-1):
    try:
        return int(round(float(v) * 1000))
    except Exception:
        return d


# what the documentation lists (commands/get.py, globaloptions.py): the recorder's own reading, not circus'
_WATCHER_OPTION_KEYS = {"numprocesses", "warmup_delay", "working_dir", "uid", "gid", "send_hup", "stop_signal",
                        "stop_children", "shell", "shell_args", "env", "max_retry", "cmd", "args", "respawn",
                        "graceful_timeout", "executable", "use_sockets", "priority", "copy_env", "singleton",
                        "stdout_stream_conf", "on_demand", "stderr_stream_conf", "max_age", "max_age_variance",
                        "close_child_stdin", "close_child_stdout", "close_child_stderr"}
_GLOBAL_OPTION_KEYS = {"endpoint", "stats_endpoint", "pubsub_endpoint", "check_delay", "multicast_endpoint"}


def _ro_valid(cmd, pr):
    if cmd == "get":
        keys = pr.get("keys", [])
        return isinstance(keys, list) and all(isinstance(k, str) and k in _WATCHER_OPTION_KEYS for k in keys)
    if cmd == "globaloptions":
        return (not pr.get("option")) or pr.get("option") in _GLOBAL_OPTION_KEYS
    return True


def _ident(name):
    return "".join(ch if ch.isalnum() else "_" for ch in str(name))


def _cmd_ver(cmd):
    """the version tag file mode writes into cmd (`simworker NAME vN`): stands for every key the model has no word for"""
    import re
    m = re.search(r" v(\d+)$", str(cmd))
    return int(m.group(1)) if m else 1


def ref_signum(v):
    """Reference reading of a signal designation (independent of circus.util.to_signum): number, numeric
    string, or a name of the signal module with or without SIG, any case.  -2 = not a designation."""
    if isinstance(v, bool):
        return -2
    if isinstance(v, int):
        return v
    if not isinstance(v, str):
        return -2
    try:
        return int(v)               # (a numeric string, as int() reads it)
    except ValueError:
        pass
    off = 0
    if "+" in v:                    # SIGRTMIN+3
        v, _, o = v.partition("+")
        if not (o.isascii() and o.isdigit()):
            return -2
        off = int(o)
    if not v.isidentifier():        # "TERM ", "KILL!", "": not a name
        return -2
    name = v.upper()
    if not name.startswith("SIG"):
        name = "SIG" + name
    if name.startswith("SIG_"):
        return -2
    val = getattr(_signal, name, None)
    if isinstance(val, _signal.Signals):
        return int(val) + off
    return -2


class _OsProxy(object):
    def __getattr__(self, name):
        return getattr(_real_os, name)

    def waitpid(self, pid, options):
        return CUR.kernel.waitpid(pid, options)

    def kill(self, pid, sig):
        if pid < PID_BASE:
            raise RuntimeError("refusing os.kill on a real pid %r" % pid)
        CUR.kernel._k("signal", pid)
        CUR.kernel.rec("oskill", p=pid, a=int(sig))
        return CUR.kernel.kill(pid, sig)

    def killpg(self, pgid, sig):
        raise RuntimeError("refusing os.killpg in simulation")


class _TimeProxy(object):
    def __getattr__(self, name):
        return getattr(_real_time, name)

    def time(self):
        return CUR.strict_time()

    def sleep(self, d):
        return CUR.blocking_sleep(d)


class _SelectProxy(object):
    """select.select as Arbiter.manage_watchers uses it (zero timeout on the managed sockets): the environment says
    whether a connection is waiting"""

    def __getattr__(self, name):
        import select as _real_select
        return getattr(_real_select, name)

    def select(self, r, w, x, timeout=None):
        ready = bool(CUR.sock_ready) and bool(r)
        CUR.rec("select", r="ready" if ready else "none")
        return (list(r) if ready else [], [], [])


class FakeCircusSocket(object):
    """a managed socket as far as the arbiter's periodic check looks at it"""

    so_reuseport = False
    replace = False

    def __init__(self, name, fd):
        self.name, self._fd = name, fd

    def fileno(self):
        return self._fd

    def bind_and_listen(self):
        pass

    def close(self):
        pass


_os_proxy = _OsProxy()
_time_proxy = _TimeProxy()
_select_proxy = _SelectProxy()


def _patch_modules():
    circus.process.Popen = FakePopen
    circus.watcher.os = _os_proxy
    circus.arbiter.os = _os_proxy
    circus.process.os = _os_proxy          # (no module of circus reaches the real kill / waitpid)
    circus.util.os = _os_proxy
    circus.watcher.time = _time_proxy
    circus.arbiter.time = _time_proxy
    circus.process.time = _time_proxy
    circus.arbiter.Controller = SimController
    circus.arbiter.select = _select_proxy


class FakeStream(object):
    """Stands for the ROUTER ZMQStream: records outgoing frames."""

    def __init__(self, sim):
        self.sim = sim
        self.pending_cid = None
        self.closed = False

    def send(self, data, flags=0):
        import zmq
        if self.closed:
            raise zmq.ZMQError(zmq.ENOTSOCK)
        if flags & zmq.SNDMORE:
            self.pending_cid = data
            return
        cid, self.pending_cid = self.pending_cid, None
        self.sim.on_reply(cid, data)

    def flush(self, *a, **k):
        pass

    def close(self, *a, **k):
        if self.closed:
            return
        self.closed = True
        self.sim.exited = True          # the control endpoint is gone: the daemon's life is over
        self.sim.rec("close", x="ctrl")

    def on_recv(self, cb):
        pass


class FakeSock(object):
    def __init__(self, sim, kind):
        self.sim = sim
        self.kind = kind
        self.closed = False
        self.linger = 0

    def bind(self, ep):
        pass

    def send_multipart(self, parts):
        if self.closed:
            raise RuntimeError("send on closed socket")
        self.sim.on_event(parts)

    def close(self, *a, **k):
        if not self.closed:
            self.closed = True
            self.sim.rec("close", x=self.kind)

    def setsockopt(self, *a):
        pass


class FakeContext(object):
    def __init__(self, sim):
        self.sim = sim

    def socket(self, kind):
        import zmq
        return FakeSock(self.sim, "pub" if kind == zmq.PUB else "router")


class SimController(circus.controller.Controller):
    def _init_syshandler(self):
        # the real SysHandler, minus the installation of process-wide signal handlers
        h = circus.sighandler.SysHandler.__new__(circus.sighandler.SysHandler)
        h.controller = self
        h._old = {}
        self.sys_hdl = h

    def initialize(self):
        self.ctrl_socket = FakeSock(CUR, "router")
        self.stream = FakeStream(CUR)


class HookScript(object):
    """Programmable hook outcomes: (watcher, hook) -> "true" | "false" | "raise"."""

    def __init__(self, sim, outcomes):
        self.sim = sim
        self.outcomes = outcomes

    def make(self, wname, hname):
        def hook(watcher=None, arbiter=None, hook_name=None, **kw):
            # (the watcher circus calls the hook FOR: with hooks shared between watchers it is not the one the hook
            #  was configured on)
            called_for = getattr(watcher, "name", None) or wname
            out = self.outcomes.get((wname, hname), "true")
            if isinstance(out, list):
                out = out.pop(0) if len(out) > 1 else out[0]
            slow = isinstance(out, str) and out.endswith("+slow")
            if slow:
                out = out[:-5]
                self.sim.loop.vnow += 0.04          # user code that takes its time (40 ms)
            self.sim.rec("hook", w=called_for, x=hname, r=out, p=kw.get("pid") or kw.get("process_pid") or 0)
            if out == "raise":
                raise RuntimeError("hook %s scripted to raise" % hname)
            return out == "true"
        hook.__name__ = "hook_%s_%s" % (wname, hname)
        return hook


WATCHER_DEFAULTS = dict(np=1, G=1.0, W=0.0, singleton=False, respawn=True, autostart=True, priority=0,
                        stop_signal=int(_signal.SIGTERM), stop_children=False, max_retry=5, max_age=0,
                        max_age_variance=0, hooks={}, send_hup=False, on_demand=False)


class Sim(object):
    def __init__(self, watchers, check_delay=1.0, warmup_delay=0.0, record_state=True, sockets=None,
                 config_file=None, file_mode=False, endpoint_owner=None):
        """watchers: list of dicts {name, np, G, W, singleton, respawn, hooks:{name:(outcome,ignore)}...}"""
        global CUR
        CUR = self
        _patch_modules()
        self.loop, self.io = vloop.install()
        self.kernel = Kernel(lambda: self.loop.vnow)
        self.kernel.rec = self.rec
        self.kernel.before_kcall = self._before_kcall
        FakePopen.kernel = self.kernel
        self.trace = []
        self._last_state = None
        self._last_strict = 0.0
        self.record_state = record_state
        self.check_delay = check_delay
        self.warmup_delay = warmup_delay
        self.wspecs = [dict(WATCHER_DEFAULTS, **w) for w in watchers]
        self.hook_outcomes = {}
        self.hooks = HookScript(self, self.hook_outcomes)
        self.injections = []          # [remaining_kcalls, fn]
        self.block_counts = {}
        self.blocked_total = 0
        self.replies = {}             # mid -> list of decoded replies
        self.reply_log = []
        self.events = []
        self.req_seq = 0
        self.exited = False
        self.exceptions = []
        self.cb_serial = 0
        self.in_cb = False
        self._probing = False
        self._all_watchers = []
        self.sock_ready = False       # a connection is waiting on a managed socket (on_demand watchers)
        self.endpoint_owner = endpoint_owner      # endpoint-owner mode: ipc endpoint owned by this user
        self.config_file = config_file
        self.file_mode = bool(file_mode)
        self.file_specs = None        # what the configuration file says now (file mode)
        self._tmpdir = None
        self.arb = None
        self._track_watchers()
        if self.file_mode:
            self._build_from_file()
        else:
            self._build()

    # ------------------------------------------------------------------ construction
    def make_watcher(self, spec):
        hooks = {}
        for hname, (outcome, ignore) in (spec.get("hooks") or {}).items():
            self.hook_outcomes[(spec["name"], hname)] = outcome
            hooks[hname] = (self.hooks.make(spec["name"], hname), bool(ignore))
        kw = dict(numprocesses=spec["np"], graceful_timeout=spec["G"], warmup_delay=spec["W"],
                  singleton=spec["singleton"], respawn=spec["respawn"], autostart=spec["autostart"],
                  priority=spec["priority"], stop_signal=spec["stop_signal"],
                  stop_children=spec["stop_children"], max_retry=spec["max_retry"],
                  max_age=spec["max_age"], max_age_variance=spec["max_age_variance"],
                  send_hup=spec["send_hup"], on_demand=spec["on_demand"],
                  hooks=hooks or None, loop=self.io)
        kw.update(spec.get("extra", {}))
        import shlex
        return circus.watcher.Watcher(spec["name"], spec.get("cmd", "simworker " + shlex.quote(spec["name"])), **kw)

    # ---- file mode: the real Arbiter.load_from_config on an ini file written from the specs ---------------------
    @staticmethod
    def render_ini(specs, check_delay, warmup_delay):
        out = ["[circus]", "check_delay = %g" % check_delay, "warmup_delay = %d" % int(warmup_delay),
               "endpoint = sim://ctrl", "pubsub_endpoint = sim://pub", ""]
        for sp in specs:
            sp = dict(WATCHER_DEFAULTS, ver=1, **sp) if "ver" not in sp else dict(WATCHER_DEFAULTS, **sp)
            out += ["[watcher:%s]" % sp["name"], "cmd = simworker %s v%d" % (sp["name"], sp["ver"]),
                    "numprocesses = %d" % sp["np"], "warmup_delay = %d" % int(sp["W"]), "graceful_timeout = %g" % sp["G"],
                    "singleton = %s" % sp["singleton"], "priority = %d" % sp["priority"],
                    "autostart = %s" % sp["autostart"], "respawn = %s" % sp["respawn"],
                    "stop_signal = %d" % sp["stop_signal"], "stop_children = %s" % sp["stop_children"],
                    "max_retry = %d" % sp["max_retry"], "send_hup = %s" % sp["send_hup"]]
            for hname, (outcome, ignore) in sorted((sp.get("hooks") or {}).items()):
                out.append("hooks.%s = %s.h_%s_%s, %s" % (hname, sp.get("_hookmod", "simhooks"), _ident(sp["name"]), hname,
                                                       bool(ignore)))
            out.append("")
        return "\n".join(out)

    def _write_hook_module(self, specs):
        """hooks in a configuration file are dotted names: a module, generated next to the ini file, whose functions
        hand over to the scripted hooks of this Sim"""
        if not any(sp.get("hooks") for sp in specs):
            return
        mod = "simhooks_%d" % id(self)
        lines = ["from harness import simdaemon", ""]
        for sp in specs:
            sp["_hookmod"] = mod
            for hname, (outcome, ignore) in sorted((sp.get("hooks") or {}).items()):
                self.hook_outcomes[(sp["name"], hname)] = outcome
                lines += ["def h_%s_%s(*a, **k):" % (_ident(sp["name"]), hname),
                          "    return simdaemon.CUR.hooks.make(%r, %r)(*a, **k)" % (sp["name"], hname), ""]
        with open(_real_os.path.join(self._tmpdir, mod + ".py"), "w") as fh:
            fh.write("\n".join(lines))
        if self._tmpdir not in sys.path:
            sys.path.insert(0, self._tmpdir)
        self._hookmod = mod

    def write_file(self, specs, check_delay=None):
        """check_delay: what the file's [circus] section says from now on (None = what the arbiter was booted with);
        a [circus] section that differs from the boot-time one makes every reloadconfig restart everything"""
        self.file_specs = [dict(WATCHER_DEFAULTS, **dict({"ver": 1}, **sp)) for sp in specs]
        self._write_hook_module(self.file_specs)
        self.file_check_delay = self.check_delay if check_delay is None else check_delay
        with open(self.config_file, "w") as fh:
            fh.write(self.render_ini(self.file_specs, self.file_check_delay, self.warmup_delay))

    def file_records(self):
        return [self._spec_record(sp) for sp in (self.file_specs or [])]

    def _spec_record(self, sp):
        return {"n": sp["name"], "ln": sp["name"].lower(), "np": sp["np"], "G": int(round(sp["G"] * 1000)),
                "Gp": self.polls(sp["G"]), "Wt": int(round(sp["W"] * 10)), "retry": sp["max_retry"],
                "W": int(round(sp["W"] * 1000)), "sing": bool(sp["singleton"]), "resp": bool(sp["respawn"]),
                "auto": bool(sp["autostart"]), "prio": sp["priority"], "ssig": sp["stop_signal"],
                "sch": bool(sp["stop_children"]), "hup": bool(sp["send_hup"]), "ver": int(sp.get("ver", 1))}

    def _build_from_file(self):
        import tempfile
        self._tmpdir = tempfile.mkdtemp(prefix="simcfg-")
        self.config_file = _real_os.path.join(self._tmpdir, "circus.ini")
        self.wspecs = [dict(s, ver=s.get("ver", 1)) for s in self.wspecs]
        self.write_file(self.wspecs)
        A = circus.arbiter.Arbiter
        orig = A.__init__
        sim = self

        def wrapped(self_, *a, **k):
            k["context"] = FakeContext(sim)
            return orig(self_, *a, **k)
        A.__init__ = wrapped
        try:
            self.arb = A.load_from_config(self.config_file, loop=self.io)
        finally:
            A.__init__ = orig
        self._instrument_reload()
        # the model's initial watcher list is the arbiter's (get_config does not keep the file's order)
        order = [w.name for w in self.arb.watchers]
        self.wspecs.sort(key=lambda sp: order.index(sp["name"]) if sp["name"] in order else len(order))
        self.rec("init", cfg=self.header())

    def _instrument_reload(self):
        """reload_from_config runs its loops over Python sets: log the order it takes them in (one line per
        get_watcher / get_watcher_config call made BY reload_from_config; nothing in circus is changed)"""
        arb, sim = self.arb, self
        gw, gc = arb.get_watcher, arb.get_watcher_config

        def get_watcher(name):
            if sys._getframe(1).f_code.co_name == "reload_from_config":
                sim.rec("selw", w=str(name).lower())
            return gw(name)

        def get_watcher_config(cfg, name):
            if sys._getframe(1).f_code.co_name == "reload_from_config":
                sim.rec("selc", w=str(name).lower())
            return gc(cfg, name)
        arb.get_watcher = get_watcher
        arb.get_watcher_config = get_watcher_config

    def _track_watchers(self):
        """every Watcher built from a configuration dict is observable from then on (reload_from_config starts a
        new watcher BEFORE it registers it)"""
        sim = self
        W = circus.watcher.Watcher
        if not hasattr(W, "_verif_orig_lfc"):
            W._verif_orig_lfc = W.load_from_config.__func__

        def lfc(cls, config):
            w = W._verif_orig_lfc(cls, config)
            cur = CUR
            if cur is not None and not any(w is x for x in cur._all_watchers):
                cur._all_watchers.append(w)
            return w
        W.load_from_config = classmethod(lfc)

    def _build(self):
        ws = [self.make_watcher(s) for s in self.wspecs]
        self.arb = circus.arbiter.Arbiter(ws, "ipc:///nonexistent/sim-ctrl" if self.endpoint_owner else "sim://ctrl",
                                          "sim://pub", check_delay=self.check_delay,
                                          context=FakeContext(self), loop=self.io,
                                          warmup_delay=self.warmup_delay, endpoint_owner=self.endpoint_owner)
        if any(sp.get("on_demand") for sp in self.wspecs):
            self.arb.sockets["sim"] = FakeCircusSocket("sim", 1000)
        self.rec("init", cfg=self.header())

    def socket_event(self, ready):
        """environment: a connection arrives on a managed socket / has been accepted"""
        if self.exited:
            return
        self.sock_ready = bool(ready)
        self.rec("sockev", a=1 if ready else 0)

    @staticmethod
    def polls(G):
        """number of 0.1 s polls kill_process makes before escalating (the code's own float arithmetic)"""
        n, waited = 0, 0
        while waited < G:
            n += 1
            waited += 0.1
        return n

    def header(self):
        return {"fm": bool(self.file_mode), "file": self.file_records() if self.file_mode else [],
                "eom": bool(self.endpoint_owner),
                "cd": int(round(self.check_delay * 1000)) if self.check_delay > 0 else -1,
                "wg": int(round(self.warmup_delay * 1000)),
                "cdt": int(round(self.check_delay * 10)) if self.check_delay > 0 else -1,
                "wgt": int(round(self.warmup_delay * 10)),
                "ws": [{"n": s["name"], "ln": s["name"].lower(), "np": s["np"], "G": int(round(s["G"] * 1000)),
                        "Gp": self.polls(s["G"]), "Wt": int(round(s["W"] * 10)), "retry": s["max_retry"],
                        "W": int(round(s["W"] * 1000)), "sing": bool(s["singleton"]),
                        "resp": bool(s["respawn"]), "auto": bool(s["autostart"]), "prio": s["priority"],
                        "ssig": s["stop_signal"], "sch": bool(s["stop_children"]),
                        "mage": s["max_age"], "hup": bool(s["send_hup"]), "od": bool(s["on_demand"]),
                        "ver": int(s.get("ver", 1)), "maget": int(s["max_age"]) * 10,
                        "hooks": [{"h": h, "o": (v[0][:-5] if v[0].endswith("+slow") else v[0]) if isinstance(v[0], str) else "seq",
                                   "ig": bool(v[1])}
                                  for h, v in sorted((s.get("hooks") or {}).items())]}
                       for s in self.wspecs]}

    # ------------------------------------------------------------------ clock
    def strict_time(self):
        """time.time() as circus sees it: virtual time plus a reading counter (a real clock never reads the same
        value twice, and a LATER reading is always LARGER: `age() > max_age` is true from the instant the age
        reaches max_age on the virtual grid, deterministically)"""
        self._strict_n = getattr(self, "_strict_n", 0) + 1
        t = self.loop.vnow + self._strict_n * 1e-9
        if t <= self._last_strict:
            t = self._last_strict + 1e-9
        self._last_strict = t
        return t

    def blocking_sleep(self, d):
        """time.sleep inside a callback: the loop is blocked for d virtual seconds."""
        self.blocked_total += d
        self.loop.vnow += d
        pid = getattr(self, "_last_wait_pid", None)
        if self.kernel.settle():
            return
        n = self.block_counts.get(pid, 0) + 1
        self.block_counts[pid] = n
        if n == 1:
            self.rec("block", p=pid or 0)
        if n >= BLOCK_CAP and pid is not None:
            # the environment ends the spin: the worker finally dies (a legal environment step);
            # the block itself has been recorded and is what C05 judges
            sp = self.kernel.procs.get(pid)
            if sp is not None and sp.st == "run":
                self.kernel.die(pid, int(_signal.SIGKILL))
            self.block_counts[pid] = 0

    # ------------------------------------------------------------------ recording
    def ms(self):
        return int(round(self.loop.vnow * 1000))

    def rec(self, k, w="", p=0, a=0, r="", x="", b=0, c=0, **extra):
        if k == "waitpid" and r == "none":
            self._last_wait_pid = p
        line = {"i": len(self.trace) + 1, "t": self.ms(), "cb": 1 if self.in_cb else 0, "k": k, "w": w,
                "p": self.kernel.short(p) if p else 0, "a": int(a) if a is not None else 0,
                "b": int(b), "c": int(c), "r": r, "x": x}
        line.update(extra)
        if self.record_state and self.arb is not None:
            s = self.project()
            if s != self._last_state:
                line["s"] = s
                self._last_state = s
        self.trace.append(line)
        return line

    def _changed(self):
        """Did the projected state change (other than the pending-activity count) since the last line?"""
        if self._last_state is None:
            return True
        s = self.project()
        return any(s[k] != self._last_state[k] for k in s if k != "fl")

    def project(self):
        arb = self.arb
        k = self.kernel
        ws = []
        seen = set()
        for w in list(arb.watchers) + list(arb._watchers_names.values()):
            if id(w) in seen:
                continue
            seen.add(id(w))
            if not any(w is x for x in self._all_watchers):
                self._all_watchers.append(w)
            ws.append(self.project_watcher(w))
        # a watcher removed from the directory stays observable while it still has workers or is not stopped
        for w in self._all_watchers:
            if id(w) not in seen and (w.processes or w._status != "stopped") \
                    and not getattr(w, "_verif_released", False):     # rm nostop: no longer the daemon's business
                ws.append(self.project_watcher(w))
        return {"slot": arb._exclusive_running_command or "",
                "stopping": bool(arb._stopping), "restarting": bool(arb._restarting),
                "wl": [w.name for w in arb.watchers],
                "wll": [w.name.lower() for w in arb.watchers],
                "wn": sorted(arb._watchers_names.keys()),
                "w": ws,
                "k": [[k.short(pid), sp.st, sp.wstatus if sp.wstatus is not None else -1,
                       0 if sp.parent is None else (k.short(sp.parent) if sp.parent > 0 else -1)]
                      for pid, sp in sorted(k.procs.items())],
                "fl": self.inflight()}

    def project_watcher(self, w):
        k = self.kernel
        return {"n": w.name, "ln": w.name.lower(), "st": w._status, "np": _safe_int(w.numprocesses, -99),
                "npbad": not isinstance(w.numprocesses, int) or isinstance(w.numprocesses, bool),
                "sing": bool(w.singleton), "resp": bool(w.respawn),
                "G": _safe_ms(w.graceful_timeout), "W": _safe_ms(w.warmup_delay),
                "ssig": _safe_int(w.stop_signal), "sch": bool(w.stop_children), "od": bool(w.on_demand),
                "mage": max(_safe_int(w.max_age), 0) * 10, "hup": bool(w.send_hup), "ver": _cmd_ver(w.cmd),      # (ticks of 0.1 s, as in Core)
                "pr": [[k.short(p.pid), int(p.wid), 1 if p.stopping else 0]
                       for p in w.processes.values()]}

    def periodic_handle(self):
        c = getattr(self.arb.ctrl, "caller", None)
        if c is None or not getattr(c, "_running", False):
            return None
        return getattr(c, "_timeout", None)

    def inflight(self):
        """Number of pending loop activities other than the periodic check's own timer."""
        ph = self.periodic_handle()
        n = self.loop.ready_len()
        for h in self.loop.timers():
            if h is not ph:
                n += 1
        return n

    def quiescent(self):
        return self.inflight() == 0 and not self.arb._exclusive_running_command

    # ------------------------------------------------------------------ observation callbacks
    def on_reply(self, cid, data):
        try:
            obj = json.loads(data)
        except Exception:
            obj = None
        mid = obj.get("id") if isinstance(obj, dict) else None
        cidn = cid.decode("latin1") if isinstance(cid, bytes) else str(cid)
        self.reply_log.append((cidn, obj, data))
        self.replies.setdefault(cidn, []).append(obj)
        st = obj.get("status") if isinstance(obj, dict) else "malformed"
        err = obj.get("errno", 0) if isinstance(obj, dict) else 0
        reason = str(obj.get("reason", "")) if isinstance(obj, dict) else ""
        low = reason.lower()
        rc = ("singleton" if "singleton" in low else "uid" if "valid user" in low or "uid" in low
              else "gid" if "valid group" in low or "gid" in low
              else "hook" if "import" in low or "no module" in low or "cannot resolve" in low
              else "signal" if "signal" in low else "conflict" if "already running" in low or "restarting" in low
              else "" if not reason else "other")
        self.rec("reply", x=cidn, r=str(st), a=err if isinstance(err, int) else 0,
                 w=mid if isinstance(mid, str) else "json:" + json.dumps(mid),
                 b=1 if isinstance(obj, dict) else 0, rc=rc)

    def on_event(self, parts):
        topic = parts[0].decode("utf8")
        try:
            msg = json.loads(parts[1])
        except Exception:
            msg = {}
        self.events.append((self.loop.vnow, topic, msg))
        bits = topic.split(".")
        wname, ev = (bits[1], bits[2]) if len(bits) >= 3 else ("", topic)
        if " " not in wname:      # the topic carries the watcher's "resource name" (blanks -> '_'): back to its name
            for w in list(getattr(self.arb, "watchers", [])) + list(self._all_watchers):
                if " " in w.name and w.name.lower().replace(" ", "_") == wname:
                    wname = w.name.lower()
                    break
        pid = msg.get("process_pid", 0) if isinstance(msg, dict) else 0
        a = msg.get("exit_code", 0) if isinstance(msg, dict) else 0
        x = ev
        if ev in ("hook_success", "hook_failure"):
            x = ev + ":" + str(msg.get("name"))
        if ev == "reap" and (isinstance(a, bool) or not isinstance(a, int)):
            a = -999            # an exit_code that is not a number (None, a string ...) is not any exit status
        self.rec("ev", w=wname, x=x, p=pid or 0, a=a if isinstance(a, int) else 0)

    # ------------------------------------------------------------------ injections
    def _before_kcall(self, kind, pid):
        if not self.injections or self._probing:
            return
        keep = []
        fire = []
        for inj in self.injections:
            inj[0] -= 1
            (fire if inj[0] <= 0 else keep).append(inj)
        self.injections = keep
        for inj in fire:
            inj[1]()

    def inject_before_kcall(self, k, fn):
        self.injections.append([k, fn])

    # ------------------------------------------------------------------ driving
    def boot(self):
        """Arbiter.start() with a provided loop is a coroutine: run its first segment."""
        self.rec("boot")
        self.in_cb = True
        try:
            fut = self.arb.start()
        finally:
            self.kernel.settle()
            self.in_cb = False
        self._boot_future = fut
        return fut

    def run_handle(self):
        self.cb_serial += 1
        self.block_counts = {}
        self.in_cb = True
        try:
            return self.loop.run_one()
        except BaseException as e:        # a callback must never take the harness down
            self.exceptions.append(repr(e))
            self.rec("exc", x=type(e).__name__)
            return True
        finally:
            self.kernel.settle()
            self.in_cb = False
            if self.record_state and self.arb is not None and self._changed():
                self.rec("cb")      # make every between-callbacks state visible (e.g. a slot release)

    def drain(self, limit=20000):
        n = 0
        while self.loop.ready_len() and n < limit:
            self.run_handle()
            n += 1
        if n >= limit:
            self.rec("livelock")
        return n

    def fire_due(self, order=None):
        """Fire all due timers (earliest first, or in the given permutation for ties) and drain."""
        due = self.loop.due()
        if order:
            due = [due[i % len(due)] for i in order if due] + [h for j, h in enumerate(due)]
            seen, uniq = set(), []
            for h in due:
                if id(h) not in seen:
                    seen.add(id(h))
                    uniq.append(h)
            due = uniq
        for h in due:
            if h in self.loop._scheduled and not h._cancelled:
                self.loop.fire(h)
                self.drain()
        return len(due)

    def tick(self, order=None):
        """Advance virtual time to the next timer deadline and run what is due. False if no timer."""
        d = self.loop.next_deadline()
        if d is None:
            return False
        self.loop.advance_to(d)
        self.rec("tick")
        self.fire_due(order)
        return True

    def advance(self, dt, order=None):
        """Advance by dt seconds, firing timers at their deadlines on the way."""
        end = self.loop.vnow + dt
        while True:
            d = self.loop.next_deadline()
            if d is None or d > end + 1e-9:
                break
            self.loop.advance_to(d)
            self.rec("tick")
            self.fire_due(order)
        self.loop.advance_to(end)

    def _set_opts(self, options):
        """the options object of a `set` request in the model's terms (Core.tla SetOpts), [] when it holds anything
        the model has no word for (the request is then outside the strict pass)"""
        if not isinstance(options, dict) or not options:
            return []
        out = []
        for key, val in options.items():
            try:
                if key == "numprocesses":
                    out.append({"k": "np", "v": int(val)})
                elif key == "graceful_timeout":
                    out.append({"k": "G", "v": self.polls(float(val))})
                elif key == "warmup_delay":
                    out.append({"k": "W", "v": int(round(float(val) * 10))})
                elif key == "stop_signal":
                    out.append({"k": "ssig", "v": ref_signum(val)})
                elif key == "stop_children":
                    out.append({"k": "sch", "v": 1 if str(val).lower() in ("true", "1", "t", "y", "yes", "on") else 0})
                elif key == "send_hup":
                    out.append({"k": "hup", "v": 1 if val else 0})
                elif key == "max_age":
                    out.append({"k": "mage", "v": int(val) * 10})
                elif key in ("cmd", "args", "env", "working_dir", "shell") or (key == "max_age_variance" and int(val) == 0):
                    out.append({"k": "act1", "v": 0})
                elif key in ("max_retry", "retry_in", "respawn", "copy_env"):
                    out.append({"k": "noop", "v": 0})
                else:
                    return []
            except Exception:
                return []
        return out

    def request(self, cmd, props=None, mid=None, cid=None, cast=False, raw=None):
        if self.exited:
            return None                  # nobody is listening any more
        self.req_seq += 1
        cidn = cid or ("c%d" % self.req_seq)
        raw_given = raw is not None
        if raw is None:
            msg = {"command": cmd, "properties": props or {}}
            if mid is not False:
                msg["id"] = mid or ("m%d" % self.req_seq)
            if cast:
                msg["msg_type"] = "cast"
            raw = json.dumps(msg).encode("utf8")
        pr = props or {}

        def _i(v, d=-1):
            try:
                return int(v)
            except Exception:
                return d
        q = {"cmd": str(cmd), "name": str(pr.get("name", "")), "lname": str(pr.get("name", "")).lower(),
             "hasname": "name" in pr,
             "pattern": isinstance(pr.get("name"), str) and pr.get("match", "glob") != "simple"
             and any(ch in pr["name"] for ch in "*?["), "mid": str(mid or ("m%d" % self.req_seq))
             if mid is not False else "", "waiting": bool(pr.get("waiting")), "cast": bool(cast),
             "pid": self.kernel.short(_i(pr.get("pid"), 0)) if "pid" in pr else -1,
             "signum": ref_signum(pr.get("signum")) if "signum" in pr else -1,
             "children": bool(pr.get("children")), "recursive": bool(pr.get("recursive")),
             "childpid": self.kernel.short(_i(pr.get("childpid"), 0)) if "childpid" in pr else -1,
             "nb": _i(pr.get("nb", 1), 1),
             "G": int(round(float(pr["graceful_timeout"]) * 1000)) if isinstance(
                 pr.get("graceful_timeout"), (int, float)) else -1,
             "Gp": self.polls(float(pr["graceful_timeout"])) if isinstance(
                 pr.get("graceful_timeout"), (int, float)) else -1,
             "setnp": _i((pr.get("options") or {}).get("numprocesses"), -99)
             if isinstance(pr.get("options"), dict) and "numprocesses" in pr["options"] else -99,
             "nostop": bool(pr.get("nostop")), "graceful": bool(pr.get("graceful", True)),
             "sequential": bool(pr.get("sequential")), "start": bool(pr.get("start")),
             "raw": raw_given,
             "nopts": len(pr.get("options")) if isinstance(pr.get("options"), dict) else 0,
             "addnp": _i((pr.get("options") or {}).get("numprocesses", 1), 1) if isinstance(pr.get("options"), dict) else 1,
             "addGp": self.polls(float((pr.get("options") or {}).get("graceful_timeout", 30.0)))
             if isinstance(pr.get("options"), dict) and isinstance((pr.get("options") or {}).get(
                 "graceful_timeout", 30.0), (int, float)) else 300,
             "addWt": int(round(float((pr.get("options") or {}).get("warmup_delay", 0)) * 10))
             if isinstance(pr.get("options"), dict) and isinstance((pr.get("options") or {}).get(
                 "warmup_delay", 0), (int, float)) else 0,
             "addsing": bool((pr.get("options") or {}).get("singleton")) if isinstance(pr.get("options"), dict) else False}
        q["opts"] = self._set_opts(pr.get("options")) if cmd == "set" else []
        q["rovalid"] = _ro_valid(cmd, pr)
        ouid = (pr.get("options") or {}).get("uid") if isinstance(pr.get("options"), dict) else None
        q["adduid"] = "none" if ouid is None else ("owner" if self.endpoint_owner is not None and ouid == self.endpoint_owner
                                                   else "other")
        q["file"] = self.file_records() if cmd == "reloadconfig" else []
        q["arbchg"] = bool(cmd == "reloadconfig" and self.file_mode
                           and getattr(self, "file_check_delay", self.check_delay) != self.check_delay)
        q["matches"] = []
        if q["pattern"]:
            import fnmatch
            q["matches"] = [w.name.lower() for w in self.arb.watchers
                            if fnmatch.fnmatchcase(w.name.lower(), pr["name"].lower())]
        self.rec("req", x=cidn, r=str(cmd), w=str(pr.get("name", "")), a=1 if pr.get("waiting") else 0,
                 q=q)
        self.block_counts = {}
        self.in_cb = True
        rel = None
        if cmd == "rm" and pr.get("nostop") and isinstance(pr.get("name"), str):
            rel = self.arb._watchers_names.get(pr["name"].lower())
        try:
            self.arb.ctrl.handle_message([cidn.encode("latin1"), raw])
            if rel is not None and not any(rel is w for w in self.arb.watchers):
                rel._verif_released = True
        except BaseException as e:
            self.exceptions.append(repr(e))
            self.rec("exc", x=type(e).__name__)
        finally:
            self.rec("reqend", x=cidn)
            self.kernel.settle()
            self.in_cb = False
            if self.record_state and self._changed():
                self.rec("cb")
        return cidn

    def daemon_signal(self, sig):
        if self.exited:
            return
        self.rec("dsig", a=int(sig))
        self.in_cb = True
        try:
            self.arb.ctrl.sys_hdl.signal(int(sig))
        finally:
            self.in_cb = False

    def sel(self, wname, idx, live_only=True):
        w = self.arb._watchers_names.get(wname.lower())
        if w is None:
            return None
        pids = [p.pid for p in w.processes.values()]
        if live_only:
            pids = [p for p in pids if self.kernel.procs[p].st == "run"]
        if not pids:
            return None
        return sorted(pids)[idx % len(pids)]

    def probe(self):
        """Issue the real read-only requests and record what they say (properties are over replies)."""
        if self.exited:
            return None
        self._probing = True
        try:
            return self._probe()
        finally:
            self._probing = False

    def _probe(self):
        out = {}
        for cmd, props in (("list", {}), ("numwatchers", {}), ("status", {}), ("numprocesses", {}),
                           ("stats", {})):
            cid = self.request(cmd, props)
            r = self.replies.get(cid, [None])[-1]
            out[cmd] = r
        names = []
        r = out.get("list")
        if isinstance(r, dict):
            names = r.get("watchers", []) or []
        per = {}
        for n in names:
            d = {}
            for cmd in ("list", "numprocesses", "status", "stats"):
                cid = self.request(cmd, {"name": n})
                d[cmd] = self.replies.get(cid, [None])[-1]
            per[n] = d
        out["per"] = per
        summary = {"watchers": names,
                   "numwatchers": (out["numwatchers"] or {}).get("numwatchers"),
                   "statuses": (out["status"] or {}).get("statuses"),
                   "stats": sorted(((out["stats"] or {}).get("infos") or {}).keys()),
                   "per": {n: {"pids": [self.kernel.short(p) for p in (d["list"] or {}).get("pids", [])],
                               "np": (d["numprocesses"] or {}).get("numprocesses"),
                               "st": (d["status"] or {}).get("status"),
                               "stats": sorted(self.kernel.short(int(p)) for p in
                                               ((d["stats"] or {}).get("info") or {}).keys())}
                           for n, d in per.items()}}
        pb = {"wl": list(summary["watchers"]),
              "nw": summary["numwatchers"] if isinstance(summary["numwatchers"], int) else -1,
              "stn": sorted(n.lower() for n in (summary["statuses"] or {}).keys()),
              "stats": sorted(n.lower() for n in summary["stats"]),
              "per": [{"n": n, "pids": sorted(d["pids"]), "np": d["np"] if isinstance(d["np"], int) else -1,
                       "st": str(d["st"]), "stats": list(d["stats"])}
                      for n, d in sorted(summary["per"].items())]}
        self.rec("probe", pb=pb)
        return summary

    def close(self):
        global CUR
        try:
            vloop.uninstall(self.loop)
        finally:
            if CUR is self:
                CUR = None
            if self._tmpdir:
                import shutil
                shutil.rmtree(self._tmpdir, ignore_errors=True)
                if self._tmpdir in sys.path:
                    sys.path.remove(self._tmpdir)
                sys.modules.pop(getattr(self, "_hookmod", ""), None)

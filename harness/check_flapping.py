"""Beyond the listed properties: spec/Flapping.tla bound to circus/plugins/flapping.py.

  (a) TLC checks the module exhaustively on small constants (TypeOK, TriesBounded);
  (b) `tlc -simulate` produces histories (reap / updated / timer / tick, with the casts the model expects); each is
      replayed on the REAL `circus.plugins.flapping.Flapping` object -- its `call` (the `options` request), `cast`, the
      `Timer` class and `time.time` of its module replaced by recording stand-ins, nothing else -- and after every step the
      casts, the retry counter, the length of the timeline and the armed timers are compared with the model;
  (c) two counterexample searches document what the code does that its docstring does not say (Dev_TimersPile,
      Dev_EqAttempts); each counterexample is reproduced on the real object.

No property of /verif/properties.jsonl speaks about plugins, so nothing here is registered in MANIFEST.json and
nothing here can raise a VIOLATION: `bin/extra flapping` prints a summary, writes out/extra_flapping.json and exits 0
when model and code agree on every replayed step, 3 when they do not (a divergence to look at), 2 on machinery failure.
"""
import json
import os
import re
import sys

ROOT = os.path.dirname(os.path.dirname(os.path.abspath(__file__)))
if ROOT not in sys.path:
    sys.path.insert(0, ROOT)

from harness import tlcrun  # noqa: E402

REPO = os.environ.get("VERIF_REPO", "/repo")
BASE = {"Watchers": "<- W2", "MaxTime": "= 8", "MaxReaps": "= 6", "MaxUpdates": "= 1", "CheckDelay": "= 1",
        "Defaults": "<- Def", "Overrides": "<- Ovr", "Record": "= FALSE", "Dev_TimersPile": "= TRUE",
        "Dev_EqAttempts": "= TRUE"}
DEF = {"attempts": 2, "window": 1, "retry_in": 3, "max_retry": 2, "active": True}
CHECK_DELAY = 1


def cfg(over, invariants, next_="Next", view=True):
    c = dict(BASE)
    c.update(over)
    lines = ["CONSTANTS"] + ["  %s %s" % kv for kv in sorted(c.items())]
    lines += ["INIT Init", "NEXT " + next_, "CHECK_DEADLOCK FALSE"] + (["VIEW View"] if view else [])
    lines += ["INVARIANT " + i for i in invariants]
    return "\n".join(lines) + "\n"


def decode(out, tag):
    res = []
    pat = re.compile(r'^<<"%s", (".*")>>\s*$' % tag)
    for line in out.splitlines():
        m = pat.match(line)
        if m:
            res.append(json.loads(json.loads(m.group(1))))
    return res


class FakeTimer(object):
    armed = []          # (due, fn, timer) in arming order

    def __init__(self, delay, fn, *a, **k):
        self.delay, self.fn, self.cancelled = delay, fn, False

    def start(self):
        FakeTimer.armed.append((Replay.now + self.delay, self.fn, self))

    def cancel(self):
        self.cancelled = True


class Replay(object):
    now = 0

    def __init__(self):
        for name in list(sys.modules):
            if name == "circus" or name.startswith("circus."):
                f = getattr(sys.modules[name], "__file__", "") or ""
                if not os.path.abspath(f).startswith(os.path.abspath(REPO) + os.sep):
                    del sys.modules[name]
        if REPO not in sys.path:
            sys.path.insert(0, REPO)
        import circus.plugins.flapping as mod
        self.mod = mod

        class _Time(object):
            @staticmethod
            def time():
                return float(Replay.now)
        mod.time = _Time
        mod.Timer = FakeTimer
        FakeTimer.armed = []
        Replay.now = 0
        self.p = mod.Flapping("ipc:///nowhere", "ipc:///nowhere2", CHECK_DELAY, None,
                              attempts=str(DEF["attempts"]), window=str(DEF["window"]), retry_in=str(DEF["retry_in"]),
                              max_retry=str(DEF["max_retry"]), active="True")
        self.casts = []
        self.options = {}           # watcher -> flapping.* options the daemon would answer
        self.p.cast = lambda cmd, **props: self.casts.append((cmd, props.get("name")))
        self.p.call = lambda cmd, **props: {"status": "ok", "options": dict(self.options.get(props.get("name"), {}))}

    def step(self, e):
        """-> None or a description of the disagreement"""
        Replay.now = e["t"]
        before = len(self.casts)
        narmed = len(FakeTimer.armed)
        w = e["w"]
        if e["a"] == "reap":
            self.p.handle_recv([("watcher.%s.reap" % w).encode(), b"{}"])
            got = [c for c in self.casts[before:]]
            want = [(e["cast"], w)] if e["cast"] else []
            if got != want:
                return "casts %r, the model says %r" % (got, want)
            if (len(FakeTimer.armed) > narmed) != bool(e["arm"]):
                return "timer armed: %r, the model says %r" % (len(FakeTimer.armed) > narmed, e["arm"])
            if self.p.tries.get(w, 0) != e["tries"]:
                return "tries %r, the model says %r" % (self.p.tries.get(w, 0), e["tries"])
            if len(self.p.timelines.get(w, [])) != e["n"]:
                return "timeline length %r, the model says %r" % (len(self.p.timelines.get(w, [])), e["n"])
        elif e["a"] == "fire":
            mine = [x for x in FakeTimer.armed if not x[2].cancelled and x[1].__closure__ and
                    any(getattr(c.cell_contents, "__class__", None) is str and c.cell_contents == w for c in x[1].__closure__)]
            due = [x for x in mine if x[0] <= Replay.now]
            if not due:
                return "no start timer of %s is due at %r (armed: %r)" % (w, Replay.now, [(x[0]) for x in mine])
            x = min(due, key=lambda y: y[0])
            FakeTimer.armed.remove(x)
            x[1]()
            if self.casts[before:] != [("start", w)]:
                return "the timer cast %r, the model says start %s" % (self.casts[before:], w)
        elif e["a"] == "updated":
            o = e["o"]
            self.options[w] = {"flapping.attempts": str(o["attempts"]), "flapping.window": str(o["window"]),
                               "flapping.retry_in": str(o["retry_in"]), "flapping.max_retry": str(o["max_retry"]),
                               "flapping.active": "True" if o["active"] else "False", "numprocesses": 1}
            self.p.handle_recv([("watcher.%s.updated" % w).encode(), b"{}"])
            if self.casts[before:]:
                return "an `updated` event cast %r" % (self.casts[before:],)
        return None

    def run(self, beh):
        for i, e in enumerate(beh):
            try:
                bad = self.step(e)
            except Exception as ex:        # the handler raised: the model has no such step
                bad = "the handler raised %r" % (ex,)
            if bad:
                return i, bad
        return len(beh), None


def main(tier="quick", seed=1):
    res = {"mc": [], "replayed": 0, "steps": 0, "divergences": [], "cex": {}}
    machinery = []
    with tlcrun.Scratch() as scratch:
        spec = os.path.join(ROOT, "spec", "Flapping_MC.tla")

        def tlc(name, text, extra=()):
            path = os.path.join(scratch, "fl_%s.cfg" % name)
            with open(path, "w") as fh:
                fh.write(text)
            return tlcrun.run_tlc(spec, path, scratch, extra_args=list(extra), timeout=900, workers=8, heap="4g")
        # (a)
        for name, over in (("one", {"Watchers": "<- W1", "MaxUpdates": "= 2", "MaxTime": "= 10"}), ("two", {})):
            r = tlc(name, cfg(over, ["TypeOK", "TriesBounded"]))
            st = tlcrun.parse_stats(r["out"]) if hasattr(tlcrun, "parse_stats") else {}
            ok = "Model checking completed. No error has been found" in r["out"]
            res["mc"].append({"name": name, "ok": ok, "stats": st})
            if not ok:
                machinery.append("TLC on Flapping (%s): %s" % (name, r["out"][-400:]))
        # (b)
        n = 300 if tier == "quick" else 3000
        r = tlc("sim", cfg({"Record": "= TRUE", "MaxTime": "= 30", "MaxReaps": "= 100", "MaxUpdates": "= 3"},
                           ["TypeOK"], next_="MCNext", view=False),
                extra=["-simulate", "num=%d" % n, "-depth", "26", "-seed", str(seed)])
        behs = decode(r["out"], "BEH")
        if not behs:
            machinery.append("tlc -simulate gave no history: " + r["out"][-300:])
        seen = set()
        for beh in behs:
            key = json.dumps(beh, sort_keys=True)
            if key in seen:
                continue
            seen.add(key)
            done, bad = Replay().run(beh)
            res["replayed"] += 1
            res["steps"] += done
            if bad:
                res["divergences"].append({"step": done, "what": bad, "behaviour": beh[:done + 1]})
        # (c)
        for inv in ("OnePendingDump", "TimelineShortDump"):
            r = tlc(inv, cfg({"Record": "= TRUE", "Watchers": "<- W1"}, [inv], view=False))
            cex = decode(r["out"], "CEX")
            entry = {"found": bool(cex)}
            if cex:
                done, bad = Replay().run(cex[0])
                entry.update({"length": len(cex[0]), "reproduced_on_real_code": bad is None and done == len(cex[0]),
                              "behaviour": cex[0]})
            res["cex"][inv] = entry
    os.makedirs(os.path.join(ROOT, "out"), exist_ok=True)
    with open(os.path.join(ROOT, "out", "extra_flapping.json"), "w") as fh:
        json.dump(res, fh, indent=1)
    print("Flapping: MC %s; %d histories replayed on circus.plugins.flapping.Flapping (%d steps), %d disagreements; "
          "as-coded deviations: %s" % (
              ", ".join("%s %s" % (m["name"], "ok" if m["ok"] else "FAILED") for m in res["mc"]), res["replayed"],
              res["steps"], len(res["divergences"]),
              ", ".join("%s %s" % (k, "reproduced" if v.get("reproduced_on_real_code") else ("found" if v["found"] else "not found"))
                        for k, v in res["cex"].items())))
    for d in res["divergences"][:5]:
        print("DIVERGENCE (no property verdict): step %d: %s" % (d["step"], d["what"]))
    for m in machinery:
        print("MACHINERY-FAILURE: " + m)
    return 2 if machinery else (3 if res["divergences"] else 0)


if __name__ == "__main__":
    sys.exit(main(os.environ.get("VERIF_TIER", "quick"), int(os.environ.get("VERIF_SEED", "1"))))

"""Generate scenarios, run them on the real code (in parallel), monitor the traces with TLC."""
import multiprocessing as mp
import os
import sys
import time

ROOT = os.path.dirname(os.path.dirname(os.path.abspath(__file__)))
if ROOT not in sys.path:
    sys.path.insert(0, ROOT)


def _run(arg):
    profile, seed = arg
    from harness import profiles, scenario
    sc = profiles.generate(profile, seed)
    try:
        tr, meta = scenario.run_scenario(sc)
    except Exception as e:      # harness failure: reported, never a verdict
        return {"profile": profile, "seed": seed, "scenario": sc, "trace": None, "error": repr(e)}
    return {"profile": profile, "seed": seed, "scenario": sc, "trace": tr, "meta": meta}


def _run_sc(sc):
    from harness import scenario
    try:
        tr, meta = scenario.run_scenario(sc)
    except Exception as e:
        return {"scenario": sc, "trace": None, "error": repr(e)}
    return {"scenario": sc, "trace": tr, "meta": meta}


def run_many(jobs, procs=16):
    """jobs: list of (profile, seed) or scenario dicts."""
    if not jobs:
        return []
    ctx = mp.get_context("fork")
    with ctx.Pool(min(procs, len(jobs))) as pool:
        if isinstance(jobs[0], dict):
            return pool.map(_run_sc, jobs, chunksize=max(1, len(jobs) // (procs * 4)))
        return pool.map(_run, jobs, chunksize=max(1, len(jobs) // (procs * 4)))


def batch(jobs, scratch, shards=16):
    from harness import tlcrun
    t0 = time.time()
    runs = run_many(jobs)
    t1 = time.time()
    ok = [r for r in runs if r.get("trace") is not None]
    verdicts, st = tlcrun.monitor_traces([r["trace"] for r in ok], scratch, shards=shards)
    for r, v in zip(ok, verdicts):
        r["verdict"] = v
    st["gen_wall"] = t1 - t0
    st["lines"] = sum(len(r["trace"]) for r in ok)
    return runs, st

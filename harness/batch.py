"""Generate scenarios, run them on the real code (in parallel), monitor the traces with TLC."""
import multiprocessing as mp
import os
import sys
import time

ROOT = os.path.dirname(os.path.dirname(os.path.abspath(__file__)))
if ROOT not in sys.path:
    sys.path.insert(0, ROOT)


def _run(arg):
    profile, seed = arg
    from harness import profiles, scenario
    sc = profiles.generate(profile, seed)
    try:
        tr, meta = scenario.run_scenario(sc)
    except Exception as e:      # harness failure: reported, never a verdict
        return {"profile": profile, "seed": seed, "scenario": sc, "trace": None, "error": repr(e)}
    return {"profile": profile, "seed": seed, "scenario": sc, "trace": tr, "meta": meta}


def _run_sc(sc):
    from harness import scenario
    try:
        tr, meta = scenario.run_scenario(sc)
    except Exception as e:
        return {"scenario": sc, "trace": None, "error": repr(e)}
    return {"scenario": sc, "trace": tr, "meta": meta}


def run_many(jobs, procs=16):
    """jobs: list of (profile, seed) or scenario dicts."""
    if not jobs:
        return []
    ctx = mp.get_context("fork")
    with ctx.Pool(min(procs, len(jobs))) as pool:
        if isinstance(jobs[0], dict):
            return pool.map(_run_sc, jobs, chunksize=max(1, len(jobs) // (procs * 4)))
        return pool.map(_run, jobs, chunksize=max(1, len(jobs) // (procs * 4)))


CHUNK = 400        # scenarios run and judged at a time: a thorough tier's traces do not all fit in memory at once


def _slim(r):
    """after its verdict is in, a run keeps the head of its trace and the context of each line where a clause
    was false (`ctx`: line -> rendered lines around it), not the whole trace"""
    from harness import checklib
    tr = r.get("trace")
    if tr is None:
        return r
    r["nlines"] = len(tr)
    v = r.get("verdict")
    if v is not None:
        ctx = {}
        for c, line, kf in v.get("bad", []):
            if line not in ctx and len(ctx) < 8:
                ctx[line] = checklib.short_trace(tr, line - 1)
        r["ctx"] = ctx
        r["trace"] = tr[:30]
    return r


def batch(jobs, scratch, shards=16, chunk=CHUNK):
    from harness import tlcrun
    runs, tot = [], {"states": 0, "errors": [], "wall": 0.0, "gen_wall": 0.0, "lines": 0}
    for a in range(0, len(jobs), chunk):
        part = jobs[a:a + chunk]
        t0 = time.time()
        rs = run_many(part)
        t1 = time.time()
        ok = [r for r in rs if r.get("trace") is not None]
        if ok:
            verdicts, st = tlcrun.monitor_traces([r["trace"] for r in ok], scratch, shards=shards)
            for r, v in zip(ok, verdicts):
                r["verdict"] = v
            tot["states"] += st["states"]
            tot["errors"] += st["errors"]
            tot["wall"] += st.get("wall", 0.0)
        tot["gen_wall"] += t1 - t0
        tot["lines"] += sum(len(r["trace"]) for r in ok)
        runs += [_slim(r) for r in rs]
    return runs, tot


def conform(jobs, scratch, chunk=CHUNK):
    """strict pass over scenario jobs in chunks -> (list of (run without trace, (matched, of) or None), stats)"""
    from harness import tlcrun
    out, tot = [], {"states": 0, "errors": [], "wall": 0.0}
    for a in range(0, len(jobs), chunk):
        rs = run_many(jobs[a:a + chunk])
        ok = [r for r in rs if r.get("trace") is not None]
        if ok:
            res, st = tlcrun.conform_traces([r["trace"] for r in ok], scratch)
            tot["states"] += st["states"]
            tot["errors"] += st["errors"]
            tot["wall"] += st.get("wall", 0.0)
            for r, c in zip(ok, res):
                r["nlines"] = len(r["trace"])
                r["trace"] = None
                out.append((r, c))
    return out, tot

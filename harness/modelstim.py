"""Stimulus scripts derived from behaviours of the Core specification (tlc -simulate on spec/SimCore.tla)."""
import json
import os
import re

from harness import checks_core, devs, tlcrun


def _cfg_text(mcname, depth):
    consts = dict(checks_core.BASE_CONST)
    consts.update(devs.devs())
    subst = dict(checks_core.BASE_SUBST)
    c, s = checks_core.MC[mcname]
    consts.update(c)
    subst.update(s)
    # a simulated behaviour may be longer than the exhaustive bounds allow
    consts.update({"MaxReq": "4", "MaxDie": "3", "MaxExt": "1", "MaxNow": "25", "ReqUntil": "18", "DieUntil": "20",
                   "MaxPid": "10", "Reduce": "FALSE", "SimDepth": str(depth)})
    lines = ["CONSTANTS"] + ["  %s = %s" % kv for kv in sorted(consts.items())] + \
            ["  %s <- %s" % kv for kv in sorted(subst.items())] + \
            ["INIT SInit", "NEXT SNext", "CONSTRAINT PidBound", "CONSTRAINT EmitScript", "VIEW SView", "CHECK_DEADLOCK FALSE"]
    return "\n".join(lines) + "\n"


def simulate(mcname, num, seed, scratch, depth=160, timeout=300):
    cfg = os.path.join(scratch, "sim_%s.cfg" % mcname)
    with open(cfg, "w") as fh:
        fh.write(_cfg_text(mcname, depth))
    r = tlcrun.run_tlc("SimCore.tla", cfg, scratch, workers=8, timeout=timeout, heap="6g",
                       extra_args=["-simulate", "num=%d" % num, "-depth", str(depth), "-seed", str(seed)])
    out = r["out"]
    scripts = []
    for m in re.finditer(r'<<\s*"SCRIPT",\s*"((?:[^"\\]|\\.)*)"\s*>>', out.replace("\n", " ")):
        try:
            scripts.append(json.loads(json.loads('"' + m.group(1) + '"')))
        except ValueError:
            continue
    return scripts, r


def to_scenario(rec, idx=0):
    """environment part of a model behaviour -> stimulus script for the sim binding"""
    cfg = rec["cfg"]
    ws = []
    for w in cfg["ws"]:
        hooks = {h["h"]: (h["o"], bool(h["ig"])) for h in (w.get("hooks") or [])}
        d = {"name": w["n"], "np": w["np"], "G": round(w["G"] * 0.1, 3), "W": round(w["W"] * 0.1, 3),
             "singleton": bool(w["sing"]), "respawn": bool(w["resp"]), "autostart": bool(w["auto"]),
             "priority": w["prio"], "stop_signal": w["ssig"], "stop_children": bool(w["sch"]),
             "send_hup": bool(w["hup"]), "max_retry": w["retry"]}
        if hooks:
            d["hooks"] = hooks
        ws.append(d)
    sc = {"seed": idx, "watchers": ws, "check_delay": cfg["cd"] * 0.1 if cfg["cd"] > 0 else -1,
          "warmup_delay": cfg["wg"] * 0.1, "stubborn": [], "obeys": [], "instant_death": False, "script": []}
    s = sc["script"]
    last_trigger = 0
    for e in rec["hist"]:
        k = e["k"]
        if k == "spawn":
            sc["obeys"].append(bool(e["a"]))
        elif k == "boot":
            last_trigger = len(s)
            s.append({"op": "boot"})
        elif k == "tick":
            last_trigger = len(s)
            s.append({"op": "tick", "n": 1})
        elif k == "req":
            q = e["q"]
            props = {}
            if q["hasname"]:
                props["name"] = q["name"]
            cmd = q["cmd"]
            if q["waiting"]:
                props["waiting"] = True
            if cmd in ("incr", "decr"):
                props["nb"] = q["nb"]
            if cmd == "set":
                props["options"] = {"numprocesses": q["nb"]}
            if cmd == "reload":
                props["graceful"] = bool(q["graceful"])
                props["sequential"] = bool(q["sequential"])
            if cmd in ("kill", "signal") and q["signum"] != -1:
                props["signum"] = q["signum"]
            if cmd == "kill" and q["G"] != -1:
                props["graceful_timeout"] = round(q["G"] * 0.1, 3)
            if cmd in ("kill", "signal") and q["pid"] != -1:
                props["pid_short"] = q["pid"]
            if cmd == "rm" and q["nostop"]:
                props["nostop"] = True
            if cmd == "add":
                props["cmd"] = "simworker '%s'" % q["name"]
                props["start"] = bool(q["start"])
                props["options"] = {"numprocesses": q["addnp"], "graceful_timeout": round(q["addG"] * 0.1, 3),
                                    "warmup_delay": round(q["addW"] * 0.1, 3)}
                if q["addsing"]:
                    props["options"]["singleton"] = True
            last_trigger = len(s)
            s.append({"op": "req", "cmd": cmd, "props": props})
        elif k == "die":
            op = {"op": "die", "pid": e["p"], "status": e["a"]}
            if e["kc"] > 0:
                op["k"] = e["kc"]
                s.insert(last_trigger, op)        # armed before the callback in which it is to happen
                last_trigger += 1
            else:
                s.append(op)
        elif k == "extkill":
            s.append({"op": "extkill", "pid": e["p"]})
        elif k == "fork":
            s.append({"op": "fork", "pid": e["a"], "obeys": True})
        elif k == "dsig":
            s.append({"op": "dsig", "sig": e["a"]})
        elif k == "probe":
            if not s or s[-1].get("op") != "probe":
                s.append({"op": "probe"})
    if not sc["obeys"]:
        sc["obeys"] = [True]
    s.append({"op": "tick", "n": 6})
    s.append({"op": "end", "xprobe": False, "passes": 1})
    return sc

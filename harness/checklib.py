"""Shared plumbing of all checks: tiers/seeds, known findings, VIOLATION / KNOWN-FINDING lines, evidence."""
import json
import os
import sys
import time

ROOT = os.path.dirname(os.path.dirname(os.path.abspath(__file__)))
EVID = os.path.join(ROOT, "evidence")
OUT = os.path.join(ROOT, "out")
KF_FILE = os.path.join(ROOT, "known_findings.json")


def tier_seed(args_tier=None):
    tier = os.environ.get("VERIF_TIER") or args_tier or "quick"
    if tier not in ("quick", "thorough"):
        tier = "quick"
    try:
        seed = int(os.environ.get("VERIF_SEED", "0"))
    except ValueError:
        seed = 0
    return tier, seed


def load_known():
    try:
        with open(KF_FILE) as fh:
            d = json.load(fh)
    except (OSError, ValueError):
        return {}
    return {f["id"]: f for f in d.get("findings", []) if f.get("status") == "known"}


class Verdict(object):
    """Collects what a check found; decides exit status; prints the contractual lines."""

    def __init__(self, prop):
        self.prop = prop
        self.known = load_known()
        self.violations = []       # (what, replay_path)
        self.known_hits = {}       # finding id -> count
        self.notes = []
        self.machinery = []        # machinery failures (exit 2)

    def violation(self, what, replay_obj):
        os.makedirs(os.path.join(OUT, "replay"), exist_ok=True)
        path = os.path.join(OUT, "replay", "%s-%03d.json" % (self.prop, len(self.violations) + 1))
        with open(path, "w") as fh:
            json.dump(replay_obj, fh, indent=1, sort_keys=True, default=str)
        self.violations.append((what, path))

    def attributed(self, finding_id, what, replay_obj):
        """A violation carrying the signature of a finding: known only if the file lists it for this property."""
        f = self.known.get(finding_id)
        if f is not None and self.prop in f.get("properties", []):
            self.known_hits[finding_id] = self.known_hits.get(finding_id, 0) + 1
        else:
            self.violation("%s [signature %s, not a listed finding for %s]" % (what, finding_id, self.prop),
                           replay_obj)

    def finish(self, evidence):
        for fid, n in sorted(self.known_hits.items()):
            print("KNOWN-FINDING: property=%s %s: %s (%d occurrences this run)" % (
                self.prop, fid, self.known[fid]["what"], n))
        for what, path in self.violations[:20]:
            print("VIOLATION property=%s replay=%s" % (self.prop, path))
            print("   " + what)
        for m in self.machinery[:10]:
            print("MACHINERY-FAILURE: " + m)
        evidence["violations"] = len(self.violations)
        evidence.setdefault("coverage", {})["known_finding_hits"] = dict(self.known_hits)
        write_evidence(self.prop, evidence)
        if self.machinery:
            return 2
        return 1 if self.violations else 0


def write_evidence(prop, ev):
    os.makedirs(EVID, exist_ok=True)
    ev["property_id"] = prop
    path = os.path.join(EVID, prop + ".json")
    with open(path, "w") as fh:
        json.dump(ev, fh, indent=1, sort_keys=True, default=str)
    return path


class Timer(object):
    def __init__(self):
        self.t0 = time.time()

    def wall(self):
        return round(time.time() - self.t0, 2)


def short_trace(trace, around=None, width=12):
    """Compact rendering of trace lines for evidence samples."""
    out = []
    rng = range(len(trace)) if around is None else range(max(0, around - width), min(len(trace), around + 3))
    for i in rng:
        l = trace[i]
        out.append("%d t=%d %s %s p=%d a=%d %s %s" % (l["i"], l["t"], l["k"], l["w"], l["p"], l["a"], l["r"], l["x"]))
    return out

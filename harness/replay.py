"""Re-run exactly one recorded violation (bin/check P --replay path).  exit 1 if it violates again, 0 if not, 2 on
machinery problems."""
import json


def _sim(prop, rep, path):
    from harness import scenario, tlcrun
    tr, meta = scenario.run_scenario(rep["scenario"])
    with tlcrun.Scratch() as d:
        v, st = tlcrun.monitor_traces([tr], d, shards=1)
    if v[0] is None:
        print("MACHINERY-FAILURE: no verdict", st["errors"][:1])
        return 2
    bad = [b for b in v[0]["bad"] if b[0].startswith(prop)]
    print("replayed %s: clauses false: %s" % (path, bad))
    for c, line, kf in bad:
        if not kf:
            print("VIOLATION property=%s replay=%s" % (prop, path))
            return 1
    return 0


def _generic(result, prop, path):
    """modules return a failure description (or a tuple starting with one), None/falsy = clean"""
    fail = result[0] if isinstance(result, tuple) else result
    if isinstance(fail, int):
        return fail
    if fail:
        print("replayed %s: %s" % (path, str(fail)[:600]))
        print("VIOLATION property=%s replay=%s" % (prop, path))
        return 1
    print("replayed %s: no violation" % path)
    return 0


def main(prop, path):
    rep = json.load(open(path))
    kind = rep.get("kind", "")
    try:
        if kind == "sim-scenario":
            return _sim(prop, rep, path)
        if kind == "tlc-counterexample":
            print(rep.get("tlc_output", "")[-6000:])
            print("(a counterexample of the Core model; re-run `bin/check %s` to re-check the model)" % prop)
            return 0
        if kind == "c15-reload":
            from harness import check_c15reload, tlcrun
            with tlcrun.Scratch() as d:
                r = check_c15reload._scenario(rep["seed"], d)
                v, st = tlcrun.monitor_traces([r["trace"]], d, shards=1)
            bad = [b for b in (v[0] or {"bad": []})["bad"] if b[0].startswith(rep.get("prefix", "C15_")) and not b[2]]
            return _generic(bad and str(bad), prop, path)
        if kind == "c20-prefix":
            from harness import check_c20
            return _generic(check_c20.replay_prefix(rep), prop, path)
        if kind.startswith("c20"):
            from harness import check_c20
            return _generic(check_c20.replay_one(rep), prop, path)
        if kind.startswith("c07"):
            from harness import check_c07
            return _generic(check_c07.replay_case(rep), prop, path)
        if kind.startswith("c08"):
            from harness import check_c08live
            return _generic(check_c08live.replay_case(rep), prop, path)
        if kind.startswith("c12"):
            from harness import check_c12
            return _generic(check_c12.replay_one(rep), prop, path)
        if kind.startswith("c13"):
            from harness import check_c13a
            return _generic(check_c13a.replay(rep), prop, path)
        if kind.startswith("c16"):
            from harness import check_c16
            return _generic(check_c16.replay(path), prop, path)
        if kind == "c17-fit":
            from harness import check_c17, checklib
            v = checklib.Verdict(prop)
            check_c17.fit_cases(check_c17.load_circus(__import__("os").environ.get("VERIF_REPO", "/repo")), 1, v)
            return _generic(v.violations[0][0] if v.violations else None, prop, path)
        if kind.startswith("c17") or (prop == "C17" and kind in ("redirector-replay", "live", "live-f1")):
            from harness import check_c17
            return _generic(check_c17.replay_main(prop, path), prop, path)
        if kind.startswith("c18") or kind.startswith("signum"):
            from harness import check_c18b
            return _generic(check_c18b.replay_case(rep), prop, path)
        if kind.startswith("pidfile"):
            from harness import check_pidfile
            return _generic(check_pidfile.replay_case(rep), prop, path)
        if kind.startswith("c06"):
            print(json.dumps(rep, indent=1)[:6000])
            return 0
    except Exception:
        import traceback
        traceback.print_exc()
        print("MACHINERY-FAILURE: replay raised")
        return 2
    print(json.dumps(rep, indent=1)[:4000])
    return 0

"""Re-run exactly one recorded violation (bin/check P --replay path)."""
import json


def main(prop, path):
    from harness import scenario, tlcrun
    rep = json.load(open(path))
    if rep.get("kind") == "sim-scenario":
        tr, meta = scenario.run_scenario(rep["scenario"])
        with tlcrun.Scratch() as d:
            v, st = tlcrun.monitor_traces([tr], d, shards=1)
        bad = [b for b in (v[0] or {"bad": []})["bad"] if b[0].startswith(prop)]
        print("replayed %s: verdict %s" % (path, bad))
        for c, line, kf in bad:
            if not kf:
                print("VIOLATION property=%s replay=%s" % (prop, path))
                return 1
        return 0
    print(json.dumps(rep, indent=1)[:4000])
    return 0

"""Regenerates /verif/MANIFEST.json from the registry (keeps it valid at all times)."""
import json
import os
import sys

ROOT = os.path.dirname(os.path.dirname(os.path.abspath(__file__)))
sys.path.insert(0, ROOT)

CORE_TEXT = ("TLC model-checks the property's clauses (spec/Monitors.tla) on every interleaving of the Core "
             "specification (the daemon as implemented, one effect per step, deaths at every system-call "
             "boundary) within the stated bounds; the same clauses are then evaluated by TLC on behaviours "
             "recorded from the real circus code driven on a virtual-time loop over a simulated kernel "
             "(monitor pass), and the recorded behaviours are checked to be behaviours of Core (strict pass).")
CORE_NOTE = ("Trusted: TLC; the sim binding (simulated psutil/kernel, virtual-time asyncio loop) as a faithful "
             "environment; bounds of the model-checking configurations (evidence.mc_configs); stimulus "
             "scenarios are seeded samples, not exhaustive.")


def main():
    from harness import checks_core
    props = [json.loads(l) for l in open(os.path.join(ROOT, "properties.jsonl"))]
    claimed = {}
    for pid in checks_core.PROPS:
        claimed[pid] = {
            "property_id": pid,
            "quick_cmd": "bin/check %s --tier quick" % pid,
            "thorough_cmd": "bin/check %s --tier thorough" % pid,
            "evidence_file": "/verif/evidence/%s.json" % pid,
            "replay_cmd_template": "bin/check %s --replay {path}" % pid,
            "engine": "core",
            "level_claimed": {"category": "model_checking", "text": CORE_TEXT, "design_ref": "DESIGN.md 3, 4, 8"},
            "level_note": CORE_NOTE,
            "technique": "explicit TLA+ specification (Core.tla) model-checked with TLC + TLC trace validation "
                         "of behaviours recorded from the real code (TraceCore.tla strict pass, TraceMon.tla "
                         "property monitors)",
        }
    extra = {}
    try:
        from harness import manifest_extra
        extra = manifest_extra.CHECKS
    except ImportError:
        pass
    claimed.update(extra)
    m = {
        "version": 1,
        "setup_cmd": "bin/setup",
        "hooks": {"guard": "CIRCUS_VERIF",
                  "enable": "none needed: checks import the real circus modules from /repo's working tree and "
                            "observe them at their boundary (simulated kernel, virtual-time loop, fake zmq "
                            "sockets); no source hook exists, the guard name is reserved",
                  "baseline_off_cmd": "cd /repo && /venv/bin/python -m pytest -ra -q -p no:cacheprovider "
                                      "--timeout=900 --continue-on-collection-errors",
                  "source_commits": [], "add_only": True},
        "engines": [{"name": "core", "path": "/verif/spec/Core.tla",
                     "serves_properties": sorted(checks_core.PROPS),
                     "kind_free_text": "TLA+ specification of the supervisor + TLC (exhaustive, trace validation)"}],
        "checks": [claimed[k] for k in sorted(claimed)],
        "notes": "see DESIGN.md; known findings in known_findings.json",
        "not_applicable": [{"property_id": p["id"],
                            "reason": "check not built yet (construction in progress, DESIGN.md section 11)"}
                           for p in props if p["id"] not in claimed],
    }
    with open(os.path.join(ROOT, "MANIFEST.json"), "w") as fh:
        json.dump(m, fh, indent=1)
    print("claimed:", sorted(claimed))


if __name__ == "__main__":
    main()

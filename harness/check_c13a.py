"""C13 (a): each worker runs exactly the configured command line, environment and directory.

spec/Cmdline.tla DEFINES the argument vector Argv(cmd, args, vars, shell); spec/Cmdline_MC.tla lets TLC enumerate
every cmd/args shape in the bounds (words of parts), checks the definition against the wording of the
statement (invariants T_*), and writes each case with the vector the spec computes as JSON.

This harness renders every abstract case into concrete strings (spellings chosen with random.Random(seed):
literal texts, blank runs, reference syntax $(..) / ((..)), letter case, which concrete variable stands for
"a variable", worker id, env / copy_env / working_dir / sockets configuration) and obtains the REAL result from
the unchanged circus classes:

  fast   circus.process.Process(..., spawn=False, watcher=<real Watcher>).format_args(...)
  full   the real Watcher.spawn_process() with circus.process.Popen replaced by the recording stand-in of
         the sim binding: the arguments of the process-creation call (args, shell, cwd, env)
  live   (a sample) the real Watcher.spawn_process() with the real psutil.Popen: a tiny worker dumps
         argv / cwd / environ; the environment is compared with what a control spawn through
         subprocess directly (same env, same cwd, same shell flag) yields, so only what the
         interpreter / sh demonstrably add is accounted for.

Entry points:  run_cmdline(verdict, tier, seed, scratch) -> coverage dict      (called by the C13 check)
               run(prop, tier, seed) -> exit status                            (standalone, evidence id = prop)
               replay(obj) -> exit status                                      (re-run one recorded case)
"""
import json
import logging
import math
import multiprocessing
import os
import random
import re
import subprocess
import sys
import time
from concurrent.futures import ThreadPoolExecutor

REPO = os.environ.get("VERIF_REPO", "/repo")
if REPO not in sys.path:
    sys.path.insert(0, REPO)

from harness import checklib, tlcrun                         # noqa: E402
from harness.simkernel import Kernel, FakePopen              # noqa: E402

import circus                                                # noqa: E402
import circus.process                                        # noqa: E402
import circus.watcher                                        # noqa: E402
import circus.util                                           # noqa: E402

import psutil                                                # noqa: E402
REAL_POPEN = psutil.Popen          # what circus/process.py imports (another check may have patched the module)
logging.getLogger("circus").setLevel(logging.CRITICAL)

# proposed finding ids (see the report), by Dev_ constant of Cmdline.tla
DEV_FINDING = {
    "DoublePrefix": "C13-DOUBLEPREFIX",     # $(circus.circus.X) is resolved like $(circus.X)
    "EnvNone": "C13-ENVNONE",               # $(circus.env) in cmd becomes "None" when the watcher has no env
}

TIERS = {
    # parts alphabet, max total parts, shards (= size of the alphabet: one shard per first part), live sample
    "quick": {"parts": "quick", "total": 3, "shards": 14, "live": 20, "spellings": 1},
    "thorough": {"parts": "full", "total": 3, "shards": 34, "live": 300, "spellings": 2},
}
MAX_REPLAYS = 12          # replay files written per class of disagreement (all disagreements are counted)

# ------------------------------------------------------------------------------------------------
# rendering pools.  Contract with the spec (Cmdline.tla): lit = run of characters sh leaves alone;
# ulit = run with characters special to sh but not to splitting; neither contains blank, quote,
# backslash, dollar, parenthesis; no text starts with "WID" (the deprecated $WID form is out of scope)
# ------------------------------------------------------------------------------------------------
LIT = ["a", "foo", "x1", "-v", "--opt=3", "/usr/bin/env", "k:v", "a,b", "50%", "u@h", "1+1", ".", "B_2", "-",
       "worker.py", "--", "0", "Z"]
ULIT = ["*", "a;b", "x&y", "|", "<in", ">out", "~", "#c", "{1,2}", "[ab]", "!", "é", "a?b", "^", "`",
        "日本", "*.py", "&&", "#"]
PLAIN_VALUES = ["v", "val-1", "/opt/x", "a.b", "K=V", "7", "x_y", "0.5"]
ENV_NAMES = ["C13_P", "c13_lower", "C13_MiXed", "C13.dot", "C13-dash"]
ENV_NAMES_S = ["C13_S", "c13_spacey", "C13_Sp.2"]
UNKNOWN = ["nosuch", "env.C13_UNSET", "foo.bar", "wid2", "circusfoo", "widx", "sockets", "options.x", "pid",
           "name_", "env.", "envx"]             # (the bare name env is the spec's own part kind uenv)
SOCK_NAMES = ["web", "Api", "s-2"]
BLANKS = [" ", " ", "  ", "\t", " \t", "   "]
INHERITED = "C13A_INHERITED"
INHERITED_VALUE = "inh-1"

_SAFE = re.compile(r"^[A-Za-z0-9_@%+=:,./-]+$")
assert all(_SAFE.match(s) and not s.startswith("WID") for s in LIT + PLAIN_VALUES + [INHERITED_VALUE, "ovr-2", "o"])
assert all(re.search(r"[^\w@%+=:,./-]", s, re.ASCII) and not re.search(r"[\s'\"\\$()]", s) for s in ULIT)


class _Sock(object):
    so_reuseport = False

    def __init__(self, fd):
        self._fd = fd

    def fileno(self):
        return self._fd


class _Stub(object):
    def __init__(self, wid):
        self.wid = wid


class _Loop(object):
    """Stands for the IOLoop a Watcher stores; spawn_process does not use it."""


def _case_mix(rng, s):
    m = rng.randrange(4)
    if m == 0:
        return s
    if m == 1:
        return s.upper()
    if m == 2:
        return s.lower()
    return "".join(c.upper() if rng.random() < 0.5 else c.lower() for c in s)


def _spell_ref(rng, x):
    body = _case_mix(rng, "circus." + x)
    return "$(%s)" % body if rng.random() < 0.5 else "((%s))" % body


def decode(header):
    return {code: name for name, code in header["kinds"].items()}


def concretize(case, shell, rng, dirs, kinds):
    """One concrete configuration + the concrete expectations for an abstract case."""
    toks = list(case["cmd_text"]) + [t for ts in case["args_text"] for t in ts]
    used = {(t % 10000) % 10 for t in toks if kinds[t // 10000] in ("ref", "dref")}
    uenv_cmd = any(kinds[t // 10000] == "uenv" for t in case["cmd_text"])
    noenv = case["noenv"]
    nproc = rng.randint(1, 4)
    wid = rng.randint(1, 2 * nproc)
    copy_env = (not noenv) and rng.random() < 0.5
    spacey = dirs["spacey"][0] + " " + dirs["spacey"][1]
    wd = rng.choice([None, None, dirs["plain"], spacey])
    with_socks = rng.random() < 0.5
    max_retry = rng.randint(1, 9)
    priority = rng.randint(0, 9)
    env = {}
    inherited_value = INHERITED_VALUE
    if copy_env and rng.random() < 0.35:
        env[INHERITED] = inherited_value = rng.choice(["ovr-2", "o"])     # env overrides what copy_env brings
    xs = {1: "wid"}
    vals = {1: str(wid), 4: "None"}
    # ---- variable 3: a value with a blank (bound when referred to, else sometimes)
    if 3 in used or rng.random() < 0.3:
        if noenv or rng.random() < 0.3:
            wd = spacey
            xs[3], vals[31], vals[32] = "working_dir", dirs["spacey"][0], dirs["spacey"][1]
        else:
            name = rng.choice(ENV_NAMES_S)
            vals[31], vals[32] = rng.choice(PLAIN_VALUES), rng.choice(PLAIN_VALUES)
            env[name] = vals[31] + " " + vals[32]
            xs[3] = "env." + name
    # ---- variable 2: a value without blank
    socks = None
    if 2 in used or rng.random() < 0.3:
        pk = ["numprocesses", "max_retry", "priority", "sockets"]
        if not noenv:
            pk += ["env", "env", "env"]
        if copy_env:
            pk += ["inherited", "inherited"]
        if xs.get(3) != "working_dir":
            pk.append("working_dir")
        k = rng.choice(pk)
        if k == "env":
            name = rng.choice(ENV_NAMES)
            env[name] = rng.choice(PLAIN_VALUES)
            xs[2], vals[2] = "env." + name, env[name]
        elif k == "inherited":
            xs[2], vals[2] = "env." + INHERITED, inherited_value
        elif k == "numprocesses":
            xs[2], vals[2] = k, str(nproc)
        elif k == "max_retry":
            xs[2], vals[2] = k, str(max_retry)
        elif k == "priority":
            xs[2], vals[2] = k, str(priority)
        elif k == "working_dir":
            wd = dirs["plain"]
            xs[2], vals[2] = k, wd
        else:
            with_socks = True
    if with_socks:
        names = rng.sample(SOCK_NAMES, rng.randint(1, len(SOCK_NAMES)))
        socks = {n: rng.randint(3, 400) for n in names}
        if 2 not in xs and (2 in used or rng.random() < 0.5):
            n = rng.choice(names)
            xs[2], vals[2] = "sockets." + n, str(socks[n])
    if not noenv and rng.random() < 0.3:
        env["C13_EXTRA"] = rng.choice(["1", "", "x y", "a=b", "'q'"])
    # copy_path (only together with copy_env): PYTHONPATH = the daemon's sys.path, unless env configures its own
    copy_path = copy_env and rng.random() < 0.3
    if copy_path and rng.random() < 0.5:
        env["PYTHONPATH"] = rng.choice([dirs["plain"], "/nonexistent/c13-a:/nonexistent/c13-b"])
    if noenv:
        env = None                       # no env given and copy_env off: Watcher.env is None
    elif not env and not copy_env and not uenv_cmd and rng.random() < 0.6:
        env = None                       # (where cmd names the bare env the spec tells the two apart)
    unknown = list(UNKNOWN) + (["sockets.missing"] if with_socks else ["sockets.web", "sockets.Api"])
    if not copy_env:
        unknown.append("env." + INHERITED)

    texts = {}

    def tok(t, inp):
        kind, x = kinds[t // 10000], t % 10000
        if kind == "ws":
            return rng.choice(BLANKS) if inp else " "
        if kind == "sp":
            return " "
        if kind == "sq":
            return "'"
        if kind == "dq":
            return '"'
        if kind == "bs":
            return "\\"
        if kind == "dl":
            return "$"
        if kind == "val":
            return vals[x]
        key = (kind, x)
        if key not in texts:
            if kind == "lit":
                texts[key] = rng.choice(LIT)
            elif kind == "ulit":
                texts[key] = rng.choice(ULIT)
            elif kind == "unk":
                texts[key] = _spell_ref(rng, rng.choice(unknown))
            elif kind == "uenv":
                texts[key] = _spell_ref(rng, "env")
            elif kind == "dref":
                texts[key] = _spell_ref(rng, "circus." + xs[x % 10])
            elif kind == "ref":
                texts[key] = _spell_ref(rng, xs[x % 10])
            else:
                raise ValueError("token kind %r" % kind)
        return texts[key]

    def text(ts, inp=False):
        return "".join(tok(t, inp) for t in ts)

    cmd = text(case["cmd_text"], True)
    if rng.random() < 0.15:
        cmd = rng.choice(BLANKS) + cmd
    if rng.random() < 0.15:
        cmd = cmd + rng.choice(BLANKS)
    if case["ak"] == "none":
        args = None
    elif case["ak"] == "str":
        args = text(case["args_text"][0], True) if case["args_text"] else ""
        if rng.random() < 0.15:
            args = rng.choice(BLANKS) + args + rng.choice(["", " "])
    else:
        args = [text(ts, True) for ts in case["args_text"]]

    def vectors(v):
        words = [text(w) for w in v["argv"]]
        return {"popen": [text(v["sh"])] if shell else words, "words": words}
    # the vector per set of deviation branches taken: the code as modelled takes all of case["devs"]
    by_devs = {"+".join(sorted(case["devs"])): vectors(case)}
    for alt in case["alts"]:
        by_devs["+".join(sorted(alt["devs"]))] = vectors(alt)
    return {"name": rng.choice(["w", "Web 1", "c13"]), "cmd": cmd, "args": args, "shell": shell, "env": env,
            "copy_env": copy_env, "copy_path": copy_path, "working_dir": wd, "numprocesses": nproc, "wid": wid, "sockets": socks,
            "max_retry": max_retry, "priority": priority, "devs": sorted(case["devs"]), "by_devs": by_devs,
            "abstract": {"cmd": case["cmd"], "ak": case["ak"], "args": case["args"], "noenv": noenv}}


def expectation(c, path):
    """(devs taken, vector) the code as modelled yields on this path.  Process.format_args on its own (fast)
    does not go through the watcher's pre-expansion of cmd, hence never through Dev_EnvNone."""
    devs = [d for d in c["devs"] if not (path == "fast" and d == "EnvNone")]
    return devs, c["by_devs"]["+".join(devs)]["words" if path == "live" else "popen"]


# ------------------------------------------------------------------------------------------------
# the real code
# ------------------------------------------------------------------------------------------------
def build_watcher(c, cmd=None):
    w = circus.watcher.Watcher(c["name"], c["cmd"] if cmd is None else cmd, args=c["args"],
                               numprocesses=c["numprocesses"], working_dir=c["working_dir"], shell=c["shell"],
                               env=None if c["env"] is None else dict(c["env"]), copy_env=c["copy_env"],
                               copy_path=c.get("copy_path", False),
                               max_retry=c["max_retry"], priority=c["priority"], loop=_Loop())
    if c["sockets"] is not None:
        w.sockets = {n: _Sock(fd) for n, fd in c["sockets"].items()}
    return w


def configured_env(c):
    """'exactly the configured environment': env, on top of the daemon's own environment with copy_env."""
    e = dict(os.environ) if c["copy_env"] else {}
    if c.get("copy_path"):
        e["PYTHONPATH"] = os.pathsep.join(sys.path)
    e.update(c["env"] or {})
    return e


def _activate(w, c):
    w._status = "active"
    w.processes = {-i: _Stub(i) for i in range(1, c["wid"])}      # makes _nextwid == c["wid"]


def _env_diff(got, exp):
    if not isinstance(got, dict):
        return "environment passed: %r" % (got,)
    miss = sorted(k for k in exp if k not in got)
    extra = sorted(k for k in got if k not in exp)
    chg = sorted(k for k in exp if k in got and got[k] != exp[k])
    show = [(k, got[k], exp[k]) if k.upper().startswith("C13") else k for k in chg[:4]]   # never print foreign values
    return "missing %s, extra %s, changed %s" % (miss[:6], extra[:6], show)


_kernel = None


def real_sim(c):
    """-> list of (path, aspect, got, expected) disagreements with the code-as-modelled expectation, plus
    the vectors obtained (fast, full)."""
    global _kernel
    issues = []
    got_fast = got_full = None
    exp_env = configured_env(c)
    # ---- fast: Process.format_args
    w = None
    try:
        w = build_watcher(c)
        p = circus.process.Process(c["name"], c["wid"], c["cmd"], args=c["args"], working_dir=c["working_dir"],
                                   shell=c["shell"], env=w.env, spawn=False, watcher=w)
        got_fast = p.format_args(sockets_fds=p._get_sockets_fds())
    except Exception as e:                      # the real code refusing an input of the quantifier
        got_fast = "%s: %s" % (type(e).__name__, e)
    if got_fast != expectation(c, "fast")[1]:
        issues.append(("fast", "argv", got_fast, expectation(c, "fast")[1]))
    # ---- full: Watcher.spawn_process with the recording Popen
    if _kernel is None:
        _kernel = Kernel(time.time)
    prev_popen, prev_kernel = circus.process.Popen, FakePopen.kernel
    FakePopen.kernel = _kernel
    circus.process.Popen = FakePopen
    kw = {}
    try:
        if w is None:
            w = build_watcher(c)
        _activate(w, c)
        before = set(_kernel.procs)
        r = w.spawn_process()
        new = sorted(set(_kernel.procs) - before)
        if len(new) != 1:
            got_full = "spawn_process returned %r, %d process-creation calls" % (r, len(new))
        else:
            sp = _kernel.procs.pop(new[0])
            got_full, kw = sp.args, sp.kw
            proc = w.processes.get(new[0])
            if proc is None or proc.wid != c["wid"]:
                got_full = "harness: worker id %r instead of %r" % (getattr(proc, "wid", None), c["wid"])
    except Exception as e:
        got_full = "%s: %s" % (type(e).__name__, e)
    finally:
        circus.process.Popen, FakePopen.kernel = prev_popen, prev_kernel
    if got_full != expectation(c, "full")[1]:
        issues.append(("full", "argv", got_full, expectation(c, "full")[1]))
    elif isinstance(got_full, list):
        if bool(kw.get("shell", False)) != c["shell"]:
            issues.append(("full", "shell", kw.get("shell"), c["shell"]))
        if kw.get("env") != exp_env:
            issues.append(("full", "env", _env_diff(kw.get("env"), exp_env), "exactly the configured environment"))
        if c["working_dir"] is not None and kw.get("cwd") != c["working_dir"]:
            issues.append(("full", "cwd", kw.get("cwd"), c["working_dir"]))
    cwd_default = c["working_dir"] is None and kw.get("cwd") == circus.util.get_working_dir()
    return issues, got_fast, got_full, cwd_default


WORKER_SRC = r'''
import json, os, sys
l1 = lambda b: b.decode("latin-1")
d = {"argv": [l1(os.fsencode(a)) for a in sys.argv], "cwd": os.getcwd(),
     "environ": {l1(k): l1(v) for k, v in os.environb.items()}}
tmp = sys.argv[1] + ".tmp"
with open(tmp, "w") as fh:
    json.dump(d, fh)
os.rename(tmp, sys.argv[1])
'''


def _l1(s):
    return s.encode("utf-8", "surrogateescape").decode("latin-1")


class Live(object):
    def __init__(self, scratch):
        self.dir = os.path.join(scratch, "c13a-live")
        os.makedirs(self.dir, exist_ok=True)
        self.worker = os.path.join(self.dir, "worker.py")
        with open(self.worker, "w") as fh:
            fh.write(WORKER_SRC)
        self.py = sys.executable
        self.n = 0
        self.controls = {}
        self.added = {}

    def _out(self):
        self.n += 1
        return os.path.join(self.dir, "dump-%d.json" % self.n)

    def prefix(self, out):
        return "%s -B %s %s" % (self.py, self.worker, out)

    def _read(self, out):
        with open(out) as fh:
            d = json.load(fh)
        os.unlink(out)
        return d

    def control(self, env, shell, cwd):
        """What a child sees when subprocess is handed exactly this environment (interpreter / sh additions)."""
        key = (tuple(sorted(env.items())), shell, cwd)
        if key not in self.controls:
            out = self._out()
            if shell:
                p = subprocess.Popen(self.prefix(out), shell=True, env=env, cwd=cwd, stdin=subprocess.DEVNULL,
                                     start_new_session=True)
            else:
                p = subprocess.Popen([self.py, "-B", self.worker, out], env=env, cwd=cwd,
                                     stdin=subprocess.DEVNULL, start_new_session=True)
            p.wait(timeout=60)
            d = self._read(out)
            self.controls[key] = d["environ"]
            base = {_l1(k): _l1(v) for k, v in env.items()}
            for k, v in d["environ"].items():
                if base.get(k) != v:
                    self.added[k] = self.added.get(k, 0) + 1
        return self.controls[key]

    def spawn(self, c):
        """The real thing: Watcher.spawn_process -> Process -> psutil.Popen.  -> dump dict."""
        out = self._out()
        w = build_watcher(c, self.prefix(out) + " " + c["cmd"])
        _activate(w, c)
        prev_popen = circus.process.Popen
        circus.process.Popen = REAL_POPEN
        try:
            r = w.spawn_process()
        finally:
            circus.process.Popen = prev_popen
        procs = [p for p in w.processes.values() if isinstance(p, circus.process.Process)]
        if len(procs) != 1:
            raise RuntimeError("spawn_process returned %r and tracks %d workers" % (r, len(procs)))
        procs[0]._worker.wait(timeout=60)
        return self._read(out), w


def real_live(c, live):
    issues = []
    d, w = live.spawn(c)
    exp_argv = [_l1(live.worker)] + [None] + [_l1(a) for a in expectation(c, "live")[1]]
    got = list(d["argv"])
    exp_argv[1] = got[1] if len(got) > 1 else None          # the dump path (ours, not under test)
    if got != exp_argv:
        issues.append(("live", "argv", [a.encode("latin-1").decode("utf-8", "surrogateescape") for a in got[2:]],
                       expectation(c, "live")[1]))
    env = configured_env(c)
    ctl = live.control(env, c["shell"], w.working_dir)
    if d["environ"] != ctl:
        issues.append(("live", "env", _env_diff(d["environ"], ctl),
                       "the environment of a control child given exactly the configured environment"))
    if c["working_dir"] is not None and d["cwd"] != os.path.realpath(c["working_dir"]):
        issues.append(("live", "cwd", d["cwd"], os.path.realpath(c["working_dir"])))
    return issues, [a.encode("latin-1").decode("utf-8", "surrogateescape") for a in got[2:]]


# ------------------------------------------------------------------------------------------------
# classification of a disagreement
# ------------------------------------------------------------------------------------------------
def classify(c, issues, path_vectors):
    """-> list of (class, finding id or None, what, replay).  class in {"violation", "finding", "stale"}.
    issues: disagreements with the code-as-modelled expectation (all Dev_ constants as in the cfg);
    path_vectors: (path, real vector) for every path observed."""
    res = []
    bad_argv = {path for path, aspect, got, exp in issues if aspect == "argv"}
    for path, got in path_vectors:
        devs, exp = expectation(c, path)
        dem = c["by_devs"][""]["words" if path == "live" else "popen"]
        taken = None
        if path not in bad_argv:
            taken = devs
        elif c["devs"]:
            for key, v in c["by_devs"].items():       # does the code take fewer deviation branches than modelled?
                if got == v["words" if path == "live" else "popen"] and set(key.split("+")) - {""} <= set(devs):
                    taken = [d for d in key.split("+") if d]
                    break
        if taken is None:
            continue                                   # a plain disagreement: reported below
        for d in taken:
            res.append(("finding", DEV_FINDING[d],
                        "%s path: cmd=%r args=%r shell=%r env=%r copy_env=%r -> %r, the statement demands %r "
                        "(unknown reference left verbatim) [Dev_%s]" % (path, c["cmd"], c["args"], c["shell"], c["env"],
                                                                        c["copy_env"], got, dem, "+Dev_".join(taken)),
                        _replay(c, path, "argv", got, dem)))
        for d in set(devs) - set(taken):
            res.append(("stale", None, "%s path: the code no longer takes Dev_%s on cmd=%r args=%r" % (
                path, d, c["cmd"], c["args"]), None))
        if path in bad_argv:
            bad_argv.discard(path)
            issues = [i for i in issues if not (i[0] == path and i[1] == "argv")]
    for path, aspect, got, exp in issues:
        res.append(("violation", None,
                    "%s path, %s: cmd=%r args=%r shell=%r wid=%r env=%r copy_env=%r -> real %r, the spec defines %r" % (
                        path, aspect, c["cmd"], c["args"], c["shell"], c["wid"], c["env"], c["copy_env"], got, exp),
                    _replay(c, path, aspect, got, exp)))
    return res


def _replay(c, path, aspect, got, exp):
    return {"kind": "c13a-case", "path": path, "aspect": aspect, "real": got, "demanded": exp,
            "config": {k: c[k] for k in ("name", "cmd", "args", "shell", "env", "copy_env", "working_dir",
                                         "numprocesses", "wid", "sockets", "max_retry", "priority")},
            "case": c, "how": "harness.check_c13a.replay(obj)"}


# ------------------------------------------------------------------------------------------------
# one shard of cases on the real code (runs in a pool process)
# ------------------------------------------------------------------------------------------------
def _shard_job(job):
    path, shard, seed, spellings, dirs, nlive = job
    with open(path) as fh:
        data = json.load(fh)
    header, cases = data[0], data[1:]
    kinds = decode(header)
    if header["ncases"] != len(cases):
        return {"error": "shard %d: header says %d cases, file has %d" % (shard, header["ncases"], len(cases))}
    st = {"cases": len(cases), "conc": 0, "fast_ok": 0, "full_ok": 0, "results": [], "counts": {},
          "dims": {}, "samples": [], "live": [], "cwd_default": 0, "cwd_unset": 0, "nparts": len(header["parts"]),
          "dev_cases": 0}
    # the daemon's own environment for copy_env, in this pool process: a handful of variables (dozens of inherited
    # variables only slow the run down: circus copies and scans all of them for every worker)
    keep = sorted(os.environ)[::max(1, len(os.environ) // 6)][:6] + [INHERITED, "PATH"]
    for k in list(os.environ):
        if k not in keep:
            del os.environ[k]
    pick = random.Random(seed * 7919 + shard)
    live_idx = set(pick.sample(range(len(cases)), min(nlive, len(cases))))
    for i, case in enumerate(cases):
        if case["devs"]:
            st["dev_cases"] += 1
        for shell in (False, True):
            for sp in range(spellings):
                rng = random.Random("%d/%d/%d/%d/%d" % (seed, shard, i, shell, sp))
                c = concretize(case, shell, rng, dirs, kinds)
                issues, gf, gfull, cwd_default = real_sim(c)
                st["conc"] += 1
                st["fast_ok"] += not any(x[0] == "fast" for x in issues)
                st["full_ok"] += not any(x[0] == "full" for x in issues)
                if c["working_dir"] is None:
                    st["cwd_unset"] += 1
                    st["cwd_default"] += bool(cwd_default)
                for dim in ("shell=%s" % shell, "copy_env=%s" % c["copy_env"], "args=%s" % case["ak"],
                            "working_dir=%s" % ("set" if c["working_dir"] else "unset"),
                            "env=%s" % ("none" if c["env"] is None else "given"),
                            "sockets=%s" % ("given" if c["sockets"] else "none")):
                    st["dims"][dim] = st["dims"].get(dim, 0) + 1
                for cls, fid, what, rep in classify(c, issues, [("fast", gf), ("full", gfull)]):
                    key = cls + ":" + (fid or "")
                    st["counts"][key] = st["counts"].get(key, 0) + 1
                    if st["counts"][key] <= MAX_REPLAYS:
                        st["results"].append((cls, fid, what, rep))
                if i in live_idx and sp == 0 and ((i + shell) % 2 == 0 or nlive <= 2):
                    st["live"].append(dict(c, sim_disagrees=bool(issues)))
                if sp == 0 and (i, shell) in ((3, False), (len(cases) // 2, True)):
                    st["samples"].append({"abstract": c["abstract"], "cmd": c["cmd"], "args": c["args"],
                                          "shell": shell, "wid": c["wid"], "env": c["env"],
                                          "copy_env": c["copy_env"], "working_dir": c["working_dir"],
                                          "expected_argv": expectation(c, "full")[1], "real_format_args": gf,
                                          "real_popen_args": gfull})
    return st


def run_tlc_shards(scratch, cfg, verdict):
    outs = [os.path.join(scratch, "c13a-cases-%d.json" % s) for s in range(cfg["shards"])]

    def one(s):
        return tlcrun.run_tlc("Cmdline_MC.tla", "Cmdline_MC.cfg", scratch, workers=1, timeout=1500, heap="3g",
                              gc=tlcrun.SMALL_JVM, java_props=("-Xss32m",),      # (Run/Flat recurse per token)
                              env={"OUT_FILE": outs[s], "C13_PARTS": cfg["parts"], "C13_TOTAL": str(cfg["total"]),
                                   "C13_SHARD": str(s), "C13_SHARDS": str(cfg["shards"])})
    t0 = time.time()
    with ThreadPoolExecutor(max_workers=min(16, cfg["shards"])) as ex:
        rs = list(ex.map(one, range(cfg["shards"])))
    tot = {"states": 0, "transitions": 0, "complete": True, "wall_s": round(time.time() - t0, 1),
           "shards": cfg["shards"], "checker_cmd": re.sub(r"-metadir \S+", "-metadir <scratch>", rs[0]["cmd"])}
    for s, r in enumerate(rs):
        st = tlcrun.parse_stats(r["out"])
        tot["states"] += st["distinct"]
        tot["transitions"] += st["generated"]
        if "Model checking completed. No error has been found." not in r["out"] or not os.path.exists(outs[s]):
            tot["complete"] = False
            verdict.machinery.append("TLC on Cmdline_MC shard %d/%d did not complete cleanly: %s" % (
                s, cfg["shards"], r["out"][-1500:]))
    return outs, tot


def run_cmdline(verdict, tier, seed, scratch):
    """Decide C13 (a) on the tree at VERIF_REPO; records violations / findings / machinery failures in
    `verdict`; returns the coverage dict (states, transitions, traces_validated_against_impl, samples, ...)."""
    cfg = TIERS["quick" if tier == "quick" else "thorough"]
    cov = {"states": 0, "transitions": 0, "traces_validated_against_impl": 0, "samples": [], "exhaustive": False}
    if not os.path.abspath(circus.__file__).startswith(os.path.abspath(REPO) + os.sep):
        verdict.machinery.append("circus imported from %s, not from %s" % (circus.__file__, REPO))
        return cov
    outs, tlc = run_tlc_shards(scratch, cfg, verdict)
    cov.update({"states": tlc["states"], "transitions": tlc["transitions"], "tlc": tlc,
                "checker_cmd": tlc["checker_cmd"], "exhaustive": tlc["complete"]})
    if not tlc["complete"]:
        return cov
    live = Live(scratch)
    dirs = {"plain": os.path.join(live.dir, "wd1"), "spacey": (os.path.join(live.dir, "w"), "d")}
    os.makedirs(dirs["plain"], exist_ok=True)
    os.makedirs(dirs["spacey"][0] + " " + dirs["spacey"][1], exist_ok=True)
    old = os.environ.get(INHERITED)
    os.environ[INHERITED] = INHERITED_VALUE
    os.environ.pop("C13_UNSET", None)
    t0 = time.time()
    try:
        per = int(math.ceil(cfg["live"] * 2.0 / cfg["shards"])) + 1
        jobs = [(outs[s], s, seed, cfg["spellings"], dirs, per) for s in range(cfg["shards"])]
        ctx = multiprocessing.get_context("fork")
        with ctx.Pool(min(16, len(jobs))) as pool:
            sts = pool.map(_shard_job, jobs, chunksize=1)
        sim_wall = round(time.time() - t0, 1)
        tot = {"cases": 0, "conc": 0, "fast_ok": 0, "full_ok": 0, "cwd_default": 0, "cwd_unset": 0, "dev_cases": 0}
        counts, dims, results, cands = {}, {}, [], []
        for s, st in enumerate(sts):
            if "error" in st:
                verdict.machinery.append(st["error"])
                continue
            if st["nparts"] != cfg["shards"]:
                verdict.machinery.append("alphabet of %d parts but %d shards: cases would be missed" % (
                    st["nparts"], cfg["shards"]))
            for k in tot:
                tot[k] += st[k]
            for k, v in st["counts"].items():
                counts[k] = counts.get(k, 0) + v
            for k, v in st["dims"].items():
                dims[k] = dims.get(k, 0) + v
            results += st["results"]
            cands += st["live"]
            cov["samples"] += st["samples"][:1] if len(cov["samples"]) < 4 else []
        # ---- live sample
        t1 = time.time()
        random.Random(seed).shuffle(cands)
        live_results = []
        nlive = 0
        live_ok = 0
        for c in cands[:cfg["live"]]:
            try:
                issues, got = real_live(c, live)
            except Exception as e:
                what = "live spawn failed (%s: %s) for cmd=%r args=%r shell=%r" % (
                    type(e).__name__, e, c["cmd"], c["args"], c["shell"])
                if c["sim_disagrees"]:
                    # the creation call is already known to differ for this very input: no dump is the consequence
                    counts["violation:"] = counts.get("violation:", 0) + 1
                    live_results.append(("violation", None, what, _replay(c, "live", "run", what, "a worker dump")))
                else:
                    verdict.machinery.append(what)
                    if len(verdict.machinery) > 5:
                        break
                continue
            nlive += 1
            live_ok += not issues
            dims["live shell=%s" % c["shell"]] = dims.get("live shell=%s" % c["shell"], 0) + 1
            for cls, fid, what, rep in classify(c, issues, [("live", got)]):
                key = cls + ":" + (fid or "")
                counts[key] = counts.get(key, 0) + 1
                live_results.append((cls, fid, what, rep))
            if nlive == 1:
                cov["samples"].append({"live": True, "cmd": c["cmd"], "args": c["args"], "shell": c["shell"],
                                       "working_dir": c["working_dir"], "copy_env": c["copy_env"], "env": c["env"],
                                       "worker_saw_argv": got, "expected": expectation(c, "live")[1]})
        results = live_results[:4] + results + live_results[4:]      # (replay files are capped: live ones first)
        live_wall = round(time.time() - t1, 1)
    finally:
        if old is None:
            os.environ.pop(INHERITED, None)
        else:
            os.environ[INHERITED] = old
    # ---- verdicts
    nfile = {}
    for cls, fid, what, rep in results:
        if cls == "violation":
            nfile[cls] = nfile.get(cls, 0) + 1
            if nfile[cls] <= MAX_REPLAYS:
                verdict.violation(what, rep)
        elif cls == "finding":
            listed = fid in verdict.known and verdict.prop in verdict.known[fid].get("properties", [])
            nfile[fid] = nfile.get(fid, 0) + 1
            if listed or nfile[fid] <= 3:
                verdict.attributed(fid, what, rep)
        else:
            verdict.notes.append(what)
    for fid in set(DEV_FINDING.values()):
        n = counts.get("finding:" + fid, 0)
        if n and fid in verdict.known_hits:
            verdict.known_hits[fid] = n          # every occurrence of the run, not only the recorded ones
    stale = counts.get("stale:", 0)
    if stale:
        print("DIVERGENCE (no property verdict): on %d concretizations the code does not take a Dev_ branch of "
              "Cmdline.tla any more (the statement's vector is produced): flip the constant" % stale)
    if tot["cases"] == 0:
        verdict.machinery.append("no case came out of TLC")
    if tlc["states"] != cfg["shards"] + 4 * tot["cases"]:
        # every case is a behaviour start -> input -> subst -> words -> shell of the model-checked state graph
        verdict.machinery.append("TLC explored %d states but emitted %d cases (expected %d states)" % (
            tlc["states"], tot["cases"], cfg["shards"] + 4 * tot["cases"]))
    cov.update({"traces_validated_against_impl": tot["conc"] + nlive, "cases": tot["cases"],
                "concretizations": tot["conc"], "fast_path_agree": tot["fast_ok"], "full_path_agree": tot["full_ok"],
                "live_spawns": nlive, "live_agree": live_ok, "live_controls": len(live.controls),
                "env_keys_added_by_interpreter_or_sh": live.added, "deviation_cases": tot["dev_cases"],
                "disagreements": counts, "dimensions": dims,
                "cwd_when_unset_equals_daemon_dir": "%d/%d (not asserted)" % (tot["cwd_default"], tot["cwd_unset"]),
                "sim_wall_s": sim_wall, "live_wall_s": live_wall,
                "bounds": "parts alphabet %s (%d parts), words <= 3, parts per word <= 3, total parts <= %d; "
                          "%d spelling(s) per case and shell flag" % (cfg["parts"], cfg["shards"], cfg["total"],
                                                                      cfg["spellings"])})
    return cov


ASSUMPTIONS = [
    "rendering contract of Cmdline.tla: literal pools as listed in harness/check_c13a.py (no blank, quote, backslash, "
    "dollar or parenthesis inside a literal; variable values are runs of [A-Za-z0-9_@%+=:,./-] and single blanks)",
    "sim path: FakePopen/Kernel record the arguments of the process-creation call unchanged",
    "live path: /bin/sh and the python interpreter add the same variables for the control spawn and the worker",
    "not asserted: $WID (deprecated); values that themselves contain references, quotes, backslashes or dollars; "
    "env names differing only in letter case or outside [A-Za-z0-9_.-]; non-string list elements; the directory "
    "when working_dir is unset; copy_path, virtualenv, uid/gid, rlimits, executable, close_fds, shell_args; "
    "unbalanced quoting (no vector exists)",
    "TLC and the CommunityModules Json module",
]


def run(prop, tier, seed):
    t = checklib.Timer()
    verdict = checklib.Verdict(prop)
    cov = {}
    with tlcrun.Scratch() as scratch:
        try:
            cov = run_cmdline(verdict, tier, seed, scratch)
        except Exception:
            import traceback
            verdict.machinery.append("exception in check_c13a: " + traceback.format_exc()[-1500:])
    if not cov.get("samples"):
        cov["samples"] = ["(no case was explored)"]
    for n in verdict.notes[:5]:
        print("NOTE: " + n)
    ev = {"tier": tier, "seed": seed, "level": "model_checking", "coverage": cov, "wall_s": t.wall(),
          "assumptions": ASSUMPTIONS}
    return verdict.finish(ev)


def replay(obj):
    """Re-run one recorded case on the tree at VERIF_REPO: 1 if the real result still differs from `demanded`."""
    c = obj["case"]
    with tlcrun.Scratch() as scratch:
        if obj["path"] == "live":
            live = Live(scratch)
            for d in ([c["working_dir"]] if c["working_dir"] else []):
                os.makedirs(d, exist_ok=True)
            issues, got = real_live(c, live)
            vec = got
        else:
            issues, gf, gfull, _ = real_sim(c)
            vec = gf if obj["path"] == "fast" else gfull
    bad = [i for i in issues if i[0] == obj["path"]] or (vec != obj["demanded"] and obj["aspect"] == "argv")
    print("replayed c13a case on %s path: real %r, demanded %r, other disagreements %r" % (
        obj["path"], vec, obj["demanded"], issues))
    if bad:
        print("VIOLATION property=C13 (replayed)")
        return 1
    return 0


if __name__ == "__main__":
    tier_, seed_ = checklib.tier_seed(sys.argv[2] if len(sys.argv) > 2 else None)
    sys.exit(run(sys.argv[1] if len(sys.argv) > 1 else "C13", tier_, seed_))

"""reloadconfig under schedules (C12 / C15 / C01 halves): the real arbiter booted from a real ini file on the sim
binding (file mode of harness/simdaemon.py), the file edited and reloaded with worker deaths, periodic checks,
read-only requests and refused reloads in between.

  monitor pass   profile `reloadmon`: clauses of Monitors.tla with the given prefixes (C12_conv, C12_keep,
                 C15_dir, C15_views, C01_range ...) on every recorded step
  strict pass    profile `conf_reload`: every recorded line must be the step Core.tla's P_reloadcfg (and the rest
                 of Core) takes next; a divergence with all clauses TRUE is reported as DIVERGENCE (exit 0)
"""
from harness import batch, tlcrun


def run_reload_sched(verdict, tier, seed, scratch, prefixes, n_quick=120, n_thorough=3000, conf_quick=40,
                     conf_thorough=600):
    quick = tier == "quick"
    n = n_quick if quick else n_thorough
    jobs = [("reloadmon", seed * 1000003 + i) for i in range(n)]
    runs, st = batch.batch(jobs, scratch)
    hits, lines = {}, 0
    for r in runs:
        if r.get("trace") is None:
            verdict.machinery.append("reload scenario %s did not run: %s" % (r.get("seed"), r.get("error")))
            continue
        v = r.get("verdict")
        lines += r.get("nlines", len(r["trace"]))
        if v is None:
            verdict.machinery.append("no TLC verdict for reload scenario %s" % r.get("seed"))
            continue
        for c, line, kf in v["bad"]:
            if not any(c.startswith(p) for p in prefixes):
                continue
            hits[c] = hits.get(c, 0) + 1
            rep = {"kind": "sim-scenario", "scenario": r["scenario"], "clause": c, "line": line}
            what = "%s false at line %d of the trace of reloadmon/%s" % (c, line, r.get("seed"))
            if kf:
                verdict.attributed(kf, what, rep)
            else:
                verdict.violation(what, rep)
    if st.get("errors"):
        verdict.machinery.append("TraceMon (reload schedules): " + st["errors"][0][-600:])
    # strict pass
    cn = conf_quick if quick else conf_thorough
    cpairs, cst = batch.conform([("conf_reload", seed * 1000003 + 500000 + i) for i in range(cn)], scratch)
    ctr = [r for r, c in cpairs]
    res = [c for r, c in cpairs]
    full = len([c for c in res if c is not None and c[0] >= c[1]])
    for r, c in cpairs:
        if c is not None and c[0] < c[1]:
            verdict.notes.append("DIVERGENCE: conf_reload/%s leaves Core after line %d of %d" % (r.get("seed"), c[0], c[1]))
    if cst.get("errors"):
        verdict.notes.append("TraceCore (reload): " + cst["errors"][0][-300:])
    return {"reload_sched_scenarios": len([r for r in runs if r.get("verdict")]), "reload_sched_lines": lines,
            "reload_sched_clause_hits": hits, "reload_conformance_traces": len(ctr), "reload_conformance_full": full,
            "traces_validated_against_impl": len([r for r in runs if r.get("verdict")]) + len(ctr),
            "states": st.get("states", 0) + cst.get("states", 0), "transitions": st.get("states", 0) + cst.get("states", 0)}

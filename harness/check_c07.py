"""C07 -- managed sockets reach every worker generation and are never rebound.  (shape M, live binding)

spec/Sockets.tla is the descriptor-level model (daemon fd table, Arbiter.sockets, Popen's close_fds/inheritable
rules, one event per quiescent stimulus).  This check

  1. model-checks it exhaustively (Sockets_MC.cfg: 2 sockets x 2 watchers x every history of <= 4 events, both
     so_reuseport configurations) and, as vacuity guards, re-runs it with each hypothetical Fault_* branch TRUE
     (the corresponding invariant must FAIL) and with the reachability companions (must be reached);
  2. takes histories from TLC (`-simulate`, seeded; the invariant Emit prints them as JSON);
  3. for every history starts a REAL `python -m circus.circusd` on a real ini file in a scratch directory (ipc
     endpoints, one inet and one unix managed socket, a use_sockets watcher whose command line carries
     $(circus.sockets.NAME), and either a watcher with neither use_sockets nor stdin_socket or a watcher with
     stdin_socket = NAME and no use_sockets; workers are harness/live/worker.py), drives the
     events with real control requests (circus.client.CircusClient) and real kill(2), and after every step
     projects what is observable from outside -- the records the workers wrote about their own /proc/self/fd,
     /proc/<daemon>/fd, /proc/net/{tcp,unix}, a connect() probe -- onto the observation record of the spec;
  4. hands the recorded behaviours to TLC (spec/SocketsTrace.tla): the property formulas MonSame / MonStable /
     MonNoLeak are evaluated on every OBSERVED state (FALSE = violation, after one re-run in isolation), and the
     observed state is compared with the one the model reaches by the same event (difference = DIVERGENCE, a
     note, exit 0).

so_reuseport sockets are bound per worker by design and excepted by the statement: they are observed (`fresh`)
for conformance only.  The final SIGTERM + what is left is C08's business: recorded, not judged here; the
process group of every daemon is killed in a finally block.
"""
import json
import os
import random
import re
import signal
import sys
import time
from concurrent.futures import ThreadPoolExecutor

ROOT = os.path.dirname(os.path.dirname(os.path.abspath(__file__)))
if ROOT not in sys.path:
    sys.path.insert(0, ROOT)

from harness import checklib, tlcrun, livelib  # noqa: E402
from harness.livelib import T  # noqa: E402

SOCKS = ("inet", "unix")
# three kinds of watcher: ws use_sockets + $(circus.sockets.*) in cmd; wn neither; wi stdin_socket = NAME, no
# use_sockets (descriptor 0 of its workers IS the managed socket; nothing else of the daemon may be inherited).
# A history comes with the watchers present ({wn, ws} or {wi, ws}) and the socket wi's stdin_socket names.
USE = {"wi": False, "wn": False, "ws": True}
REFS = {"wi": (), "wn": (), "ws": ("inet", "unix")}
NP0 = {"wi": 1, "wn": 1, "ws": 2}
MAX_EVENTS = 4
MAX_PROCS = 3

CFG = """CONSTANTS
  MaxEvents = %d
  MaxProcs = %d
  Fault_CloseFds = %s
  Fault_KeepFds = %s
  Fault_KeepFdsStdin = %s
  Fault_NoInherit = %s
  Fault_Rebind = %s
INIT %s
NEXT %s
CHECK_DEADLOCK FALSE
%s
"""

MAIN_INVS = ["Inv_Same", "Inv_Stable", "Inv_NoLeak", "Inv_ProjFaithful", "Inv_Count", "Inv_Stdin"]
# fault branch -> invariant that has to fail with it
FAULTS = [("CloseFds", "Inv_Same"), ("KeepFds", "Inv_NoLeak"), ("KeepFdsStdin", "Inv_NoLeak"),
          ("NoInherit", "Inv_Same"), ("Rebind", "Inv_Stable")]
REACH = ["Reach_ThirdGeneration", "Reach_Fresh", "Reach_StdinThird"]


def _tf(b):
    return "TRUE" if b else "FALSE"


def write_cfg(path, faults=(), invs=(), props=(), init="Init", nxt="Next", max_events=MAX_EVENTS):
    body = "\n".join(["INVARIANT " + i for i in invs] + ["PROPERTY " + p for p in props])
    with open(path, "w") as fh:
        fh.write(CFG % (max_events, MAX_PROCS, _tf("CloseFds" in faults), _tf("KeepFds" in faults),
                        _tf("KeepFdsStdin" in faults), _tf("NoInherit" in faults), _tf("Rebind" in faults), init, nxt, body))
    return path


# ------------------------------------------------------------------------------------------------
# TLC: model checking, vacuity guards, histories
# ------------------------------------------------------------------------------------------------
def tlc_jobs(scratch, mc_events=MAX_EVENTS):
    """-> list of (label, kind, cfg, expect, workers)"""
    jobs = [("MC", "mc", write_cfg(os.path.join(scratch, "Sockets_MC.cfg"), invs=MAIN_INVS, props=["Act_Stable"],
                                   max_events=mc_events), None, 8)]
    for f, inv in FAULTS:
        jobs.append(("fault_" + f, "fault", write_cfg(os.path.join(scratch, "Sockets_f_%s.cfg" % f), faults=(f,),
                                                       invs=[inv, "Inv_ProjFaithful"]), inv, 2))
    for r in REACH:
        jobs.append(("reach_" + r, "reach", write_cfg(os.path.join(scratch, "Sockets_r_%s.cfg" % r), invs=[r]), r, 2))
    return jobs


def run_tlc_job(job, scratch):
    label, kind, cfg, expect, workers = job
    try:
        r = tlcrun.run_tlc("Sockets.tla", cfg, scratch, workers=workers, timeout=600, heap="3g",
                           gc=tlcrun.SMALL_JVM if workers <= 2 else ("-XX:+UseParallelGC",))
    except Exception as e:      # noqa
        r = {"rc": -1, "out": "exception: %r" % (e,), "wall": 0.0, "cmd": ""}
    st = tlcrun.parse_stats(r["out"])
    res = {"label": label, "kind": kind, "distinct": st["distinct"], "generated": st["generated"], "depth": st["depth"],
           "wall_s": round(r["wall"], 1), "ok": False, "why": ""}
    out = r["out"]
    if kind == "mc":
        res["ok"] = "Model checking completed. No error has been found." in out
        res["why"] = "" if res["ok"] else out[-1500:]
        res["cmd"] = r.get("cmd", "")
    else:
        m = re.search(r"Invariant (\w+) is violated", out)
        res["ok"] = bool(m) and m.group(1) == expect
        res["why"] = "" if res["ok"] else ("expected %s to be violated; TLC said: %s" % (expect, out[-800:]))
    return res


def simulate_histories(scratch, seed, num, live_events=MAX_EVENTS):
    """tlc -simulate on Sockets_sim: every behaviour that reaches the bound is printed by the invariant Emit."""
    cfg = write_cfg(os.path.join(scratch, "Sockets_sim.cfg"), invs=["Emit"], max_events=live_events)
    r = tlcrun.run_tlc("Sockets.tla", cfg, scratch, workers=1, timeout=300, heap="2g", gc=tlcrun.SMALL_JVM,
                       extra_args=["-simulate", "num=%d" % num, "-depth", str(live_events + 1), "-seed",
                                   str(seed * 1000003 + 17)])
    hs = []
    seen = set()
    for m in re.finditer(r'<<"HIST", (".*")>>', r["out"]):
        try:
            h = json.loads(json.loads(m.group(1)))
        except ValueError:
            continue
        key = json.dumps(h, sort_keys=True)
        if key not in seen:
            seen.add(key)
            hs.append(h)
    st = tlcrun.parse_stats(r["out"])
    mm = re.search(r"The number of states generated: (\d+)", r["out"])
    return hs, {"printed": len(hs), "states_generated": int(mm.group(1)) if mm else st["generated"],
                "wall_s": round(r["wall"], 1), "tail": r["out"][-600:] if not hs else ""}


def choose(hs, n, rng):
    """One history per distinct 3-event prefix first (the simulator prints all successors at the bound),
    both so_reuseport configurations, then fill up."""
    groups = {}
    for h in hs:
        kind = "stdin" if "wi" in h["watchers"] else ("rp" if h["rp"]["inet"] else "plain")
        key = (kind, h["si"], h["rp"]["inet"], json.dumps(h["events"][:-1]))
        groups.setdefault(key, []).append(h)
    keys = sorted(groups.keys())
    rng.shuffle(keys)
    # shares: 2 plain : 2 stdin_socket : 1 so_reuseport (the statement excepts the latter)
    pools = dict((k, [x for x in keys if x[0] == k]) for k in ("plain", "stdin", "rp"))
    order = []
    while any(pools.values()):
        for kind in ("plain", "stdin", "rp", "plain", "stdin"):
            if pools[kind]:
                order.append(pools[kind].pop())
    out = []
    rnd = 0
    while len(out) < n and any(groups.values()):
        for k in order:
            if groups[k] and len(out) < n:
                g = groups[k]
                # prefer a last event on the use_sockets watcher in the first round
                pref = [h for h in g if h["events"][-1][1] == ("wi" if k[0] == "stdin" else "ws")] if rnd == 0 else g
                h = rng.choice(pref or g)
                g.remove(h)
                out.append(h)
        rnd += 1
    return out


# ------------------------------------------------------------------------------------------------
# one live run
# ------------------------------------------------------------------------------------------------
def concretize(hist, idx, seed):
    rng = random.Random(seed * 7919 + idx * 31 + 3)
    rp = hist["rp"]["inet"]
    return {"inet_port": livelib.free_port() if (rp or rng.random() < 0.5) else 0,
            "unix_replace": rng.random() < 0.5,
            "check_delay": rng.choice([0.2, 0.3, 0.5]),
            "death_signal": rng.choice(["KILL", "TERM", "KILL"]),
            "ws_stdout_file": rng.random() < 0.3,
            "wn_stdout_file": rng.random() < 0.2,
            "backlog": rng.choice([None, 16, 128]),
            # circusd started with standard input closed: the first managed socket is then descriptor 0
            "stdin_closed": (idx % 4 == 1),
            # (not with so_reuseport: Process._get_sockets_fds looks for the reference in cmd, in lower case, to decide
            #  whether a worker gets its own socket; those sockets are excepted by the statement)
            "refs_in_args": (idx % 3 == 1) and not rp, "refs_upper": (idx % 5 == 2) and not rp,
            # a managed socket need not be a stream socket: the unix one as a datagram socket (bound, not listening)
            "unix_dgram": (idx % 4 == 2)}


def make_ini(d, hist, conc):
    rp = hist["rp"]
    rec = os.path.join(d, "rec")
    lines = ["[circus]", "endpoint = ipc://%s/ctl.sock" % d, "pubsub_endpoint = ipc://%s/pub.sock" % d,
             "check_delay = %s" % conc["check_delay"], "statsd = False", "httpd = False", "",
             "[socket:inet]", "host = 127.0.0.1", "port = %d" % conc["inet_port"]]
    if rp["inet"]:
        lines.append("so_reuseport = True")
    if conc["backlog"]:
        lines.append("backlog = %d" % conc["backlog"])
    lines += ["", "[socket:unix]", "path = %s/m.sock" % d]
    if conc.get("unix_dgram"):
        lines.append("type = SOCK_DGRAM")
    if conc["unix_replace"]:
        lines.append("replace = True")
    # where and how the command line refers to the sockets: in cmd or in args, in lower or upper case
    i_ref = "$(CIRCUS.SOCKETS.INET)" if conc.get("refs_upper") else "$(circus.sockets.inet)"
    u_ref = "$(circus.sockets.UNIX)" if conc.get("refs_upper") else "$(circus.sockets.unix)"
    fdargs = ["--fd", "inet=" + i_ref, "--fd", "unix=" + u_ref]
    if conc.get("refs_in_args"):
        lines += ["", "[watcher:ws]", "cmd = " + livelib.worker_cmd(rec, "ws", "--wid", "$(circus.wid)"),
                  "args = " + " ".join(fdargs)]
    else:
        lines += ["", "[watcher:ws]", "cmd = " + livelib.worker_cmd(rec, "ws", "--wid", "$(circus.wid)", *fdargs)]
    lines += ["use_sockets = True", "numprocesses = %d" % NP0["ws"], "graceful_timeout = 2", "copy_env = True"]
    if conc["ws_stdout_file"]:
        lines += ["stdout_stream.class = FileStream", "stdout_stream.filename = %s/ws.out" % d]
    for w in hist["watchers"]:
        if w == "ws":
            continue
        lines += ["", "[watcher:%s]" % w,
                  "cmd = " + livelib.worker_cmd(rec, w, "--wid", "$(circus.wid)"),
                  "numprocesses = %d" % NP0[w], "graceful_timeout = 2", "copy_env = True"]
        if w == "wi":
            lines.append("stdin_socket = %s" % hist["si"])
        if conc["wn_stdout_file"]:
            lines += ["stdout_stream.class = FileStream", "stdout_stream.filename = %s/%s.out" % (d, w)]
    return "\n".join(lines) + "\n"


class LiveRun(object):
    def __init__(self, d, hist, conc):
        self.d = d
        self.hist = hist
        self.rp = hist["rp"]
        self.si = hist["si"]
        self.watchers = tuple(sorted(hist["watchers"]))
        self.conc = conc
        self.daemon = livelib.Daemon(d, make_ini(d, hist, conc), stdin_closed=conc.get("stdin_closed", False))
        self.records = livelib.Records(os.path.join(d, "rec"))
        self.ctl = None
        self.ords = {}              # (pid, start_ticks) -> ordinal within its watcher
        self.next_ord = dict((w, 1) for w in self.watchers)
        self.boot = {}              # socket name -> {fd, inode, port/path}
        self.daemon_targets = set() # link targets of everything the daemon was seen to hold (stdio excluded)
        self.daemon_socket_inodes = set()
        self.problems = []
        self.lines = []
        self.raw = []

    # ---- looking ------------------------------------------------------------------------------
    def live_workers(self):
        """-> (list of records of the live (non-zombie) children, zombies, children without a record)"""
        kids = self.daemon.children()
        recs = self.records.by_pid()
        live, zombies, missing = [], [], []
        for pid, state in kids.items():
            if state == "Z":
                zombies.append(pid)
                continue
            r = recs.get(pid)
            st = livelib.proc_stat(pid)
            if r is None or st is None or r["start_ticks"] != st["start_ticks"] or r.get("child"):
                missing.append(pid)
            else:
                live.append(r)
        return live, zombies, missing

    def circus_view(self):
        """numprocesses option and status per watcher, as the daemon reports them (synchronisation only)."""
        rep = self.ctl.once("status")
        if rep.get("status") != "ok":
            return None
        view = {}
        for w in self.watchers:
            g = self.ctl.once("get", name=w, keys=["numprocesses"])
            if g.get("status") != "ok":
                return None
            view[w] = (int(g["options"]["numprocesses"]), rep["statuses"].get(w))
        return view

    def settle(self, timeout):
        """Wait for a quiescent point: every child has written its record, no zombie, as many live workers per
        watcher as the daemon's numprocesses says, all watchers active, the same picture twice in a row.
        -> (live records, circus view) or (None, why)"""
        end = time.time() + timeout
        last, stable, why = None, 0, "timeout"
        stopped_since = None
        while time.time() < end:
            if not self.daemon.alive():
                return None, "the daemon exited (status %s)" % self.daemon.p.returncode
            live, zombies, missing = self.live_workers()
            if zombies or missing:
                why = "zombies %s, children without record %s" % (zombies, missing)
                stable = 0
            else:
                view = self.circus_view()
                count = dict((w, len([r for r in live if r["tag"] == w])) for w in self.watchers)
                if view is None:
                    why = "no answer to status/get"
                    stable = 0
                elif any(view[w][1] != "active" or view[w][0] != count[w] for w in self.watchers):
                    why = "daemon says %s, live workers %s" % (view, count)
                    stable = 0
                    # a watcher that gave up (spawn failed max_retry times) does not come back by itself
                    if any(view[w][1] == "stopped" for w in self.watchers):
                        stopped_since = stopped_since or time.time()
                        if time.time() - stopped_since > T(3):
                            return None, "a watcher stays stopped: " + why
                    else:
                        stopped_since = None
                else:
                    key = (sorted((r["pid"], r["start_ticks"]) for r in live), sorted(view.items()))
                    stable = stable + 1 if key == last else 1
                    last = key
                    if stable >= 2:
                        return live, view
            time.sleep(T(0.1))
        return None, why

    def assign_ordinals(self, live):
        for w in self.watchers:
            new = [r for r in live if r["tag"] == w and (r["pid"], r["start_ticks"]) not in self.ords]
            # within one batch circus hands out the smallest free wid: spawn order = wid order
            new.sort(key=lambda r: (int(r["wid"]) if str(r.get("wid", "")).isdigit() else 10 ** 6, r["start_ticks"],
                                    r["time"]))
            for r in new:
                self.ords[(r["pid"], r["start_ticks"])] = self.next_ord[w]
                self.next_ord[w] += 1

    def ordinal(self, r):
        return self.ords[(r["pid"], r["start_ticks"])]

    def identify_boot(self, dfd):
        """Which daemon descriptors are the managed sockets?  Answered from the kernel's tables, not by circus."""
        inodes = dict((livelib.socket_inode(t), fd) for fd, t in dfd.items() if livelib.socket_inode(t) is not None)
        tcp = livelib.tcp_listeners()
        unx = livelib.unix_bound() if self.conc.get("unix_dgram") else livelib.unix_listeners()
        if not self.rp["inet"]:
            cands = [(ino, tcp[ino]) for ino in inodes if ino in tcp and tcp[ino][0] == "127.0.0.1"]
            if self.conc["inet_port"]:
                cands = [c for c in cands if c[1][1] == self.conc["inet_port"]]
            if len(cands) == 1:
                ino, (ip, port) = cands[0]
                self.boot["inet"] = {"fd": inodes[ino], "inode": ino, "port": port}
            else:
                self.boot["inet"] = None
                self.problems.append(("boot", "the daemon holds %d listening tcp sockets on 127.0.0.1 (%s), one "
                                              "expected" % (len(cands), cands)))
        else:
            self.boot["inet"] = {"fd": None, "inode": None, "port": self.conc["inet_port"]}
        path = os.path.join(self.d, "m.sock")
        cands = [ino for ino in inodes if unx.get(ino) == path]
        if len(cands) == 1:
            self.boot["unix"] = {"fd": inodes[cands[0]], "inode": cands[0], "path": path}
        else:
            self.boot["unix"] = None
            self.problems.append(("boot", "the daemon holds %d listening unix sockets at %s, one expected" % (
                len(cands), path)))

    def observe(self, ev, live, view):
        """One trace line: the projection Proj of Sockets.tla, from real observations."""
        dfd = self.daemon.fds()
        if not self.boot:
            self.identify_boot(dfd)
        stdio = set(dfd.get(i) for i in (0, 1, 2))
        for fd, t in dfd.items():
            if fd > 2 and t not in stdio:
                self.daemon_targets.add(t)
                if livelib.socket_inode(t) is not None:
                    self.daemon_socket_inodes.add(livelib.socket_inode(t))
        tcp = livelib.tcp_listeners()
        dg = bool(self.conc.get("unix_dgram"))      # the managed unix socket is a datagram socket: bound, never listening
        unx = livelib.unix_bound() if dg else livelib.unix_listeners()
        self.assign_ordinals(live)
        socks, probes = {}, {}
        for n in SOCKS:
            b = self.boot.get(n)
            if self.rp[n]:
                socks[n] = {"same": True, "inl": True, "probe": True}
                probes[n] = livelib.probe_inet(b["port"]) if n == "inet" else None     # recorded only
                continue
            if b is None:
                socks[n] = {"same": False, "inl": False, "probe": False}
                continue
            probes[n] = (livelib.probe_inet(b["port"]) if n == "inet" else
                         livelib.probe_unix_dgram(b["path"]) if dg else livelib.probe_unix(b["path"]))
            inl = (b["inode"] in tcp) if n == "inet" else (b["inode"] in unx)
            for _ in range(4):
                if inl:
                    break
                # /proc/net/* is not read atomically: under churn a row can be skipped; a socket that really
                # stopped listening stays so, so looking again is sound
                time.sleep(T(0.05))
                inl = (b["inode"] in livelib.tcp_listeners()) if n == "inet" else (
                    b["inode"] in (livelib.unix_bound() if dg else livelib.unix_listeners()))
            socks[n] = {"same": dfd.get(b["fd"]) == "socket:[%d]" % b["inode"], "inl": inl,
                        "probe": probes[n] == "ok"}
        workers = []
        rawworkers = []
        for r in sorted(live, key=lambda r: (r["tag"], self.ordinal(r))):
            w = r["tag"]
            fds = r["fds"]
            at, holds = {}, {}
            for n in SOCKS:
                b = self.boot.get(n)
                holds[n] = bool((not self.rp[n]) and b and fds.get(str(b["fd"])) == "socket:[%d]" % b["inode"])
                if n not in REFS[w]:
                    at[n] = "na"
                    continue
                a = r["argfds"].get(n) or {}
                tgt = fds.get(str(a.get("fd"))) if isinstance(a.get("fd"), int) else None
                ino = livelib.socket_inode(tgt)
                if tgt is None or not a.get("open"):
                    at[n] = "none"
                elif (not self.rp[n]) and b and ino == b["inode"]:
                    at[n] = "boot"
                elif (self.rp[n] and ino is not None and a.get("listening") and
                      isinstance(a.get("sockname"), list) and a["sockname"][1] == self.conc["inet_port"] and
                      ino not in self.daemon_socket_inodes and
                      not any(o is not r and "socket:[%d]" % ino in o["fds"].values() for o in live)):
                    at[n] = "fresh"
                else:
                    at[n] = "other"
            extra = len([fd for fd, t in fds.items() if int(fd) > 2 and t in self.daemon_targets])
            stdin = "na"
            if w == "wi":
                b = self.boot.get(self.si)
                stdin = "boot" if (b and fds.get("0") == "socket:[%d]" % b["inode"]) else "other"
            workers.append({"w": w, "ord": self.ordinal(r), "at": at, "holds": holds, "extra": extra,
                            "stdin": stdin})
            rawworkers.append({"pid": r["pid"], "watcher": w, "ord": self.ordinal(r), "wid": r.get("wid"),
                               "argv": r["argv"][3:], "fds": fds, "argfds": r["argfds"]})
        obs = {"socks": socks, "np": dict((w, view[w][0]) for w in self.watchers), "workers": workers}
        self.lines.append({"ev": ev, "obs": obs})
        self.raw.append({"ev": ev, "daemon_fds": dict((str(k), v) for k, v in sorted(dfd.items())),
                         "boot": self.boot, "probes": probes, "workers": rawworkers})

    # ---- acting -------------------------------------------------------------------------------
    def do_event(self, ev, live):
        kind, w, i = ev
        deadline = time.time() + T(30)
        alive = self.daemon.alive
        if kind == "death":
            ws = sorted([r for r in live if r["tag"] == w], key=self.ordinal)
            if i > len(ws):
                return "no %d-th live worker of %s" % (i, w)
            victim = ws[i - 1]
            os.kill(victim["pid"], getattr(signal, "SIG" + self.conc["death_signal"]))
            self.raw[-1].setdefault("actions", []).append("kill -%s %d (%s #%d)" % (
                self.conc["death_signal"], victim["pid"], w, self.ordinal(victim)))
            # gone from the process table (or a zombie) before we start waiting for the replacement
            end = time.time() + T(10)
            while time.time() < end and livelib.exists_same(victim["pid"], victim["start_ticks"]) not in (None, "Z"):
                time.sleep(0.01)
            return None
        reqs = {"restart": [("restart", {"name": w, "waiting": True})],
                "reload": [("reload", {"name": w, "waiting": True})],
                "stopstart": [("stop", {"name": w, "waiting": True}), ("start", {"name": w, "waiting": True})],
                "rcfg": [("reloadconfig", {"waiting": True})],
                "incr": [("incr", {"name": w, "nb": 1, "waiting": True})],
                "decr": [("decr", {"name": w, "nb": 1, "waiting": True})]}[kind]
        for cmd, props in reqs:
            rep = self.ctl.call(cmd, deadline, alive, **props)
            self.raw[-1].setdefault("actions", []).append("%s %s -> %s" % (cmd, props, rep.get("status")))
            if rep.get("status") != "ok" and kind != "rcfg":     # (a failing reloadconfig is the code's business: the
                #  observation that follows is judged all the same)
                return "%s %s answered %s %s" % (cmd, props, rep.get("status"), str(rep.get("reason"))[:200])
        return None

    def run(self):
        t0 = time.time()
        res = {"history": self.hist, "concretization": self.conc, "dir": self.d, "ok": False}
        try:
            self.daemon.start()
            if not self.daemon.wait_control(T(30)):
                self.problems.append(("boot", "no control endpoint after %.0f s: %s" % (
                    T(30), self.daemon.log_tail(600))))
                return res
            self.ctl = livelib.Ctl(self.daemon.endpoint, timeout=15.0)
            live, view = self.settle(T(40))
            if live is None:
                self.problems.append(("boot", "not quiescent after start-up: %s; log: %s" % (
                    view, self.daemon.log_tail(600))))
                return res
            self.observe(["boot", "", 0], live, view)
            for ev in self.hist["events"]:
                err = self.do_event(ev, live)
                if err:
                    self.problems.append(("event", "%s: %s" % (ev, err)))
                    return res
                live, view = self.settle(T(40))
                if live is None:
                    self.problems.append(("settle", "not quiescent after %s: %s; log: %s" % (
                        ev, view, self.daemon.log_tail(600))))
                    return res
                self.observe(ev, live, view)
            res["ok"] = not [p for p in self.problems if p[0] == "boot"]
            # the end: SIGTERM (twice if need be, see D6), then look at what is left -- recorded, judged by C08
            sd = {"exit": None, "sigterms": 0}
            for _ in range(3):
                if not self.daemon.alive():
                    break
                self.daemon.signal(signal.SIGTERM)
                sd["sigterms"] += 1
                if self.daemon.wait(T(8)) is not None:
                    break
            sd["exit"] = self.daemon.p.returncode
            sd["workers_left"] = [r["pid"] for r in self.records.by_pid().values()
                                  if livelib.exists_same(r["pid"], r["start_ticks"]) is not None]
            res["shutdown"] = sd
            return res
        except Exception:       # noqa
            import traceback
            self.problems.append(("exception", traceback.format_exc()[-1200:]))
            return res
        finally:
            try:
                if self.ctl is not None:
                    res["conflicts_retried"] = self.ctl.conflicts
                    self.ctl.close()
            finally:
                self.daemon.destroy()
            res["trace"] = {"rp": self.rp, "si": self.si, "watchers": list(self.watchers), "lines": self.lines}
            res["raw"] = self.raw
            res["problems"] = self.problems
            res["wall_s"] = round(time.time() - t0, 2)
            res["generations_ws"] = self.next_ord["ws"] - 1
            res["generations_wi"] = self.next_ord.get("wi", 1) - 1


def live_history(job):
    d, hist, conc = job
    return LiveRun(d, hist, conc).run()


# ------------------------------------------------------------------------------------------------
# trace validation by TLC
# ------------------------------------------------------------------------------------------------
_VERD = re.compile(r'<<"VERDICT", (\d+), (\d+), (\d+), \{(.*?)\}>>')
_EXP = re.compile(r'<<"EXPECTED", (\d+), (\d+), (".*?")>>\n')


def validate(traces, scratch, tag):
    """-> (list aligned with traces of {lines, div, bad: {monitor: line}, expected} or None, stats)"""
    if not traces:
        return [], {"states": 0, "generated": 0, "wall_s": 0.0}
    f = os.path.join(scratch, "c07-traces-%s.json" % tag)
    with open(f, "w") as fh:
        json.dump(traces, fh)
    cfg = write_cfg(os.path.join(scratch, "SocketsTrace-%s.cfg" % tag), invs=["Expect"], init="TInit", nxt="TNext",
                    max_events=64)
    r = tlcrun.run_tlc("SocketsTrace.tla", cfg, scratch, workers=1, env={"TRACE_FILE": f}, timeout=900, heap="2g",
                       gc=tlcrun.SMALL_JVM)
    out = r["out"]
    flat = re.sub(r"\s*\n\s*", " ", out)
    res = [None] * len(traces)
    for m in _VERD.finditer(flat):
        bad = dict((a, int(b)) for a, b in re.findall(r'<<"(\w+)", (\d+)>>', m.group(4)))
        res[int(m.group(1)) - 1] = {"lines": int(m.group(2)), "div": int(m.group(3)), "bad": bad, "expected": None}
    for m in _EXP.finditer(out):
        i = int(m.group(1)) - 1
        if res[i] is not None:
            try:
                res[i]["expected"] = json.loads(json.loads(m.group(3)))
            except ValueError:
                pass
    st = tlcrun.parse_stats(out)
    err = ""
    if "Error:" in out or any(x is None for x in res):
        err = out[-2500:]
    return res, {"states": st["distinct"], "generated": st["generated"], "wall_s": round(r["wall"], 1), "error": err}


def describe(run, v):
    """A sentence about the first failing monitor, from the raw observations."""
    out = []
    for mon, line in sorted(v["bad"].items(), key=lambda kv: kv[1]):
        ln = run["trace"]["lines"][line - 1]
        raw = run["raw"][line - 1]
        ev = ln["ev"]
        rp = run["trace"]["rp"]
        if mon == "Same":
            for wo, rw in zip(ln["obs"]["workers"], raw["workers"]):
                for n in REFS[wo["w"]]:
                    if USE[wo["w"]] and not rp[n] and wo["at"][n] != "boot":
                        a = rw["argfds"].get(n, {})
                        out.append("C07_Same after %s: worker %s#%d (pid %d) was given descriptor %s for "
                                   "$(circus.sockets.%s) and finds there %s; the daemon bound inode %s at startup" % (
                                       ev, wo["w"], wo["ord"], rw["pid"], a.get("fd"), n,
                                       rw["fds"].get(str(a.get("fd")), "nothing (closed)"),
                                       (raw["boot"].get(n) or {}).get("inode")))
                        break
                if out:
                    break
        elif mon == "Stable":
            for n in SOCKS:
                so = ln["obs"]["socks"][n]
                if not rp[n] and not (so["same"] and so["inl"] and so["probe"]):
                    b = raw["boot"].get(n) or {}
                    out.append("C07_Stable after %s: socket %s bound at startup as descriptor %s inode %s: the daemon "
                               "now has %s there, inode listening: %s, connect(): %s" % (
                                   ev, n, b.get("fd"), b.get("inode"), raw["daemon_fds"].get(str(b.get("fd"))),
                                   so["inl"], raw["probes"].get(n)))
        elif mon == "NoLeak":
            for wo, rw in zip(ln["obs"]["workers"], raw["workers"]):
                if not USE[wo["w"]] and wo["extra"]:
                    out.append("C07_NoLeak after %s: worker %s#%d (pid %d) of a watcher without use_sockets holds %s, "
                               "descriptors of the daemon" % (
                                   ev, wo["w"], wo["ord"], rw["pid"],
                                   dict((k, t) for k, t in rw["fds"].items() if int(k) > 2)))
                    break
    return "; ".join(out[:3]) or "monitors %s FALSE" % sorted(v["bad"])


# ------------------------------------------------------------------------------------------------
def run(prop, tier, seed):
    t = checklib.Timer()
    verdict = checklib.Verdict(prop)
    quick = tier == "quick"
    n_hist = 12 if quick else 960
    par = 12 if quick else 16
    cov = {}
    with tlcrun.Scratch() as scratch:
        try:
            cov = _run(verdict, quick, seed, scratch, n_hist, par)
        except Exception:       # noqa
            import traceback
            verdict.machinery.append("check_c07: " + traceback.format_exc()[-1500:])
    ev = {"tier": tier, "seed": seed, "level": "model_checking", "coverage": cov, "wall_s": t.wall(),
          "assumptions": [
              "what a worker holds is what it saw in its own /proc/self/fd when it started (harness/live/worker.py)",
              "the managed sockets among the daemon's descriptors are identified through /proc/net/tcp and "
              "/proc/net/unix (listening, address), not through anything circus says",
              "a step ends at a quiescent point: no zombie child, every child has reported, live workers per "
              "watcher = numprocesses as the daemon reports it, twice in a row",
              "the order of workers spawned in one batch is the order of their $(circus.wid)",
              "so_reuseport sockets are observed for conformance only (excepted by the statement)",
              "descriptor 0 of a stdin_socket worker being the managed socket counts as stdio; that it IS the socket "
              "bound at startup is compared with the model (divergence), C07_NoLeak judges descriptors above 2",
              "TLC, the CommunityModules Json module; Linux /proc"]}
    return verdict.finish(ev)


def _run(verdict, quick, seed, scratch, n_hist, par):
    rng = random.Random(seed * 2654435761 % (2 ** 31) + 11)
    pool = ThreadPoolExecutor(max_workers=8)
    # quick: every history of <= 4 events model-checked, live histories of 4 events;
    # thorough: <= 5 events model-checked (680 000 states), live histories of 6 events
    mc_events, live_events = (MAX_EVENTS, MAX_EVENTS) if quick else (MAX_EVENTS + 1, MAX_EVENTS + 2)
    jobs = tlc_jobs(scratch, mc_events)
    futs = [pool.submit(run_tlc_job, j, scratch) for j in jobs]
    hs, simst = simulate_histories(scratch, seed, max(3 * n_hist, 36), live_events)
    cov = {"simulation": simst, "histories_offered_by_tlc": len(hs), "mc_max_events": mc_events,
           "live_history_length": live_events}
    if len(hs) < min(n_hist, 8):
        verdict.machinery.append("tlc -simulate printed %d histories: %s" % (len(hs), simst.get("tail")))
    chosen = choose(hs, n_hist, rng)
    # ---- live runs
    tl = checklib.Timer()
    ljobs = [(os.path.join(scratch, "h%03d" % i), h, concretize(h, i, seed)) for i, h in enumerate(chosen)]
    with ThreadPoolExecutor(max_workers=max(1, min(par, len(ljobs) or 1))) as ex:
        runs = list(ex.map(live_history, ljobs))
    # a run the machinery could not complete is repeated once, alone
    reruns_machinery = 0
    for i, r in enumerate(runs):
        if not r["ok"] and reruns_machinery < MAX_RERUNS:
            reruns_machinery += 1
            first = r["problems"]
            d, h, c = ljobs[i]
            r2 = live_history((d + "r", h, dict(c, inet_port=livelib.free_port() if c["inet_port"] else 0)))
            r2["first_attempt_problems"] = first
            runs[i] = r2
    live_wall = tl.wall()
    good = [r for r in runs if r["ok"]]
    for r in runs:
        if not r["ok"]:
            verdict.machinery.append("live run of %s could not be completed (repeated alone): %s" % (
                r["history"]["events"], r["problems"][:2]))
    # ---- TLC on what was observed
    vs, vst = validate([r["trace"] for r in good], scratch, "a")
    if vst.get("error"):
        verdict.machinery.append("SocketsTrace: " + vst["error"][-1200:])
    flagged = [i for i, v in enumerate(vs) if v is not None and (v["bad"] or v["div"])]
    confirmed, unreproduced, divergences = [], [], []
    not_rerun = max(0, len(flagged) - MAX_RERUNS)
    flagged = flagged[:MAX_RERUNS]
    if flagged:
        again = []
        for i in flagged:
            r = good[i]
            c = r["concretization"]
            again.append(live_history((r["dir"] + "x", r["history"],
                                       dict(c, inet_port=livelib.free_port() if c["inet_port"] else 0))))
        ok2 = [r for r in again if r["ok"]]
        vs2, vst2 = validate([r["trace"] for r in ok2], scratch, "b")
        if vst2.get("error"):
            verdict.machinery.append("SocketsTrace (re-runs): " + vst2["error"][-1200:])
        vst["states"] += vst2["states"]
        vst["generated"] += vst2["generated"]
        k = 0
        for i, r2 in zip(flagged, again):
            v1 = vs[i]
            v2 = None
            if r2["ok"]:
                v2 = vs2[k]
                k += 1
            if v2 is None:
                verdict.machinery.append("re-run of flagged history %s failed: %s" % (
                    good[i]["history"]["events"], r2["problems"][:2]))
                continue
            common = sorted(set(v1["bad"]) & set(v2["bad"]))
            if common:
                confirmed.append((good[i], v1, r2, v2, common))
            elif v1["bad"]:
                unreproduced.append({"history": good[i]["history"], "monitors": v1["bad"],
                                     "what": describe(good[i], v1)})
            if not common and v1["div"] and v2["div"]:
                divergences.append((good[i], v1, v2))
    for r1, v1, r2, v2, common in confirmed[:checklib_max()]:
        what = describe(r2, v2)
        verdict.violation(what, {"kind": "c07-live", "history": r1["history"], "concretization": r1["concretization"],
                                 "monitors_false": v2["bad"], "first_divergent_line": v2["div"],
                                 "observed": r2["trace"], "raw": r2["raw"], "model_expected_at_divergence": v2["expected"],
                                 "first_run_monitors_false": v1["bad"], "repo": livelib.REPO,
                                 "how": "python -B harness/check_c07.py --replay <this file>"})
    for u in unreproduced[:5]:
        print("UNREPRODUCED (does not count): %s" % u["what"])
    for r1, v1, v2 in divergences[:5]:
        ln = r1["trace"]["lines"][v1["div"] - 1]
        print("DIVERGENCE (no property verdict): after %s of %s (so_reuseport %s) observed %s; model %s" % (
            ln["ev"], r1["history"]["events"], r1["history"]["rp"]["inet"], json.dumps(ln["obs"])[:700],
            json.dumps(v1["expected"])[:700]))
    # ---- the model-checking half
    mc = [f.result() for f in futs]
    pool.shutdown()
    states = sum(m["distinct"] for m in mc if m["kind"] == "mc")
    trans = sum(m["generated"] for m in mc if m["kind"] == "mc")
    for m in mc:
        if not m["ok"]:
            verdict.machinery.append("TLC %s: %s" % (m["label"], m["why"][-1200:]))
    samples = []
    for r in good[:3] + [x for x in good if "wi" in x["history"]["watchers"]][:1]:
        samples.append({"so_reuseport_inet": r["history"]["rp"]["inet"], "events": r["history"]["events"],
                        "watchers": r["history"]["watchers"], "stdin_socket_of_wi": r["history"]["si"],
                        "concretization": r["concretization"], "generations_ws": r["generations_ws"],
                        "observed_last": r["trace"]["lines"][-1]["obs"] if r["trace"]["lines"] else None,
                        "raw_last_worker": (r["raw"][-1]["workers"] or [None])[-1] if r["raw"] else None,
                        "shutdown": r.get("shutdown"), "wall_s": r["wall_s"]})
    lines = sum(len(r["trace"]["lines"]) for r in good)
    kinds = {}
    for r in good:
        for e in r["history"]["events"]:
            kinds[e[0] + ":" + e[1]] = kinds.get(e[0] + ":" + e[1], 0) + 1
    sd = [r.get("shutdown") or {} for r in good]
    cov.update({
        "states": states, "transitions": trans,
        "exhaustive": bool(mc) and all(m["ok"] for m in mc if m["kind"] == "mc"),
        "tlc_runs": [dict((k, m[k]) for k in ("label", "kind", "distinct", "generated", "depth", "wall_s", "ok"))
                     for m in mc],
        "vacuity_guards": dict((m["label"], m["ok"]) for m in mc if m["kind"] != "mc"),
        "traces_validated_against_impl": len([v for v in vs if v is not None]),
        "live_histories_run": len(runs), "live_histories_completed": len(good),
        "live_histories_so_reuseport": len([r for r in good if r["history"]["rp"]["inet"]]),
        "live_histories_stdin_socket": len([r for r in good if "wi" in r["history"]["watchers"]]),
        "stdin_socket_worker_generations_max": max([r.get("generations_wi", 0) for r in good] or [0]),
        "observed_states_checked": lines,
        "worker_generations_ws_min_max": [min([r["generations_ws"] for r in good] or [0]),
                                          max([r["generations_ws"] for r in good] or [0])],
        "histories_with_3_or_more_ws_generations": len([r for r in good if r["generations_ws"] >= 3 + NP0["ws"] - 1]),
        "events_driven": kinds,
        "trace_validation": dict((k, vst.get(k)) for k in ("states", "generated", "wall_s")),
        "flagged_first_pass": len(flagged) + not_rerun, "flagged_not_rerun": not_rerun,
        "violations_confirmed_by_rerun": len(confirmed),
        "unreproduced": unreproduced[:10], "divergent_traces": len(divergences),
        "reruns_after_machinery_trouble": reruns_machinery,
        "conflicts_retried": sum(r.get("conflicts_retried", 0) for r in runs),
        "final_sigterm": {"exit_0": len([s for s in sd if s.get("exit") == 0]),
                          "needed_second_sigterm": len([s for s in sd if s.get("sigterms", 0) > 1]),
                          "workers_left": len([s for s in sd if s.get("workers_left")])},
        "live_wall_s": live_wall, "live_scale": livelib.SCALE, "circus": livelib.REPO,
        "samples": samples,
        "checker_cmd": "java -cp tla2tools.jar:CommunityModules-deps.jar tlc2.TLC -config Sockets_MC.cfg Sockets.tla; "
                       "... -simulate num=N -depth 5 -seed S (Sockets_sim.cfg); ... SocketsTrace.tla"})
    return cov


def checklib_max():
    return 10


MAX_RERUNS = 6      # flagged runs repeated alone, one after the other; the rest is reported as not re-run


def replay_case(rep):
    """Re-run one recorded violation: same history, same concretization.  -> 1 if a monitor is FALSE again."""
    with tlcrun.Scratch() as scratch:
        c = dict(rep["concretization"])
        if c.get("inet_port"):
            c["inet_port"] = livelib.free_port()
        r = live_history((os.path.join(scratch, "replay"), rep["history"], c))
        if not r["ok"]:
            print("MACHINERY-FAILURE: the live run could not be completed: %s" % r["problems"][:2])
            return 2
        vs, st = validate([r["trace"]], scratch, "r")
        if not vs or vs[0] is None:
            print("MACHINERY-FAILURE: SocketsTrace gave no verdict: %s" % st.get("error", "")[-800:])
            return 2
        print("replayed %s (so_reuseport %s, watchers %s, stdin_socket %s): monitors FALSE %s, first divergent "
              "line %d" % (rep["history"]["events"], rep["history"]["rp"]["inet"], rep["history"]["watchers"],
                           rep["history"]["si"], vs[0]["bad"], vs[0]["div"]))
        if vs[0]["bad"]:
            print("   " + describe(r, vs[0]))
            return 1
        return 0


if __name__ == "__main__":
    if len(sys.argv) > 2 and sys.argv[1] == "--replay":
        with open(sys.argv[2]) as _fh:
            sys.exit(replay_case(json.load(_fh)))
    _tier, _seed = checklib.tier_seed()
    sys.exit(run(sys.argv[1] if len(sys.argv) > 1 else "C07", _tier, _seed))

"""C06 -- spec/Protocol.tla bound to the real circus Controller (sim binding) and to the real client library.

  "For every message received on the control endpoint -- arbitrary bytes, any JSON value, any command name and
   any property types -- the daemon sends exactly one JSON reply carrying the request's id and status ok or
   error (none for cast messages), also when the requested operation fails part-way, and it remains able to
   serve the next request.  The client library returns from a call only the reply that bears that call's id,
   discarding stale or foreign replies, and reports a timeout otherwise."

Daemon half (shape O+M).  TLC explores the controller pipeline of Protocol.tla from one state per MESSAGE
CLASS (exhaustive product) and writes every class with `dem` (what the statement demands) and `cod` (what
the code as it is answers, Dev_ branches TRUE) and `kf` (the findings whose signature the class carries).
This harness

  * renders classes into concrete byte strings (several spellings, seeded) and also generates random bytes,
    random JSON and corrupted messages;
  * classifies EVERY message with a total function `classify` (syntactic part, from the bytes alone) plus
    what the operation behind the command was OBSERVED to do at the boundary Controller -> Command
    (validate raised / execute raised / returned a value / returned a future that succeeded or failed);
  * sends it to the real Controller of a simulated daemon (idle / an exclusive operation in flight / the
    addressed watcher stopped), lets virtual time pass until quiescence, collects the reply frames of that
    client id, sends a probe `list` and compares:

      replies satisfy dem                                   -> fine (replies != cod is a DIVERGENCE note)
      replies violate dem, equal cod, class carries kf      -> verdict.attributed(<finding>, ...)
      anything else that violates dem                       -> verdict.violation(...)

Client half.  TLC enumerates every delivery sequence of up to MaxFrames frames (own / stale / foreign / dup /
garbage x short / medium / long delay) with the demanded outcomes and the as-coded outcome of both clients;
every sequence is replayed on the REAL CircusClient.call (scripted socket + poller on a virtual clock) and
on the REAL AsyncCircusClient.call (scripted stream on the virtual-time loop).
"""
import collections
import json
import math
import os
import random
import sys
import threading
import uuid

ROOT = os.path.dirname(os.path.dirname(os.path.abspath(__file__)))
if ROOT not in sys.path:
    sys.path.insert(0, ROOT)

from harness import checklib, tlcrun  # noqa: E402

REPO = os.environ.get("VERIF_REPO", "/repo")

DEVS = ["Dev_EmptyNoReply", "Dev_NonObjectNoReply", "Dev_NoCommandNoReply", "Dev_WaitFailNoReply",
        "Dev_DeepNoReply", "Dev_StatusOverwrite", "Dev_NonfiniteEcho", "Dev_QuitWaitLost",
        "Dev_GarbageAborts", "Dev_AsyncNoTimeout"]

# which conjunct of the statement a finding can break (mirrors Explained() of Protocol.tla)
FINDING_BREAKS = {"D5": "count", "D5R": "count", "QUITW": "count", "NANID": "wf", "STATUS": "status"}


# =================================================================================================
# TLC
# =================================================================================================
# deviations repaired in /repo (53ccc73): these constants are FALSE also in the "as coded" runs
REPAIRED = {"Dev_EmptyNoReply", "Dev_NonObjectNoReply", "Dev_NoCommandNoReply", "Dev_WaitFailNoReply",
            "Dev_DeepNoReply"}


def cfg_text(part, dev, maxframes, invs):
    lines = ["CONSTANTS"]
    for d in DEVS:
        lines.append("  %s = %s" % (d, "TRUE" if dev and d not in REPAIRED else "FALSE"))
    lines += ["  MaxFrames = %d" % maxframes, '  Part = "%s"' % part, "INIT Init", "NEXT Next",
              "CHECK_DEADLOCK FALSE"]
    lines += ["INVARIANT " + i for i in invs]
    return "\n".join(lines) + "\n"


MODEL_RUNS = {
    # name: (part, Dev_ value, invariants, dump?)
    "daemon_ascoded": ("daemon", True, ["Inv_D_Explained", "Inv_D_AtMostOne", "Inv_D_Run"], True),
    "daemon_fixed": ("daemon", False, ["Inv_D_Statement", "Inv_D_AtMostOne", "Inv_D_Run"], False),
    "client_ascoded": ("client", True, ["Inv_C_Explained", "Inv_C_OnlyMine", "Inv_C_Run"], True),
    "client_fixed": ("client", False, ["Inv_C_Statement", "Inv_C_OnlyMine", "Inv_C_Run"], False),
}


def run_models(scratch, tier, verdict):
    maxframes = 3 if tier == "quick" else 4
    res = {}

    def one(name):
        part, dev, invs, dump = MODEL_RUNS[name]
        cfg = os.path.join(scratch, "Protocol_%s.cfg" % name)
        with open(cfg, "w") as fh:
            fh.write(cfg_text(part, dev, maxframes, invs))
        env = {}
        out = None
        if dump:
            out = os.path.join(scratch, "%s.json" % name)
            env["OUT_FILE"] = out
        try:
            # four small JVMs side by side: serial collector, few workers (most of the work is enumerating
            # the class product, which TLC does on one thread)
            r = tlcrun.run_tlc("Protocol.tla", cfg, scratch, workers=2 if tier == "quick" else 4, env=env,
                               timeout=900, heap="4g", gc=("-XX:+UseSerialGC", "-XX:-UsePerfData"))
        except Exception as e:          # timeout etc.
            r = {"rc": -1, "out": "exception %r" % (e,), "wall": 0.0}
        r["dump"] = out
        res[name] = r

    ths = [threading.Thread(target=one, args=(n,)) for n in MODEL_RUNS]
    for t in ths:
        t.start()
    for t in ths:
        t.join()
    stats = {"states": 0, "transitions": 0, "configs": []}
    data = {}
    for name in sorted(MODEL_RUNS):
        r = res[name]
        st = tlcrun.parse_stats(r["out"])
        done = "Model checking completed. No error has been found." in r["out"]
        stats["states"] += st["distinct"]
        stats["transitions"] += st["generated"]
        stats["configs"].append({"name": name, "distinct": st["distinct"], "generated": st["generated"],
                                 "depth": st["depth"], "complete": done, "wall_s": round(r["wall"], 1),
                                 "invariants": MODEL_RUNS[name][2]})
        if "is violated" in r["out"]:
            # the model of the code breaks the statement outside the listed signatures (or the repaired model
            # breaks it at all): a modelling error until reproduced on the code -> machinery, not a verdict
            verdict.machinery.append("Protocol.tla %s: invariant violated in the model: %s" % (
                name, r["out"][-1500:]))
        elif not done:
            verdict.machinery.append("TLC did not complete on Protocol.tla %s: %s" % (name, r["out"][-800:]))
        if r["dump"]:
            try:
                with open(r["dump"]) as fh:
                    data[name] = json.load(fh)
            except Exception as e:
                verdict.machinery.append("Protocol.tla %s wrote no readable case file: %r" % (name, e))
    stats["max_frames"] = maxframes
    return data, stats


# =================================================================================================
# rendering JSON with several spellings
# =================================================================================================
class Tok(str):
    """A raw JSON token written as is (NaN, Infinity, 1e999 ...)."""


WS_JSON = [" ", "\t", "\n", "\r"]
WS_STRIP = [b" ", b"\t", b"\n", b"\r", b"\x0b", b"\x0c"]        # what bytes.strip() removes


def _ws(rng):
    r = rng.random()
    if r < 0.7:
        return ""
    return "".join(rng.choice(WS_JSON) for _ in range(rng.randint(1, 3)))


def _str(s, rng):
    if rng.random() < 0.12 and s:
        # spell some characters as \uXXXX escapes
        out = ['"']
        for ch in s:
            if rng.random() < 0.4 and ord(ch) < 0x10000:
                out.append("\\u%04x" % ord(ch))
            else:
                out.append(json.dumps(ch)[1:-1])
        out.append('"')
        return "".join(out)
    return json.dumps(s, ensure_ascii=rng.random() < 0.6)


def render_value(v, rng):
    if isinstance(v, Tok):
        return str(v)
    if v is None:
        return "null"
    if v is True:
        return "true"
    if v is False:
        return "false"
    if isinstance(v, int):
        return str(v)
    if isinstance(v, float):
        return repr(v) if math.isfinite(v) else "null"
    if isinstance(v, str):
        return _str(v, rng)
    if isinstance(v, (list, tuple)) and not isinstance(v, Pairs):
        return "[" + _ws(rng) + ("," + _ws(rng)).join(render_value(x, rng) for x in v) + _ws(rng) + "]"
    if isinstance(v, dict):
        v = Pairs(v.items())
    if isinstance(v, Pairs):
        return "{" + _ws(rng) + ("," + _ws(rng)).join(
            _str(str(k), rng) + _ws(rng) + ":" + _ws(rng) + render_value(x, rng) for k, x in v) + _ws(rng) + "}"
    raise TypeError("cannot render %r" % (v,))


class Pairs(list):
    """A JSON object as an ordered list of (key, value): order, duplicates under the generator's control."""


def render_message(pairs, rng):
    pairs = list(pairs)
    rng.shuffle(pairs)
    body = render_value(Pairs(pairs), rng).encode("utf8")
    pre = b"".join(rng.choice(WS_STRIP) for _ in range(rng.choice([0, 0, 0, 1, 2])))
    post = b"".join(rng.choice(WS_STRIP) for _ in range(rng.choice([0, 0, 0, 1, 2])))
    return pre + body + post


# =================================================================================================
# the total class-of function (syntactic part)
# =================================================================================================
REQUIRED = {"add": ["name", "cmd"], "decr": ["name"], "get": ["name", "keys"], "incr": ["name"], "kill": ["name"],
            "options": ["name"], "rm": ["name"], "set": ["name", "options"], "signal": ["name", "signum"],
            "c06r": ["do", "arg"]}


def _is_int(v):
    return isinstance(v, int) and not isinstance(v, bool)


def _is_num(v):
    return isinstance(v, (int, float)) and not isinstance(v, bool)


PROP_TYPES = {
    "name": lambda v: isinstance(v, str), "nb": _is_int, "waiting": lambda v: isinstance(v, bool),
    "match": lambda v: isinstance(v, str), "pid": _is_int, "signum": lambda v: _is_int(v) or isinstance(v, str),
    "graceful_timeout": _is_num, "children": lambda v: isinstance(v, bool),
    "recursive": lambda v: isinstance(v, bool), "childpid": _is_int, "keys": lambda v: isinstance(v, list),
    "options": lambda v: isinstance(v, dict), "cmd": lambda v: isinstance(v, str),
    "args": lambda v: isinstance(v, (list, str)), "start": lambda v: isinstance(v, bool),
    "nostop": lambda v: isinstance(v, bool), "graceful": lambda v: isinstance(v, bool),
    "sequential": lambda v: isinstance(v, bool), "process": _is_int, "extended": lambda v: isinstance(v, bool),
    "option": lambda v: isinstance(v, str), "do": lambda v: isinstance(v, str), "arg": _is_int,
}


def has_nonfinite(v):
    if isinstance(v, float):
        return not math.isfinite(v)
    if isinstance(v, list):
        return any(has_nonfinite(x) for x in v)
    if isinstance(v, dict):
        return any(has_nonfinite(x) for x in v.values())
    return False


def canon(v):
    """Typed canonical form of a JSON value (1, 1.0 and true are three different values)."""
    return json.dumps(v, sort_keys=True, allow_nan=True)


def classify(raw, table):
    """bytes -> class record (the fields of Protocol.tla's class except `op`) + the parsed pieces.
    Total: every byte string gets a class."""
    c = {"frame": None, "id": "na", "cmd": "na", "mt": "na", "props": "na", "kind": "na", "req": "na"}
    info = {"cast": False, "idval": None, "name": None, "pv": None, "waiting": "na"}
    body = raw.strip(b" \t\n\r\x0b\x0c")
    if not body:
        c["frame"] = "empty"
        return c, info
    try:
        val = json.loads(body.decode("utf8"))
    except RecursionError:
        c["frame"] = "deep"
        return c, info
    except ValueError:                     # UnicodeDecodeError and JSONDecodeError are ValueErrors
        c["frame"] = "badjson"
        return c, info
    if not isinstance(val, dict):
        c["frame"] = ("null" if val is None else "bool" if isinstance(val, bool) else
                      "number" if isinstance(val, (int, float)) else "string" if isinstance(val, str) else "array")
        return c, info
    c["frame"] = "object"
    # id
    if "id" not in val:
        c["id"] = "absent"
    else:
        i = val["id"]
        info["idval"] = i
        c["id"] = ("nonfinite" if has_nonfinite(i) else "null" if i is None else
                   "bool" if isinstance(i, bool) else "string" if isinstance(i, str) else
                   "number" if isinstance(i, (int, float)) else "array" if isinstance(i, list) else "object")
    # msg_type
    c["mt"] = "absent" if "msg_type" not in val else ("cast" if val["msg_type"] == "cast" else "other")
    info["cast"] = c["mt"] == "cast"
    # command
    known = False
    if "command" not in val:
        c["cmd"] = "absent"
    else:
        n = val["command"]
        if n is None:
            c["cmd"] = "null"
        elif not isinstance(n, str):
            c["cmd"] = "nonstring"
        elif n.lower() in table:
            known = True
            info["name"] = n.lower()
            c["cmd"] = "known" if n in table else "knowncase"
            c["kind"] = table[n.lower()]["kind"]
            c["req"] = table[n.lower()]["req"]
        else:
            c["cmd"] = "unknown"
    # properties
    if "properties" not in val:
        c["props"] = "absent"
        info["waiting"] = "no"
    else:
        p = val["properties"]
        info["pv"] = p
        if not isinstance(p, dict):
            c["props"] = "nonobject"
            info["waiting"] = "unreadable"
        else:
            info["waiting"] = "yes" if p.get("waiting", False) else "no"
            if not known:
                c["props"] = "object"
            elif any(r not in p for r in REQUIRED.get(info["name"], [])):
                c["props"] = "missing"
            elif any(k in PROP_TYPES and not PROP_TYPES[k](v) for k, v in p.items()):
                c["props"] = "illtyped"
            else:
                c["props"] = "valid"
    return c, info


def class_key(c, op):
    return (c["frame"], c["id"], c["cmd"], c["mt"], c["props"], c["kind"], c["req"], op[0], op[1], op[2])


def group_key(c, op):
    cmd = "known" if c["cmd"] in ("known", "knowncase") else c["cmd"]
    return (c["frame"], cmd, c["mt"], c["props"], op[0], op[1], op[2])


# =================================================================================================
# the daemon world: a Sim, two scripted plug-in commands, observation at the Command boundary
# =================================================================================================
NOOP = ("na", "na", "na")


def _imports():
    global Sim, circus_exc, TransformableFuture, Future, BaseCommand
    from harness.simdaemon import Sim            # inserts VERIF_REPO into sys.path
    import circus.exc as circus_exc
    from circus.util import TransformableFuture
    from tornado.concurrent import Future
    from circus.commands.base import Command as BaseCommand


def exc_class(e):
    if isinstance(e, circus_exc.MessageError):
        return "message"
    if isinstance(e, circus_exc.ConflictError):
        return "conflict"
    if isinstance(e, OSError):
        return "os"
    return "other"


def shape(v):
    if v is None:
        return "none"
    if isinstance(v, dict):
        return "dict_status" if "status" in v else "dict"
    if isinstance(v, list):
        return "list"
    return "other"


class Stub(object):
    """A scripted plug-in command registered in Controller.commands: the operation does what `script` says.
    validate() is the real Command.validate (required properties) followed by the scripted refusal."""
    options = []
    waiting = False

    def __init__(self, name, properties, world):
        self.name = name
        self.properties = properties
        self.world = world
        self.script = None

    def validate(self, props):
        BaseCommand.validate(self, props)
        s = self.script
        if s and s["ph"] == "validate":
            raise s["exc"]

    def execute(self, arbiter, props):
        s = self.script or {"ph": "sync", "val": None}
        if s["ph"] == "execute":
            raise s["exc"]
        if s["ph"] == "sync":
            return s["val"]
        loop = self.world.sim.io
        fut = Future()

        def finish():
            if fut.done():
                return
            if s.get("fail") is not None:
                fut.set_exception(s["fail"])
            else:
                fut.set_result(s.get("val"))
        if s.get("delay"):
            loop.call_later(s["delay"], finish)
        else:
            finish()
        if s["ph"] == "tfuture":
            t = TransformableFuture()
            t.set_upstream_future(fut)
            t.set_transform_function(lambda x: {"info": x})
            return t
        return fut


HOOKS = {"before_start": ("true", False), "after_start": ("true", False), "before_spawn": ("true", False),
         "after_spawn": ("true", False), "before_stop": ("true", False), "after_stop": ("true", False)}

WATCHERS = [
    {"name": "w1", "np": 1, "G": 0.2},
    {"name": "w2", "np": 2, "G": 0.1, "hooks": HOOKS},
    {"name": "wstop", "np": 1, "G": 0.1, "autostart": False},
    {"name": "wslow", "np": 1, "G": 1.5},
    {"name": "wsing", "np": 1, "G": 0.1, "singleton": True},
]
NAMES = ["w1", "w2", "wstop", "wsing"]


class World(object):
    """One simulated daemon life + the instrumentation."""

    def __init__(self, table):
        self.table = table
        self.sim = Sim([dict(w) for w in WATCHERS], check_delay=1.0, record_state=False)
        self.sim.kernel.obeys_policy = lambda args: not (isinstance(args, (list, tuple)) and len(args) >= 2
                                                         and args[1] == "wslow")
        self.rec = None
        self.sent = 0
        self.stubs = {}
        self.mismatch = []
        self.sim.boot()
        self.sim.drain()
        self.settle()
        cmds = self.sim.arb.ctrl.commands
        real = {n: ("t" if c.properties else "f") for n, c in cmds.items()}
        spec = {n: v["req"] for n, v in table.items() if v["kind"] != "stub"}
        if real != spec:
            self.mismatch.append("registered commands %r differ from Protocol.tla's table %r" % (
                sorted(set(real.items()) ^ set(spec.items())), "symmetric difference"))
        for n, c in cmds.items():
            if sorted(c.properties or []) != sorted(REQUIRED.get(n, [])):
                self.mismatch.append("required properties of %s are %r" % (n, c.properties))
        for n, req in (("c06x", []), ("c06r", ["do", "arg"])):
            self.stubs[n] = cmds[n] = Stub(n, req, self)
        for n, c in cmds.items():
            self._wrap(n, c)

    def _wrap(self, name, cmd):
        ov, oe = cmd.validate, cmd.execute
        world = self

        def validate(props):
            r = world.rec
            if r is not None:
                r["cmd"] = name
                r["calls"].append("validate")
            try:
                return ov(props)
            except BaseException as e:
                if r is not None:
                    r["val_exc"] = e
                raise

        def execute(arbiter, props):
            r = world.rec
            if r is not None:
                r["calls"].append("execute")
            try:
                v = oe(arbiter, props)
            except BaseException as e:
                if r is not None:
                    r["exec_exc"] = e
                raise
            if r is not None:
                r["returned"] = True
                r["ret"] = v
            return v
        cmd.validate = validate
        cmd.execute = execute

    def settle(self, budget=60.0):
        sim = self.sim
        end = sim.loop.vnow + budget
        sim.drain()
        while not sim.exited and not sim.quiescent() and sim.loop.vnow < end:
            if not sim.tick():
                break
            sim.drain()
        return sim.exited or sim.quiescent()

    def usable(self):
        if self.sim.exited or self.sent > 60:
            return False
        names = self.sim.arb._watchers_names
        return all(n in names for n in ("w1", "w2", "wstop", "wslow", "wsing")) and len(names) <= 9

    def hold_slot(self):
        """Put an exclusive operation in flight: stop of a worker that ignores the stop signal (G = 1.5 s)."""
        self.rec = None
        self.sim.request("stop", {"name": "wslow"})
        self.sim.drain()
        return bool(self.sim.arb._exclusive_running_command)

    def restore_slow(self):
        self.rec = None
        self.sim.request("start", {"name": "wslow"})
        self.settle()

    def send(self, raw, setup=None):
        """Deliver raw to Controller.handle_message; returns the observation."""
        sim = self.sim
        self.sent += 1
        for st in self.stubs.values():
            st.script = None
        undo = []
        if setup:
            if setup.get("stub"):
                for st in self.stubs.values():
                    st.script = setup["stub"]
            for f in setup.get("spawn_faults", []):
                sim.kernel.spawn_faults.append(f)
            for (w, h), o in setup.get("hooks", {}).items():
                undo.append(((w, h), sim.hook_outcomes.get((w, h))))
                sim.hook_outcomes[(w, h)] = o
        nexc = len(sim.exceptions)
        stopping0 = bool(sim.arb._stopping)
        rec = self.rec = {"cmd": None, "calls": [], "val_exc": None, "exec_exc": None, "returned": False,
                          "ret": None}
        try:
            cid = sim.request(None, raw=raw)
        finally:
            self.rec = None
        # did this request start the end of the daemon's life (quit; restart without a name = daemon restart)?
        rec["ending"] = bool(sim.arb._stopping) and not stopping0
        quiet = self.settle()
        del sim.kernel.spawn_faults[:]
        for k, o in undo:
            if o is None:
                sim.hook_outcomes.pop(k, None)
            else:
                sim.hook_outcomes[k] = o
        frames = [(obj, data) for (c, obj, data) in sim.reply_log if c == cid]
        return {"cid": cid, "rec": rec, "frames": frames, "quiet": quiet,
                "escaped": list(sim.exceptions[nexc:]), "exited": sim.exited}

    def probe(self):
        """C06_Serve: the daemon answers a `list` after whatever came before."""
        sim = self.sim
        if sim.exited:
            return None
        self.rec = None
        mid = "probe-%d" % sim.req_seq
        cid = sim.request("list", {}, mid=mid)
        sim.drain()
        fr = [obj for (c, obj, data) in sim.reply_log if c == cid]
        return (len(fr) == 1 and isinstance(fr[0], dict) and fr[0].get("status") == "ok"
                and fr[0].get("id") == mid and isinstance(fr[0].get("watchers"), list))

    def close(self):
        try:
            self.sim.close()
        except Exception:
            pass


def observed_op(rec, waiting):
    """What the operation did, from the instrumentation.  None = cannot tell (reported, never judged)."""
    calls = rec["calls"]
    if not calls:
        return NOOP
    if calls not in (["validate"], ["validate", "execute"]):
        return None                                # e.g. execute without validate: not a class of the model
    if rec["val_exc"] is not None:
        return ("validate", exc_class(rec["val_exc"]), "na")
    if calls == ["validate"]:
        return None
    if rec["exec_exc"] is not None:
        return ("execute", exc_class(rec["exec_exc"]), "na")
    r = rec["ret"]
    if isinstance(r, TransformableFuture):
        up = r._upstream_future
        if up is None or not up.done():
            return None
        if up.cancelled() or up.exception() is not None:
            return ("tfuture", "fail", waiting)
        try:
            return ("tfuture", shape(r.result()), waiting)
        except Exception:
            return None
    if isinstance(r, Future):
        if not r.done():
            return None
        if r.cancelled() or r.exception() is not None:
            return ("future", "fail", waiting)
        return ("future", shape(r.result()), waiting)
    return ("sync", shape(r), "na")


def strict_json_object(data):
    """Is the frame one well-formed JSON object (RFC 8259: no NaN / Infinity)?"""
    def refuse(tok):
        raise ValueError("non-JSON constant " + tok)
    try:
        if isinstance(data, bytes):
            data = data.decode("utf8")
        v = json.loads(data, parse_constant=refuse)
    except (ValueError, RecursionError):
        return False
    return isinstance(v, dict)


def observe_replies(frames, want_id):
    out = []
    for obj, data in frames:
        wf = strict_json_object(data)
        if isinstance(obj, dict):
            st = obj.get("status")
            st = st if st in ("ok", "error") else "other"
            errno = obj.get("errno", 0) if st == "error" else 0
            idok = "id" in obj and canon(obj["id"]) == canon(want_id)
            idnull = "id" in obj and obj["id"] is None
        else:
            st, errno, idok, idnull = "malformed", 0, False, False
        out.append({"wf": wf, "st": st, "errno": errno, "idok": idok, "idnull": idnull})
    return out


# =================================================================================================
# generators
# =================================================================================================
def rand_json(rng, depth=0):
    r = rng.random()
    if depth > 3 or r < 0.45:
        return rng.choice([None, True, False, 0, 1, -1, 7, 2 ** 40, 1.5, -0.25, 1e20, "", "a", "name", "w1",
                           "list", "cast", "waiting", "é中", "x" * 40, "\n\t\"\\"])
    if r < 0.7:
        return [rand_json(rng, depth + 1) for _ in range(rng.randint(0, 4))]
    keys = ["id", "command", "properties", "msg_type", "name", "waiting", "nb", "options", "keys", "a", "",
            "status", "pid", "signum"]
    return {rng.choice(keys): rand_json(rng, depth + 1) for _ in range(rng.randint(0, 4))}


def gen_id(rng, kind):
    if kind == "null":
        return None
    if kind == "string":
        return rng.choice([uuid.UUID(int=rng.getrandbits(128)).hex, "", "a", "m1", "über-中文",
                           "x" * 300, "null", "0", " id ", "\u0000", "😀"])
    if kind == "number":
        return rng.choice([0, 1, -1, 42, 2 ** 31, 2 ** 63, -2 ** 70, 10 ** 30, 1.5, -0.0, 1e10, 2.5e-8, 1e300])
    if kind == "bool":
        return rng.choice([True, False])
    if kind == "array":
        return rng.choice([[], [1], ["a", None], [[1, 2], {"k": "v"}], [True, 1.5, "x"]])
    if kind == "object":
        return rng.choice([{}, {"a": 1}, {"id": "inner"}, {"k": [1, {"z": None}]}, {"": ""}])
    if kind == "nonfinite":
        return rng.choice([Tok("NaN"), Tok("Infinity"), Tok("-Infinity"), Tok("1e999"), Tok("-1E400"),
                           [Tok("NaN")], {"x": Tok("1e999")}, [1, [Tok("Infinity")]]])
    raise ValueError(kind)


ID_KINDS = ["absent", "null", "string", "number", "bool", "array", "object", "nonfinite"]
MT_KINDS = ["absent", "cast", "other"]
NONOBJECT = [None, 0, 5, -1.5, True, False, "", "name", "waiting", [], ["name"], [["name", "w1"]], ["waiting"],
             "do"]
WRONG = [None, 5, -1, 1.5, True, False, "", "x", [], [1], {}, {"a": 1}, "w1", 0]


def gen_mt(rng, kind):
    if kind == "cast":
        return "cast"
    return rng.choice(["dealer", "CAST", "cast ", " cast", "Cast", "", None, 1, True, ["cast"], {"cast": 1},
                       "sub"])


def case_variant(rng, name):
    for _ in range(20):
        s = "".join(ch.upper() if rng.random() < 0.5 else ch for ch in name)
        if s != name:
            return s
    return name.upper()


def base_pairs(rng, idk, mtk):
    pairs = []
    if idk != "absent":
        pairs.append(("id", gen_id(rng, idk)))
        if rng.random() < 0.05:
            pairs.insert(0, ("id", "shadowed"))       # duplicate key: the last one counts
    if mtk != "absent":
        pairs.append(("msg_type", gen_mt(rng, mtk)))
    if rng.random() < 0.1:
        pairs.append((rng.choice(["extra", "time", "status", "reason", "Command", "ID"]), rand_json(rng, 2)))
    return pairs


def gen_frame_level(rng, frame):
    """Messages that are not JSON objects."""
    if frame == "empty":
        return b"".join(rng.choice(WS_STRIP) for _ in range(rng.choice([0, 0, 1, 2, 5, 40])))
    if frame == "deep":
        n = rng.choice([20000, 100000, 150000])
        opener = rng.choice([b"[", b'{"a":', b'[{"id":'])
        return opener * n if rng.random() < 0.5 else opener * n + b"1"
    if frame == "badjson":
        r = rng.random()
        if r < 0.25:
            return bytes(rng.getrandbits(8) for _ in range(rng.randint(1, 60))) + b"x"
        if r < 0.5:
            good = render_message([("id", "a"), ("command", "list"), ("properties", Pairs())], rng).strip()
            cut = rng.randint(1, len(good) - 1)
            return rng.choice([good[:cut], good + b" trailing", good + good, good.replace(b'"', b"'"),
                               b"\xef\xbb\xbf" + good, good[:-1] + b",}", good.replace(b":", b"=", 1)])
        return rng.choice([b"garbage", b"{", b"}", b"[1,", b"nul", b"tru", b"01", b"+1", b".5", b"'a'",
                           b'"unterminated', b"\xff\xfe{\x00}\x00", b"\x00", b"\x80abc", b"{id:1}",
                           b'{"a":1,}', b"[1 2]", b"1 2", b"1" * 5000, b"\xc3", b"\xed\xa0\x80",
                           b"--1", b"0x10", b"1e", b'"\\x"', b"\\u0041", b"undefined", b"None", b"True",
                           b"list", b"GET / HTTP/1.1\r\n\r\n", b"\x16\x03\x01\x02\x00\x01"])
    if frame == "null":
        v = None
    elif frame == "bool":
        v = rng.choice([True, False])
    elif frame == "number":
        v = rng.choice([0, 1, -1, 5, 1.5, -2.5e3, 10 ** 25, Tok("NaN"), Tok("Infinity"), Tok("-Infinity"),
                        Tok("1e999"), Tok("1E+2"), Tok("-0")])
    elif frame == "string":
        v = rng.choice(["", "list", "str", '{"command":"list"}', "é", "quit", "x" * 100])
    else:
        v = rng.choice([[], [1, 2], ["list"], [{"command": "list", "id": "a"}], [[[]]], [None], ["id", "a"],
                        [Tok("NaN")]])
    body = render_value(v, rng).encode("utf8")
    pre = b"".join(rng.choice(WS_STRIP) for _ in range(rng.choice([0, 0, 1])))
    return pre + body + b"".join(rng.choice(WS_STRIP) for _ in range(rng.choice([0, 0, 1])))


def gen_nocommand(rng, cmdk, propsk, idk, mtk):
    pairs = base_pairs(rng, idk, mtk)
    if cmdk == "null":
        pairs.append(("command", None))
    elif cmdk == "nonstring":
        pairs.append(("command", rng.choice([5, 0, True, False, 1.5, ["list"], [], {}, {"name": "list"},
                                             Tok("NaN")])))
    elif cmdk == "unknown":
        pairs.append(("command", rng.choice(["", "nope", "lst", "list ", " list", "quit!", "li st", "\u0000",
                                             "éè", "x" * 200, "listx", "command", "help", "l",
                                             "list\n", "stаtus", "reloadconfig2", "c06"])))
    if propsk == "nonobject":
        pairs.append(("properties", rng.choice(NONOBJECT)))
    elif propsk == "object":
        pairs.append(("properties", rng.choice([{}, {"name": "w1"}, {"waiting": True}, {"a": [1, 2]},
                                                {"name": "w1", "nb": "x"}])))
    return render_message(pairs, rng)


# ---- scripted outcomes for the stub commands --------------------------------------------------------
def stub_script(rng, op):
    ph, x, w = op
    def exc(kind):
        if kind == "message":
            return circus_exc.MessageError(rng.choice(["scripted refusal", "", "bad é"]))
        if kind == "conflict":
            return circus_exc.ConflictError("arbiter is already running scripted command")
        if kind == "os":
            return rng.choice([OSError(2, "No such file or directory (scripted)"), PermissionError(13, "denied"),
                               FileNotFoundError("scripted"), ConnectionResetError("scripted"),
                               TimeoutError("scripted"), IOError("scripted io")])
        return rng.choice([ValueError("scripted"), KeyError("scripted"), RuntimeError("scripted"),
                           TypeError("scripted"), circus_exc.ArgumentError("scripted"), ZeroDivisionError(),
                           AttributeError("scripted"), circus_exc.AlreadyExist("scripted"),
                           circus_exc.CallError("scripted"), AssertionError(), SystemExit(3),
                           Exception("é unicode"), UnicodeDecodeError("utf8", b"\xff", 0, 1, "scripted"),
                           RecursionError("scripted"), MemoryError(), StopIteration()])

    def val(kind):
        if kind == "none":
            return None
        if kind == "dict":
            return rng.choice([{"numprocesses": 3}, {"info": {"a": [1, 2, {"b": None}]}}, {}, {"id": "fake"},
                               {"time": 0, "reason": "x", "errno": 9}, {"k": "é"}, {"pids": []},
                               {"Status": "x"}, {"results": 1}])
        if kind == "list":
            return rng.choice([[], [1, 2], ["a", {"b": 1}], [None], [[]]])
        return rng.choice(["a string", "", 5, 0, 1.5, True, False, (1, 2), b"bytes", 10 ** 20])
    if ph == "validate" or ph == "execute":
        return {"ph": ph, "exc": exc(x)}
    if ph == "sync":
        return {"ph": "sync", "val": val(x)}
    s = {"ph": ph, "delay": rng.choice([0, 0, 0.05, 0.3, 2.0])}
    if x == "fail":
        s["fail"] = exc(rng.choice(["message", "conflict", "os", "other"]))
        if isinstance(s["fail"], (SystemExit, StopIteration, RecursionError, MemoryError)):
            s["fail"] = RuntimeError("scripted asynchronous failure")
    else:
        s["val"] = val(x) if ph == "future" else rng.choice([1, None, {"a": 1}, "x", [1]])
    return s


def gen_stub(rng, cls):
    """cls: a TLC class of kind stub -> (raw, setup)."""
    name = "c06r" if cls["req"] == "t" else "c06x"
    if cls["cmd"] == "knowncase":
        name = case_variant(rng, name)
    pairs = base_pairs(rng, cls["id"], cls["mt"])
    pairs.append(("command", name))
    op = (cls["op"]["ph"], cls["op"]["x"], cls["op"]["w"])
    wait = None
    if op[2] == "yes":
        wait = rng.choice([True, True, 1, "yes", [0], {"a": 1}, 2.5])
    elif op[2] == "no" and rng.random() < 0.6:
        wait = rng.choice([False, 0, "", None, [], {}, 0.0])
    pk = cls["props"]
    if pk == "nonobject":
        pv = rng.choice(NONOBJECT)
        if cls["req"] == "t":
            # Command.validate on a non-object: `'do' in props` -- a TypeError or a MessageError; the class
            # wants what the scripted op says, which is only reachable when validate lets it through
            if op[0] != "validate" or op[1] in ("conflict", "os") or rng.random() < 0.7:
                pv = rng.choice(["do arg", ["do", "arg"], ["arg", "do", 1], "arg,do"])
        pairs.append(("properties", pv))
    elif pk != "absent":
        p = {}
        if cls["req"] == "t":
            p = {"do": "it", "arg": rng.randint(0, 9)}
        if pk == "missing":
            p.pop(rng.choice(["do", "arg"]))
            if rng.random() < 0.3:
                p = {}
        elif pk == "illtyped":
            k = rng.choice(["do", "arg", "name", "nb"])
            p[k] = rng.choice([v for v in WRONG if not PROP_TYPES[k](v)])
        elif rng.random() < 0.3:
            p["note"] = rand_json(rng, 2)
        if wait is not None:
            p["waiting"] = wait
            if pk == "valid" and not isinstance(wait, bool):
                p.pop("waiting")                  # a non-boolean `waiting` is ill-typed by the schema
                if op[2] == "yes":
                    p["waiting"] = True
        elif op[2] == "yes":
            p["waiting"] = True
        if pk == "illtyped" and op[2] == "yes":
            p["waiting"] = rng.choice([1, "yes", [0], True])
        pairs.append(("properties", p))
    return render_message(pairs, rng), {"stub": stub_script(rng, op)}


# ---- real commands -----------------------------------------------------------------------------------
SAFE_OPTIONS = [("numprocesses", [0, 1, 2, 3, -1]), ("warmup_delay", [0, 0.1]), ("graceful_timeout", [0.1, 0.3, 0]),
                ("max_retry", [0, 3, 5]), ("max_age", [0, 0, 30]), ("max_age_variance", [0, 5]),
                ("send_hup", [True, False]), ("stop_signal", [15, 2, 9, 10]), ("stop_children", [True, False]),
                ("respawn", [True, False]), ("env", [{"A": "b"}, {}]), ("shell", [True, False]),
                ("copy_env", [True, False]), ("singleton", [True, False]),
                ("hooks.before_start", ["json.dumps", "nosuchmodule.fn", "json.nosuchfn,true"]),
                ("unknown_key", [1]), ("rlimit_nofile", [100, None]), ("rlimit_bogus", [1])]
BAD_OPTIONS = [("numprocesses", ["3", 1.5, None, [1]]), ("warmup_delay", ["x", None]), ("send_hup", [1, "true"]),
               ("env", [[], {"A": 1}, "A=b"]), ("stop_signal", ["TERM", 1.5]), ("hooks", [[], {"nope": "x"}, "x"]),
               ("uid", [1.5, None, []]), ("max_age", ["1"]), ("stdout_stream", [5, {}, {"filename": "x"}])]
SIGNUMS = [15, 2, 1, 10, 12, 9, "TERM", "sigint", "usr1", "SIGHUP", "hup", "KILL!", "SIG_IGN", "nosuch", "", 0, -1,
           99, 64, "15", " 9"]
OPTNAMES = ["numprocesses", "warmup_delay", "graceful_timeout", "env", "cmd", "args", "max_retry", "respawn",
            "singleton", "stop_signal", "priority", "nosuchoption", "uid", "hooks"]


def pick_name(rng, world, extra=()):
    pool = list(NAMES) + list(NAMES) + ["W1", "wStop", "nope", "", "w*", "w?", "[", "wslow"] + list(extra)
    return rng.choice(pool)


def live_pid(rng, world, name):
    w = world.sim.arb._watchers_names.get(str(name).lower())
    pids = list(w.processes.keys()) if w is not None else []
    r = rng.random()
    if pids and r < 0.7:
        return rng.choice(pids)
    return rng.choice([1, 999999, 0, -1, 2 ** 40])


def valid_props(rng, world, cmd):
    """Properties that pass the type schema (the operation may still refuse them)."""
    n = pick_name(rng, world)
    w = {}
    if rng.random() < 0.5:
        w["waiting"] = rng.random() < 0.7
    if cmd in ("list", "status", "numprocesses"):
        return {"name": n} if rng.random() < 0.6 else {}
    if cmd == "stats":
        p = {"name": n} if rng.random() < 0.7 else {}
        if p and rng.random() < 0.5:
            p["process"] = live_pid(rng, world, n)
        if rng.random() < 0.3:
            p["extended"] = rng.random() < 0.5
        return p
    if cmd in ("dstats", "numwatchers", "listsockets", "ipython", "listen"):
        return {} if rng.random() < 0.7 else {"name": n}
    if cmd == "get":
        return {"name": n, "keys": rng.sample(OPTNAMES, rng.randint(0, 3))}
    if cmd == "options":
        return {"name": n}
    if cmd == "globaloptions":
        return rng.choice([{}, {"option": "endpoint"}, {"option": "check_delay"}, {"option": "nosuch"},
                           {"option": "pubsub_endpoint"}, {"option": ""}])
    if cmd == "signal":
        p = {"name": n, "signum": rng.choice(SIGNUMS)}
        if rng.random() < 0.5:
            p["pid"] = live_pid(rng, world, n)
            if rng.random() < 0.3:
                p["childpid"] = rng.choice([1, 424242])
        elif rng.random() < 0.1:
            p["childpid"] = 5
        if rng.random() < 0.3:
            p["children"] = rng.random() < 0.7
        if rng.random() < 0.3:
            p["recursive"] = rng.random() < 0.7
        return p
    if cmd == "add":
        p = {"name": rng.choice(["new%d" % rng.randint(0, 3), "w1", "W2", "", "néw"]),
             "cmd": rng.choice(["simworker added", "sleep 1", ""])}
        if rng.random() < 0.3:
            p["args"] = rng.choice([["a", "b"], "a b", []])
        if rng.random() < 0.5:
            p["start"] = rng.random() < 0.7
        if rng.random() < 0.5:
            p["options"] = dict((k, rng.choice(vs)) for k, vs in rng.sample(SAFE_OPTIONS, rng.randint(0, 3)))
        p.update(w)
        return p
    if cmd in ("incr", "decr"):
        p = {"name": n}
        if rng.random() < 0.6:
            p["nb"] = rng.choice([1, 1, 2, 0, -1, 5])
        p.update(w)
        return p
    if cmd == "kill":
        p = {"name": n}
        if rng.random() < 0.4:
            p["pid"] = live_pid(rng, world, n)
        if rng.random() < 0.4:
            p["signum"] = rng.choice(SIGNUMS)
        if rng.random() < 0.4:
            p["graceful_timeout"] = rng.choice([0, 0.1, 0.3])
        p.update(w)
        return p
    if cmd == "reload":
        p = {"name": n} if rng.random() < 0.8 else {}
        if rng.random() < 0.5:
            p["graceful"] = rng.random() < 0.7
        if rng.random() < 0.4:
            p["sequential"] = rng.random() < 0.6
        p.update(w)
        return p
    if cmd in ("start", "stop", "restart"):
        p = {"name": n} if rng.random() < 0.8 else {}
        if rng.random() < 0.3:
            p["match"] = rng.choice(["glob", "simple", "regex", "nosuch", ""])
        p.update(w)
        return p
    if cmd == "rm":
        p = {"name": rng.choice(["w1", "w2", "wstop", "nope", "W1", "wsing", ""])}
        if rng.random() < 0.4:
            p["nostop"] = rng.random() < 0.5
        p.update(w)
        return p
    if cmd == "set":
        opts = dict((k, rng.choice(vs)) for k, vs in rng.sample(SAFE_OPTIONS, rng.randint(0, 3)))
        if rng.random() < 0.25:
            k, vs = rng.choice(BAD_OPTIONS)
            opts[k] = rng.choice(vs)
        if rng.random() < 0.1:
            opts["numprocesses"] = 5         # on the singleton: refused part-way (D7 territory, one reply due)
        p = {"name": n, "options": opts}
        p.update(w)
        return p
    if cmd in ("reloadconfig", "quit"):
        return dict(w)
    return {}


REAL_STRATEGIES = ["valid", "valid", "valid", "valid_inflight", "absent", "nonobject", "missing", "illtyped",
                   "random", "faulty"]


def gen_real(rng, world, cmd, strategy):
    """-> (raw, setup, state label)"""
    idk = rng.choice(ID_KINDS[:7]) if rng.random() < 0.93 else "nonfinite"
    mtk = rng.choice(["absent", "absent", "absent", "other", "cast"])
    pairs = base_pairs(rng, idk, mtk)
    pairs.append(("command", cmd if rng.random() < 0.8 else case_variant(rng, cmd)))
    setup = {}
    state = "idle"
    if strategy == "absent":
        pass
    elif strategy == "nonobject":
        pairs.append(("properties", rng.choice(NONOBJECT)))
    else:
        p = valid_props(rng, world, cmd)
        if strategy == "missing":
            req = REQUIRED.get(cmd, [])
            if req:
                p.pop(rng.choice(req), None)
            else:
                p = {}
        elif strategy == "illtyped":
            keys = [k for k in p if k in PROP_TYPES] or ["name"]
            k = rng.choice(keys + ["waiting", "nb", "name"])
            bad = [v for v in WRONG if not PROP_TYPES[k](v)]
            p[k] = rng.choice(bad)
            if k == "nb" and rng.random() < 0.5:
                p[k] = "x"
        elif strategy == "random":
            p = rand_json(rng, 1)
            if not isinstance(p, dict):
                p = {"name": p}
        elif strategy == "faulty":
            # the operation fails part-way: spawn faults, raising hooks
            setup["spawn_faults"] = [rng.choice([OSError(2, "scripted"), RuntimeError("scripted spawn fault"),
                                                 ValueError("scripted")]) for _ in range(rng.randint(1, 3))]
            if rng.random() < 0.5:
                setup["hooks"] = {("w2", rng.choice(sorted(HOOKS))): rng.choice(["raise", "false"])}
            if "name" in p and rng.random() < 0.7:
                p["name"] = rng.choice(["w2", "wstop", "w1"])
            if cmd in ("incr", "decr", "start", "stop", "restart", "reload", "set", "kill", "rm", "add"):
                p["waiting"] = rng.random() < 0.8
        elif strategy == "valid_inflight":
            state = "inflight"
        if strategy == "valid" and isinstance(p, dict) and p.get("name") == "wstop":
            state = "stopped-target"
        pairs.append(("properties", p))
    return render_message(pairs, rng), setup, state


def gen_random(rng):
    r = rng.random()
    if r < 0.3:
        return bytes(rng.getrandbits(8) for _ in range(rng.randint(0, 80)))
    if r < 0.6:
        return render_value(rand_json(rng), rng).encode("utf8")
    # a corrupted valid message
    good = bytearray(render_message([("id", gen_id(rng, "string")), ("command", rng.choice(["list", "status",
                     "incr", "stop"])), ("properties", {"name": "w1", "waiting": rng.random() < 0.5})], rng))
    for _ in range(rng.randint(1, 3)):
        op = rng.random()
        pos = rng.randrange(len(good))
        if op < 0.4:
            good[pos] = rng.getrandbits(8)
        elif op < 0.7:
            del good[pos]
        else:
            good.insert(pos, rng.getrandbits(8))
    return bytes(good)


# =================================================================================================
# the daemon half
# =================================================================================================
def show(raw, limit=400):
    return {"repr": repr(raw[:limit]) + ("... (%d bytes)" % len(raw) if len(raw) > limit else ""),
            "hex": raw[:limit].hex()}


class DaemonCheck(object):
    def __init__(self, verdict, data, tier, seed):
        self.verdict = verdict
        self.tier = tier
        self.seed = seed
        self.rng = random.Random(seed * 7919 + 17)
        self.table = {str(k): v for k, v in data["commands"].items()}
        self.cases = {}
        for c in data["cases"]:
            m = c["cls"]
            self.cases[class_key(m, (m["op"]["ph"], m["op"]["x"], m["op"]["w"]))] = c
        self.world = None
        self.messages = 0
        self.hit_cells = collections.Counter()
        self.hit_groups = collections.Counter()
        self.by_source = collections.Counter()
        self.by_state = collections.Counter()
        self.findings = {}          # (finding, label) -> {"n":, "examples": []}
        self.violations = {}        # label -> {"n":, "examples": []}
        self.divergences = collections.Counter()
        self.div_examples = {}
        self.unjudged = collections.Counter()
        self.samples = []
        self.notes = []
        self.real_ops = collections.defaultdict(collections.Counter)

    # ---- plumbing
    def get_world(self):
        if self.world is None or not self.world.usable():
            if self.world is not None:
                self.world.close()
            self.world = World(self.table)
            for m in self.world.mismatch:
                if m not in self.notes:
                    self.notes.append(m)
        return self.world

    def close(self):
        if self.world is not None:
            self.world.close()
            self.world = None

    def _add(self, store, key, ex):
        e = store.setdefault(key, {"n": 0, "examples": [], "commands": collections.Counter()})
        e["n"] += 1
        e["commands"][str(ex.get("command"))] += 1
        if len(e["examples"]) < 3 or (ex.get("command") not in (None, "c06x", "c06r")
                                      and e["commands"][str(ex.get("command"))] == 1 and len(e["examples"]) < 8):
            e["examples"].append(ex)

    # ---- one message
    def run_message(self, raw, setup=None, state="idle", source="class"):
        world = self.get_world()
        c, info = classify(raw, self.table)
        if state == "inflight":
            if not world.hold_slot():
                state = "idle"
        obs = world.send(raw, setup)
        self.messages += 1
        self.by_source[source] += 1
        self.by_state[state] += 1
        rec = obs["rec"]
        op = observed_op(rec, info["waiting"])
        want_id = info["idval"] if c["frame"] == "object" else None
        reps = observe_replies(obs["frames"], want_id)
        quit_ran = bool(rec.get("ending")) and rec["returned"] and isinstance(rec["ret"], Future)
        if quit_ran and c["kind"] == "async":
            # `restart` without a name restarts the daemon: Arbiter.restart(inside_circusd=True) is the code of
            # Arbiter.stop plus the _restarting flag -- the model's kind "quit" (ends this daemon life)
            c = dict(c, kind="quit", req="f")
        if state == "inflight" and not obs["exited"]:
            world.restore_slow()
        served = world.probe()
        # ---- the statement, evaluated directly on what was observed
        broken = []
        want_n = 0 if info["cast"] else 1
        if len(reps) != want_n:
            broken.append("count")
        for r in reps:
            if not r["wf"]:
                broken.append("wf")
            if r["st"] not in ("ok", "error"):
                broken.append("status")
            if c["id"] != "nonfinite" and not r["idok"]:
                broken.append("id")
        if quit_ran:
            if served:
                broken.append("quit-did-not-stop")      # not C06's business: reported as a note only
        elif not served:
            broken.append("serve")
        if not obs["quiet"]:
            self.unjudged["not quiescent within the budget"] += 1
            return
        ex = {"bytes": show(raw), "class": c, "op": list(op) if op else None, "state": state,
              "replies": [fr[1].decode("latin1")[:300] if isinstance(fr[1], bytes) else str(fr[1])[:300]
                          for fr in obs["frames"]],
              "escaped": obs["escaped"][:2], "setup": _setup_text(setup), "seed": self.seed,
              "command": rec["cmd"], "served_after": served}
        case = self.cases.get(class_key(c, op)) if op is not None else None
        if "quit-did-not-stop" in broken:
            broken.remove("quit-did-not-stop")
            self.divergences["quit ran but the daemon still serves"] += 1
        label = "/".join([c["frame"], c["cmd"], c["mt"], c["props"]] + (list(op) if op else ["op?"]))
        if op is not None and rec["cmd"] and rec["cmd"] not in ("c06x", "c06r"):
            self.real_ops[rec["cmd"]]["/".join(op)] += 1
        if case is not None:
            self.hit_cells[class_key(c, op)] += 1
            self.hit_groups[group_key(c, op)] += 1
            agree, errno_only = self.agrees(case, reps, c, served, quit_ran)
        else:
            agree, errno_only = False, False
            self.unjudged_class(c, op, rec)
        if len(self.samples) < 12 and (self.messages % 97 == 1 or (broken and len(self.samples) < 6)):
            self.samples.append({"bytes": show(raw, 160), "class": label, "state": state,
                                 "demanded_replies": want_n, "as_coded_replies": case["cod"]["n"] if case else None,
                                 "observed": [(r["st"], r["errno"], r["idok"], r["wf"]) for r in reps],
                                 "served_after": served})
        if not broken:
            if case is not None and not agree:
                what = "errno" if errno_only else "shape"
                self.divergences["%s differs from the as-coded prediction: %s" % (what, label)] += 1
                self.div_examples.setdefault(label, ex)
            return
        # ---- the statement is broken: a listed signature, or a violation
        if case is not None and errno_only:
            self.divergences["errno differs from the as-coded prediction: %s" % label] += 1
        if case is not None and (agree or errno_only) and case["kf"]:
            kfs = [k for k in case["kf"] if FINDING_BREAKS.get(k) in broken]
            if kfs and set(broken) <= set(FINDING_BREAKS[k] for k in kfs) and self.narrow(kfs, c, info, rec):
                for k in kfs:
                    self._add(self.findings, (k, self.finding_label(k, c, op)), ex)
                return
        ex["broken"] = sorted(set(broken))
        ex["as_coded"] = case["cod"] if case else None
        self._add(self.violations, "%s: %s" % ("+".join(sorted(set(broken))), label), ex)

    def narrow(self, kfs, c, info, rec):
        """The harness-side part of the signatures (what the class alone does not say)."""
        if "STATUS" in kfs:
            if not (rec["cmd"] == "status" and isinstance(info["pv"], dict) and "name" in info["pv"]):
                return False
        if "QUITW" in kfs and not (rec["cmd"] in ("quit", "restart") and rec.get("ending")):
            return False
        return True

    def finding_label(self, k, c, op):
        if k == "D5":
            if c["frame"] == "empty":
                return "empty or whitespace-only message"
            if c["frame"] != "object":
                return "JSON %s (not an object)" % c["frame"]
            if c["cmd"] in ("absent", "null", "nonstring"):
                return "command %s" % c["cmd"]
            return "waiting request, operation fails asynchronously (TransformableFuture)"
        if k == "D5R":
            return "JSON nested deeper than the parser's recursion limit"
        if k == "STATUS":
            return "status with a watcher name"
        if k == "NANID":
            return "id is NaN/Infinity (or contains one)"
        if k == "QUITW":
            return "quit / daemon restart with waiting, arbiter on a provided loop"
        return k

    def agrees(self, case, reps, c, served, quit_ran):
        cod = case["cod"]
        if len(reps) != cod["n"]:
            return False, False
        errno_only = False
        for r, e in zip(reps, cod["replies"]):
            idok = r["idok"] if e["id"] == "echo" else r["idnull"]
            if c["id"] == "nonfinite" and e["id"] == "echo":
                idok = True
            if not (r["st"] == e["st"] and r["wf"] == e["wf"] and idok):
                return False, False
            if r["errno"] != e["errno"]:
                errno_only = True
        if cod["serve"] != bool(served) and not (quit_ran and not cod["serve"]):
            return False, False
        return (not errno_only), errno_only

    def unjudged_class(self, c, op, rec):
        if op is None:
            self.unjudged["operation outcome not observable (calls %r)" % (rec["calls"],)] += 1
        else:
            self.unjudged["class outside the model: %s" % ("/".join(
                [c["frame"], c["cmd"], c["props"], c["kind"], c["req"]] + list(op)),)] += 1

    # ---- the campaigns
    def campaign(self):
        rng = self.rng
        quick = self.tier == "quick"
        n_group = self.n_group = 20 if quick else 300
        n_real = 12 if quick else 300
        n_random = 600 if quick else 40000
        groups = collections.defaultdict(list)
        for key, case in self.cases.items():
            m = case["cls"]
            if m["kind"] in ("na", "stub"):
                groups[group_key(m, (m["op"]["ph"], m["op"]["x"], m["op"]["w"]))].append(m)
        self.all_groups = set(group_key(c["cls"], (c["cls"]["op"]["ph"], c["cls"]["op"]["x"],
                                                   c["cls"]["op"]["w"])) for c in self.cases.values())
        self.groups_total = len(self.all_groups)
        # (1) every class group, n_group concretizations, cells of the group drawn at random
        for g in sorted(groups):
            cells = groups[g]
            heavy = g[0] == "deep"
            for i in range(n_group if not heavy else max(3, n_group // 10)):
                m = rng.choice(cells)
                state = "inflight" if rng.random() < 0.15 else "idle"
                if m["frame"] != "object":
                    raw, setup = gen_frame_level(rng, m["frame"]), None
                elif m["kind"] == "na":
                    raw, setup = gen_nocommand(rng, m["cmd"], m["props"], m["id"], m["mt"]), None
                else:
                    raw, setup = gen_stub(rng, m)
                self.run_message(raw, setup, state, "class")
        # (1b) the one real operation whose result carries a "status" key: `status` with a name
        for mtk in MT_KINDS:
            for pk in ("valid", "illtyped"):
                for i in range(n_group):
                    pairs = base_pairs(rng, rng.choice(ID_KINDS), mtk)
                    pairs.append(("command", "status" if rng.random() < 0.7 else case_variant(rng, "status")))
                    p = {"name": rng.choice(NAMES + ["W1", "wSTOP", "wslow"])}
                    if pk == "illtyped":
                        p[rng.choice(["waiting", "nb", "pid", "keys"])] = rng.choice(["x", "", "1"])
                    self.run_message(render_message(pairs + [("properties", p)], rng), None,
                                     "inflight" if rng.random() < 0.15 else "idle", "class")
        # (2) every registered command, every strategy
        for cmd in sorted(n for n, v in self.table.items() if v["kind"] != "stub"):
            reps = n_real
            if cmd in ("dstats", "ipython"):
                reps = max(2, n_real // 6)         # real psutil / import work, wall-clock
            for strategy in REAL_STRATEGIES:
                for i in range(reps if cmd != "quit" else max(2, reps // 3)):
                    world = self.get_world()
                    raw, setup, state = gen_real(rng, world, cmd, strategy)
                    self.run_message(raw, setup, state, "command")
        # (3) arbitrary bytes, arbitrary JSON, corrupted messages
        for i in range(n_random):
            self.run_message(gen_random(rng), None, "inflight" if rng.random() < 0.1 else "idle", "random")

    def report(self):
        v = self.verdict
        for (k, label), e in sorted(self.findings.items()):
            v.attributed(k, "C06 daemon: %s -- %s: %d messages, e.g. %s -> %d replies %r" % (
                k, label, e["n"], e["examples"][0]["bytes"]["repr"], len(e["examples"][0]["replies"]),
                e["examples"][0]["replies"][:1]),
                {"kind": "c06-daemon", "finding": k, "class": label, "count": e["n"], "commands": dict(e["commands"]),
                 "examples": e["examples"]})
        for label, e in sorted(self.violations.items())[:40]:
            v.violation("C06 daemon: %s (%d messages), e.g. %s" % (label, e["n"], e["examples"][0]["bytes"]["repr"]),
                        {"kind": "c06-daemon", "what": label, "count": e["n"], "examples": e["examples"]})
        for d, n in self.divergences.most_common(15):
            print("DIVERGENCE property=%s %s (%d messages)" % (v.prop, d, n))
        for n in self.notes:
            print("NOTE property=%s %s" % (v.prop, n))


def _setup_text(setup):
    if not setup:
        return None
    out = {}
    if setup.get("stub"):
        out["stub"] = {k: repr(x) for k, x in setup["stub"].items()}
    if setup.get("spawn_faults"):
        out["spawn_faults"] = [repr(f) for f in setup["spawn_faults"]]
    if setup.get("hooks"):
        out["hooks"] = {"%s.%s" % k: o for k, o in setup["hooks"].items()}
    return out


# =================================================================================================
# the client half
# =================================================================================================
class FakeSocket(object):
    def __init__(self, script):
        self.script = script
        self.sent = []

    def send(self, data, *a, **k):
        self.sent.append(data)
        self.script.on_send(data)

    def recv(self, *a, **k):
        return self.script.take()


class FakePoller(object):
    def __init__(self, script, sock):
        self.script = script
        self.sock = sock

    def register(self, *a):
        pass

    def poll(self, timeout=None):
        import zmq
        return [(self.sock, zmq.POLLIN)] if self.script.wait(timeout) else []


class Script(object):
    """A delivery sequence on a virtual clock (ms).  Frames are built when the request is seen (its id)."""

    def __init__(self, frames, unit_ms, rng, stale_id):
        self.spec = frames
        self.unit = unit_ms
        self.rng = rng
        self.stale_id = stale_id
        self.now = 0.0
        self.queue = []          # (arrival time, index, bytes)
        self.call_id = None
        self.polls = 0
        self.taken = []

    def delay_ms(self, d):
        T = 10 * self.unit
        if d == "short":
            return self.rng.uniform(0.02, 0.12) * T
        if d == "medium":
            return self.rng.uniform(0.55, 0.62) * T
        return self.rng.uniform(1.2, 3.0) * T

    def on_send(self, data):
        req = json.loads(data)
        self.call_id = req["id"]
        t = self.now
        for i, f in enumerate(self.spec):
            t += self.delay_ms(f["d"])
            self.queue.append((t, i + 1, self.frame_bytes(f["k"], i + 1)))

    def frame_bytes(self, k, i):
        rng = self.rng
        cid = self.call_id
        if k in ("own", "dup"):
            return json.dumps({"id": cid, "status": rng.choice(["ok", "error"]), "n": i, "time": 1.0}).encode()
        if k == "stale":
            return json.dumps({"id": self.stale_id, "status": "ok", "n": i}).encode()
        if k == "foreign":
            fid = rng.choice([uuid.UUID(int=rng.getrandbits(128)).hex, None, 0, 1, True, cid.upper(), cid[:-1],
                              cid + " ", " " + cid, [cid], {"id": cid}, "", cid[::-1], "ABSENT"])
            d = {"status": "ok", "n": i, "id": fid}
            if fid == "ABSENT":
                del d["id"]
                d["call_id"] = cid
            return json.dumps(d).encode()
        return rng.choice([b"", b"garbage", b"{", b"\xff\xfe", b'{"id": "' + cid.encode() + b'", "status": "ok"',
                           b"{'id': '" + cid.encode() + b"'}", b"\x00\x01", b'{"id": ' + cid.encode() + b"}"])

    def wait(self, timeout_ms):
        """poll(timeout): True if a frame is (or becomes) readable within the timeout."""
        self.polls += 1
        if self.polls > 50:
            raise RuntimeError("client polls for ever")
        if self.queue and self.queue[0][0] <= self.now + timeout_ms:
            self.now = max(self.now, self.queue[0][0])
            return True
        self.now += timeout_ms
        return False

    def take(self):
        t, i, data = self.queue.pop(0)
        self.taken.append(i)
        return data


def _call_message(script, rng):
    """the message handed to call(): half of the time a dict an earlier call has already been made with (it still
    carries that call's id, the one the stale replies of this script bear): every call has an id of its own"""
    msg = {"command": "list", "properties": {}}
    if rng.random() < 0.5:
        msg["id"] = script.stale_id
    return msg


def sync_outcome(client_mod, frames, rng, timeout_s):
    """Drive the real CircusClient.call over one delivery sequence."""
    c = client_mod.CircusClient.__new__(client_mod.CircusClient)
    script = Script(frames, timeout_s * 1000.0 / 10, rng, uuid.UUID(int=rng.getrandbits(128)).hex)
    c.socket = FakeSocket(script)
    c.poller = FakePoller(script, c.socket)
    c._timeout = timeout_s
    c.timeout = timeout_s * 1000
    c._id = b"c06"
    c.endpoint = "sim://ctrl"
    try:
        res = c.call(_call_message(script, rng))
    except client_mod.CallError as e:
        return (["timeout"] if str(e) == "Timed out." else ["callerror"]), script, str(e)
    except RuntimeError as e:
        return ["hang"], script, str(e)
    except Exception as e:
        return ["raised", type(e).__name__], script, repr(e)
    return classify_result(res, script, frames), script, None


def classify_result(res, script, frames):
    n = res.get("n") if isinstance(res, dict) else None
    if isinstance(res, dict) and res.get("id") == script.call_id and isinstance(n, int) \
            and frames[n - 1]["k"] in ("own", "dup"):
        return ["own", n]
    return ["wrong", n if isinstance(n, int) else -1]


class FakeZStream(object):
    def __init__(self, script, loop):
        self.script = script
        self.loop = loop
        self.cb = None

    def send(self, data, callback=None, **k):
        self.script.on_send(data)
        if callback is not None:
            self.loop.call_soon(callback, data, None)

    def on_recv(self, cb, copy=True):
        self.cb = cb

    def stop_on_recv(self):
        self.cb = None


def async_outcome(client_mod, frames, rng, timeout_s, vl):
    """Drive the real AsyncCircusClient.call: one frame per loop turn at its virtual arrival time."""
    loop, io = vl
    c = client_mod.AsyncCircusClient.__new__(client_mod.AsyncCircusClient)
    script = Script(frames, timeout_s * 1000.0 / 10, rng, uuid.UUID(int=rng.getrandbits(128)).hex)
    c.stream = FakeZStream(script, loop)
    c._timeout = timeout_s
    c.timeout = timeout_s * 1000
    c._id = b"c06"
    c.endpoint = "sim://ctrl"
    fut = c.call(_call_message(script, rng))

    def spin():
        n = 0
        while loop.run_one():
            n += 1
            if n > 10000:
                raise RuntimeError("loop does not drain")
        return n

    def advance_to(t):
        while True:
            d = loop.next_deadline()
            if d is None or d > t:
                break
            loop.advance_to(d)
            for h in loop.due():
                loop.fire(h)
            spin()
        loop.advance_to(t)
    spin()
    t0 = loop.vnow
    lost = 0
    for (t, i, data) in list(script.queue):
        if fut.done():
            break
        advance_to(t0 + t / 1000.0)
        script.queue.pop(0)
        script.taken.append(i)
        cb = c.stream.cb
        if cb is None:
            lost += 1
            continue
        try:
            cb([data])
        except Exception:
            lost += 1
        spin()
    if not fut.done():
        advance_to(loop.vnow + 3 * timeout_s)
        spin()
    if not fut.done():
        fut.cancel()
        spin()
        return ["hang"], script, "lost=%d" % lost
    e = fut.exception()
    if e is None:
        return classify_result(fut.result(), script, frames), script, None
    if isinstance(e, client_mod.CallError):
        return (["timeout"] if str(e) == "Timed out." else ["callerror"]), script, str(e)
    return ["raised", type(e).__name__], script, repr(e)


class ClientCheck(object):
    def __init__(self, verdict, data, tier, seed):
        self.verdict = verdict
        self.cases = data["cases"]
        self.tier = tier
        self.seed = seed
        self.rng = random.Random(seed * 104729 + 5)
        self.replayed = 0
        self.findings = {}
        self.violations = {}
        self.divergences = collections.Counter()
        self.samples = []

    def _add(self, store, key, ex):
        e = store.setdefault(key, {"n": 0, "examples": []})
        e["n"] += 1
        if len(e["examples"]) < 3:
            e["examples"].append(ex)

    def run(self):
        import circus.client as client_mod
        from harness import vloop
        reps = 2 if self.tier == "quick" else 3
        vl = vloop.install()
        try:
            for case in self.cases:
                frames = case["frames"]
                dem = [list(d) for d in case["dem"]]
                for r in range(reps):
                    timeout_s = self.rng.choice([0.3, 1.0, 5.0])
                    for mode in ("sync", "async"):
                        if mode == "sync":
                            out, script, err = sync_outcome(client_mod, frames, self.rng, timeout_s)
                        else:
                            out, script, err = async_outcome(client_mod, frames, self.rng, timeout_s, vl)
                        self.replayed += 1
                        self.judge(case, mode, out, dem, err, timeout_s, script)
        finally:
            vloop.uninstall(vl[0])

    def judge(self, case, mode, out, dem, err, timeout_s, script):
        cod = list(case[mode])
        label = " ".join("%s/%s" % (f["k"], f["d"]) for f in case["frames"]) or "(no frame)"
        ex = {"frames": case["frames"], "mode": mode, "observed": out, "demanded_any_of": dem, "as_coded": cod,
              "timeout_s": timeout_s, "error": err, "seed": self.seed, "frames_taken": script.taken,
              "virtual_ms_elapsed": round(script.now, 1)}
        if len(self.samples) < 8 and self.replayed % 501 == 1:
            self.samples.append(ex)
        if out in dem:
            if out != cod:
                self.divergences["%s client differs from the as-coded prediction" % mode] += 1
            return
        kinds = "%s client: demanded %s, got %s" % (mode, " or ".join(d[0] for d in dem), out[0])
        if out == cod and mode == "async" and case["kf"] == ["D12"] and out[0] in ("hang", "own", "callerror"):
            self._add(self.findings, ("D12", "%s" % kinds), dict(ex, sequence=label))
            return
        self._add(self.violations, kinds, dict(ex, sequence=label))

    def report(self):
        v = self.verdict
        for (k, label), e in sorted(self.findings.items()):
            v.attributed(k, "C06 client: %s -- %s: %d replays, e.g. [%s]" % (
                k, label, e["n"], e["examples"][0]["sequence"]),
                {"kind": "c06-client", "finding": k, "class": label, "count": e["n"], "examples": e["examples"]})
        for label, e in sorted(self.violations.items())[:20]:
            v.violation("C06 client: %s (%d replays), e.g. [%s]" % (label, e["n"], e["examples"][0]["sequence"]),
                        {"kind": "c06-client", "what": label, "count": e["n"], "examples": e["examples"]})
        for d, n in self.divergences.most_common(5):
            print("DIVERGENCE property=%s %s (%d replays)" % (v.prop, d, n))


# =================================================================================================
def run(prop, tier, seed):
    t = checklib.Timer()
    verdict = checklib.Verdict(prop)
    cov = {}
    cwd = os.getcwd()
    with tlcrun.Scratch() as scratch:
        try:
            _imports()
            data, stats = run_models(scratch, tier, verdict)
            cov.update({"states": stats["states"], "transitions": stats["transitions"],
                        "mc_configs": stats["configs"], "exhaustive": all(c["complete"] for c in stats["configs"]),
                        "checker_cmd": "java -cp tla2tools.jar:CommunityModules-deps.jar tlc2.TLC -config "
                                       "Protocol_<part>_<ascoded|fixed>.cfg Protocol.tla",
                        "client_max_frames": stats["max_frames"]})
            cov["model_wall_s"] = t.wall()
            os.chdir(scratch)                  # whatever the real code writes relative to cwd lands in scratch
            traces = 0
            if "daemon_ascoded" in data:
                dc = DaemonCheck(verdict, data["daemon_ascoded"], tier, seed)
                t1 = checklib.Timer()
                try:
                    dc.campaign()
                finally:
                    dc.close()
                dc.report()
                traces += dc.messages
                cells = len(dc.cases)
                cov.update({
                    "daemon_classes": cells, "daemon_class_groups": dc.groups_total,
                    "daemon_messages": dc.messages, "daemon_wall_s": t1.wall(),
                    "daemon_classes_hit": len(dc.hit_cells), "daemon_class_groups_hit": len(dc.hit_groups),
                    "daemon_groups_below_quota": {"/".join(g): n for g, n in sorted(dc.hit_groups.items())
                                                  if n < dc.n_group and g[0] != "deep"},
                    "daemon_messages_by_source": dict(dc.by_source), "daemon_messages_by_state": dict(dc.by_state),
                    "daemon_divergences": dict(dc.divergences.most_common(30)),
                    "daemon_divergence_examples": list(dc.div_examples.values())[:5],
                    "daemon_unjudged": dict(dc.unjudged.most_common(30)),
                    "daemon_finding_classes": {"%s: %s" % k: e["n"] for k, e in sorted(dc.findings.items())},
                    "daemon_finding_commands": {"%s: %s" % k: dict(e["commands"])
                                                for k, e in sorted(dc.findings.items())},
                    "daemon_groups_unhit": ["/".join(g) for g in sorted(dc.all_groups - set(dc.hit_groups))],
                    "daemon_ops_by_real_command": {k: dict(v) for k, v in sorted(dc.real_ops.items())},
                    "daemon_violation_classes": {k: e["n"] for k, e in sorted(dc.violations.items())},
                    "notes": dc.notes})
                cov["samples"] = list(dc.samples)
            if "client_ascoded" in data:
                cc = ClientCheck(verdict, data["client_ascoded"], tier, seed)
                t2 = checklib.Timer()
                cc.run()
                cc.report()
                traces += cc.replayed
                cov.update({"client_sequences": len(cc.cases), "client_replays": cc.replayed,
                            "client_wall_s": t2.wall(),
                            "client_finding_classes": {"%s: %s" % k: e["n"] for k, e in sorted(cc.findings.items())},
                            "client_violation_classes": {k: e["n"] for k, e in sorted(cc.violations.items())},
                            "client_divergences": dict(cc.divergences)})
                cov.setdefault("samples", []).extend(cc.samples)
            cov["traces_validated_against_impl"] = traces
            if not cov.get("samples"):
                cov["samples"] = [{"note": "no case was run"}]
        except Exception:
            import traceback
            verdict.machinery.append("check_c06: " + traceback.format_exc()[-2500:])
        finally:
            os.chdir(cwd)
    cov.setdefault("states", 0)
    cov.setdefault("transitions", 0)
    cov.setdefault("traces_validated_against_impl", 0)
    cov.setdefault("samples", [{"note": "nothing ran"}])
    ev = {"tier": tier, "seed": seed, "level": "model_checking", "coverage": cov, "wall_s": t.wall(),
          "assumptions": [
              "sim binding: the real Arbiter/Watcher/Controller on a virtual-time loop over a simulated kernel; "
              "the ROUTER stream is a recording fake (frames written per client id are what is judged)",
              "the arbiter runs on a provided loop (as in the sim binding); circusd's own loop differs in when the "
              "controller stream is closed after quit",
              "the operation outcome of a message (validate/execute raised, value, future succeeded/failed) is "
              "observed at the Controller->Command boundary by wrapping the command objects of that Controller",
              "two scripted plug-in commands (c06x, c06r) registered in Controller.commands realise every operation "
              "outcome of the model; they return JSON-serialisable values only",
              "JSON well-formedness of a reply is RFC 8259 (NaN/Infinity are not JSON)",
              "client half: zmq socket/poller (CircusClient) and ZMQStream (AsyncCircusClient) are scripted fakes "
              "on a virtual clock; one frame per loop turn for the async client",
              "the statement does not say whether the client's timeout bounds the call or each wait, nor what an "
              "undecodable frame yields: every reading is accepted",
              "TLC and the CommunityModules Json module"]}
    return verdict.finish(ev)


if __name__ == "__main__":
    _tier, _seed = checklib.tier_seed()
    sys.exit(run(sys.argv[1] if len(sys.argv) > 1 else "C06", _tier, _seed))

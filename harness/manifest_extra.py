"""MANIFEST entries of the checks that do not go through checks_core."""

ORACLE_NOTE = ("Trusted: TLC; the concretizer's class-of function and renderings (sampled inside classes that TLC "
               "enumerates exhaustively); the bounds of the TLC enumeration stated in the evidence.")


def _entry(pid, text, tech, cat="model_checking"):
    return {"property_id": pid, "quick_cmd": "bin/check %s --tier quick" % pid,
            "thorough_cmd": "bin/check %s --tier thorough" % pid,
            "evidence_file": "/verif/evidence/%s.json" % pid,
            "replay_cmd_template": "bin/check %s --replay {path}" % pid,
            "level_claimed": {"category": cat, "text": text, "design_ref": "DESIGN.md 8 (%s)" % pid},
            "level_note": ORACLE_NOTE, "technique": tech}


CHECKS = {
    "C06": _entry("C06",
                  "Protocol.tla defines, per message class / client delivery sequence, the reply behaviour the "
                  "property demands and the behaviour of the code as written; TLC enumerates the class product and "
                  "the delivery sequences exhaustively and checks that every deviation carries a recorded "
                  "signature; each class is concretized into many concrete messages (plus random bytes / JSON "
                  "classified by a total class-of function) sent to the real Controller on the sim binding in "
                  "several daemon states, and the real CircusClient / AsyncCircusClient are driven with the "
                  "generated delivery sequences.",
                  "explicit TLA+ specification (Protocol.tla) enumerated by TLC; TLC-generated cases replayed "
                  "on the real Controller and client"),
    "C07": _entry("C07",
                  "Sockets.tla is a descriptor-level model (daemon fd table with inheritable flags, Arbiter.sockets, "
                  "Popen's close_fds / inheritable rules, a fresh bound socket per worker for so_reuseport); TLC "
                  "checks Same/Stable/NoLeak exhaustively over histories of death, restart, reload, stop-start, incr, "
                  "decr and generates histories; each history is run on a REAL circusd with real workers that dump "
                  "/proc/self/fd, the daemon's descriptors are read from /proc, every managed address is probed with "
                  "connect(), and the observed states are validated by TLC against the model (SocketsTrace.tla).",
                  "explicit TLA+ specification (Sockets.tla) model-checked with TLC; TLC histories run on a real "
                  "circusd; observed states trace-validated with TLC"),
    "C12": _entry("C12",
                  "ReloadConfig.tla models configuration versions, the daemon's per-watcher snapshots and "
                  "reload_from_config's diff as coded; TLC checks Same/Keep/Delta/Idem exhaustively over edit "
                  "sequences (every violation must be explained by a recorded deviation branch) and emits the "
                  "sequences; each is rendered to real ini files, the real arbiter is booted from the first "
                  "version on the sim binding, every edit goes through the real reloadconfig request, and the "
                  "result is compared with a second, fresh arbiter booted on the same file and with the pid sets "
                  "before/after.  Schedule half: Core.tla models reload_from_config itself (three set loops, "
                  "setnp / delete / add-then-register); TLC checks C12_conv / C12_keep (Monitors.tla) on every "
                  "interleaving of one or two reloads, a read-only request and a worker death, evaluates the same "
                  "clauses on recorded file-mode scenarios (reloads with deaths, periodic checks, requests in "
                  "between) and validates those traces against Core.",
                  "explicit TLA+ specifications (ReloadConfig.tla; Core.tla + Monitors.tla) model-checked with TLC; "
                  "TLC edit sequences replayed on the real arbiter (sim binding) with a fresh-start oracle; TLC "
                  "trace validation of recorded reload schedules (TraceMon / TraceCore)"),
    "C16": _entry("C16",
                  "ConfigEnv.tla defines the documented meaning of a configuration file (typed options, env "
                  "layering, expansion); TLC enumerates all abstract files within the bounds and emits the expected "
                  "configuration; each file is rendered to concrete ini text in several spellings and parsed by the "
                  "real get_config / Watcher.load_from_config, twice, and compared.",
                  "explicit TLA+ specification (ConfigEnv.tla) enumerated by TLC as the oracle; cases replayed on "
                  "the real parser"),
    "C17": _entry("C17",
                  "Redirector.tla models pipes, the redirector's registrations, the loop's handler table and "
                  "descriptors; TLC checks Prefix/Done/Label/EOF/Fds exhaustively on small constants; TLC-"
                  "generated behaviours are replayed step by step on the real Redirector over real os.pipe() "
                  "pairs (handler invoked as tornado would), and a live part runs real workers writing "
                  "self-describing streams through a real IOLoop over many generations, watching /proc/self/fd.",
                  "explicit TLA+ specification (Redirector.tla) model-checked with TLC; TLC behaviours replayed "
                  "on the real Redirector; live generations"),
    "C20": _entry("C20",
                  "FileStream.tla models rotation as coded over intervals of a global offset; TLC checks "
                  "Size/Count/Tail/Plain exhaustively on small constants (and Apalache discharges them as an "
                  "inductive invariant for unbounded sizes in the thorough tier); TLC-generated behaviours are "
                  "replayed step by step on the real FileStream in a scratch directory and the directory is "
                  "compared with the model state after every write.",
                  "explicit TLA+ specification (FileStream.tla) model-checked with TLC (+ Apalache inductive "
                  "invariant); TLC behaviours replayed on the real FileStream"),
}

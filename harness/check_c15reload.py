"""C15, reloadconfig half: the watcher directory must stay coherent (list / numwatchers / status / stats describe
the same set) across reloadconfig, observed BETWEEN ANY TWO CALLBACKS of the reload (a new watcher being
started with a warm-up delay is the interesting window).  The real arbiter is booted from an ini file on the sim
binding (FileSim of check_c12), probed with the real read-only requests after every loop callback, and the
recorded traces go through the TLA+ monitor pass (clauses C15_dir / C15_views of Monitors.tla)."""
import os
import random

from harness import tlcrun


def _render(ws, wg):
    out = ["[circus]\ncheck_delay = 0.5\nwarmup_delay = %g\nendpoint = sim://ctrl\npubsub_endpoint = sim://pub\n" % wg]
    for name, np_, w, ver, sing in ws:
        out.append("[watcher:%s]\ncmd = simworker %s v%d\nnumprocesses = %d\nwarmup_delay = %g\ngraceful_timeout = 0.1\n"
                   % (name, name, ver, np_, w) + ("singleton = True\n" if sing else ""))
    return "\n".join(out)


def _scenario(seed, workdir):
    from harness import check_c12, simdaemon
    FileSim = check_c12._simmod()

    class RecSim(FileSim):
        def __init__(self, path):
            self._path = path
            self._pipes = []
            simdaemon.Sim.__init__(self, [], check_delay=0.5, record_state=True, config_file=path)
            if hasattr(self, "_on_popen"):
                self.kernel.on_popen = self._on_popen

    rng = random.Random(seed)
    pool = ["a", "b", "c", "x-y", "Web"]
    ws = [(n, rng.choice([1, 2]), rng.choice([0, 1]), 1, False) for n in rng.sample(pool, rng.choice([1, 2]))]
    if rng.random() < 0.4:
        ws[0] = (ws[0][0], rng.choice([0, 1]), ws[0][2], 1, True)          # a singleton watcher
    undo = None
    wg = rng.choice([0, 0, 1])          # the global warmup_delay is an integer option
    path = os.path.join(workdir, "c15-%d.ini" % seed)
    with open(path, "w") as fh:
        fh.write(_render(ws, wg))
    sim = RecSim(path)
    edits = []
    try:
        sim.boot()
        sim.settle_all()
        for _ in range(rng.randint(2, 4)):
            r = rng.random()
            if undo is not None:                       # an edit the daemon must refuse is taken back in the next file
                ws[undo[0]] = undo[1]
                undo = None
            have = [w[0] for w in ws]
            free = [n for n in pool if n not in have]
            if r < 0.45 and free:
                ws.append((rng.choice(free), rng.choice([1, 2]), 1, 1, False))
                edits.append("add " + ws[-1][0])
            elif r < 0.6 and len(ws) > 1:
                edits.append("del " + ws.pop(rng.randrange(len(ws)))[0])
            elif r < 0.75 and rng.random() < 0.5 and "A" not in have and "a" in have:
                ws.append(("A", 1, 1, 1, False))       # a case variant next to an existing name
                edits.append("add A")
            elif r < 0.88:
                # numprocesses is the only thing that changes: reload_from_config calls set_numprocesses directly
                i = rng.randrange(len(ws))
                n, np_, w, ver, sing = ws[i]
                # with a case variant present the reload rebuilds watchers from the file (D9R): no negative value then
                new = rng.choice([v for v in (0, 1, 2, 3, -1, -3) if v != np_ and (v >= 0 or "A" not in have)])
                if (sing and new > 1) or new < 0:
                    # refused (singleton) or clamped (negative): the file goes back to a sane value with the next
                    # edit, so that no watcher is ever BUILT from it (a negative numprocesses in the file a watcher
                    # is created from is a configuration error outside C01's requests)
                    undo = (i, ws[i])
                ws[i] = (n, new, w, ver, sing)
                edits.append("np %s=%d" % (n, new))
            else:
                i = rng.randrange(len(ws))
                n, np_, w, ver, sing = ws[i]
                ws[i] = (n, np_, w, ver + 1, sing)
                edits.append("chg " + n)
            with open(path, "w") as fh:
                fh.write(_render(ws, wg))
            sim.request("reloadconfig", {"waiting": rng.random() < 0.5})
            sim.probe()
            steps = 0
            while steps < 400:
                if sim.loop.ready_len():
                    sim.run_handle()
                    sim.probe()                      # between two callbacks: what would a client see now?
                elif sim.quiescent():
                    break
                elif not sim.tick():
                    break
                steps += 1
            sim.settle_all()
            sim.probe()
        sim.rec("end")
        return {"seed": seed, "edits": edits, "trace": sim.trace, "exceptions": sim.exceptions}
    finally:
        sim.close()


def run_reload_c01(verdict, tier, seed, scratch):
    return run_reload_dir(verdict, tier, seed + 17, scratch, prefix="C01_")


def _job(args):
    seed, workdir = args
    try:
        return _scenario(seed, workdir)
    except Exception as e:
        import traceback
        return {"seed": seed, "error": repr(e) + traceback.format_exc()[-400:], "trace": None}


def run_reload_dir(verdict, tier, seed, scratch, prefix="C15_"):
    import multiprocessing as mp
    n = 60 if tier == "quick" else 1200
    jobs = [(seed * 100003 + i, scratch) for i in range(n)]
    with mp.get_context("fork").Pool(16) as pool:
        runs = pool.map(_job, jobs, chunksize=4)
    ok = [r for r in runs if r.get("trace")]
    for r in runs:
        if not r.get("trace"):
            verdict.machinery.append("reload scenario %s: %s" % (r["seed"], r.get("error")))
    verdicts, st = tlcrun.monitor_traces([r["trace"] for r in ok], scratch)
    hits = {}
    for r, v in zip(ok, verdicts):
        if v is None:
            verdict.machinery.append("no TLC verdict for C15 reload scenario %s" % r["seed"])
            continue
        for c, line, kf in v["bad"]:
            if not c.startswith(prefix):
                continue
            hits[c] = hits.get(c, 0) + 1
            rep = {"kind": "c15-reload", "prefix": prefix, "seed": r["seed"], "edits": r["edits"], "clause": c, "line": line}
            what = "%s false at line %d of the reloadconfig scenario %d (edits %s)" % (c, line, r["seed"], r["edits"])
            if kf:
                verdict.attributed(kf, what, rep)
            else:
                verdict.violation(what, rep)
    if st["errors"]:
        verdict.machinery.append("TraceMon (C15 reload): " + st["errors"][0][-600:])
    return {"reload_scenarios": len(ok), "reload_lines": st["lines"] if "lines" in st else sum(len(r["trace"]) for r in ok),
            "reload_clause_hits": hits, "traces_validated_against_impl": len(ok), "states": st["states"],
            "transitions": st["states"]}

"""Worker of the live binding (DESIGN 4.2): started by a REAL circusd, looks at itself, then behaves as scripted.

    python -S -B worker.py --out DIR --tag ws [--wid N] [--fd NAME=FD ...] [--env KEY ...]
                           [--term default|trap|ignore] [--trap-delay T] [--trap-code N]
                           [--exit-after T] [--exit-code N] [--fork N] [--sleep T]

On start it writes ONE JSON record, atomically (tmp + rename), to DIR/<tag>.<pid>.<start time>.json (DIR may also come from the
environment, VERIF_WORKER_OUT): pid, ppid, pgid, argv, cwd, selected environment, the kernel start time of the
process, {fd: readlink(/proc/self/fd/fd)} for every open descriptor (socket inodes appear as "socket:[N]"), and
for every --fd NAME=FD given on the command line -- the place where circus substitutes
$(circus.sockets.NAME) -- what fstat/getsockname/SO_ACCEPTCONN say about that descriptor number.
Signal dispositions are installed BEFORE the record is written: whoever sees the record may rely on them.

Only the standard library, and nothing is imported that opens descriptors behind our back.
"""
import json
import os
import signal
import socket
import stat
import sys
import time


def parse(argv):
    o = {"out": os.environ.get("VERIF_WORKER_OUT"), "tag": "w", "wid": None, "fd": [], "env": [], "term": "default",
         "trap_delay": 0.0, "trap_code": 0, "exit_after": None, "exit_code": 0, "fork": 0, "sleep": 3600.0,
         "child": False}
    i = 0
    while i < len(argv):
        a = argv[i]
        v = argv[i + 1] if i + 1 < len(argv) else None
        if a == "--out":
            o["out"] = v
        elif a == "--tag":
            o["tag"] = v
        elif a == "--wid":
            o["wid"] = v
        elif a == "--fd":
            o["fd"].append(v)
        elif a == "--env":
            o["env"].append(v)
        elif a == "--term":
            o["term"] = v
        elif a == "--trap-delay":
            o["trap_delay"] = float(v)
        elif a == "--trap-code":
            o["trap_code"] = int(v)
        elif a == "--exit-after":
            o["exit_after"] = float(v)
        elif a == "--exit-code":
            o["exit_code"] = int(v)
        elif a == "--fork":
            o["fork"] = int(v)
        elif a == "--sleep":
            o["sleep"] = float(v)
        else:
            o.setdefault("unknown", []).append(a)
            i += 1
            continue
        i += 2
    return o


def fd_table():
    """{fd: target} of every descriptor open right now (the one used for listing excluded)."""
    t = {}
    try:
        names = os.listdir("/proc/self/fd")
    except OSError:
        return t
    for n in names:
        try:
            t[n] = os.readlink("/proc/self/fd/" + n)
        except OSError:
            pass                     # the directory descriptor of listdir itself
    return t


def look_at(fdnum):
    """What is at descriptor number `fdnum` (as substituted by circus)?"""
    r = {"fd": fdnum, "open": False}
    try:
        n = int(fdnum)
    except (TypeError, ValueError):
        r["error"] = "not a number: %r" % (fdnum,)
        return r
    r["fd"] = n
    try:
        st = os.fstat(n)
    except OSError as e:
        r["error"] = "fstat: %s" % e.strerror
        return r
    r["open"] = True
    r["is_socket"] = stat.S_ISSOCK(st.st_mode)
    r["inode"] = st.st_ino
    try:
        r["inheritable"] = os.get_inheritable(n)
    except OSError:
        pass
    if not r["is_socket"]:
        return r
    try:
        s = socket.socket(fileno=os.dup(n))      # a dup: closing our object leaves fd n alone
    except OSError as e:
        r["error"] = "socket(fileno): %s" % e
        return r
    try:
        r["family"] = int(s.family)
        r["type"] = int(s.type)
        try:
            name = s.getsockname()
            r["sockname"] = list(name) if isinstance(name, tuple) else (
                name.decode("utf8", "replace") if isinstance(name, bytes) else name)
        except OSError as e:
            r["sockname_error"] = str(e)
        try:
            r["listening"] = bool(s.getsockopt(socket.SOL_SOCKET, socket.SO_ACCEPTCONN))
        except OSError as e:
            r["listening_error"] = str(e)
    finally:
        s.close()
    return r


def start_time():
    """Field 22 of /proc/self/stat: start time in clock ticks since boot."""
    try:
        with open("/proc/self/stat") as fh:
            s = fh.read()
        return int(s[s.rindex(")") + 2:].split()[19])
    except (OSError, ValueError, IndexError):
        return -1


def record(o):
    fds = fd_table()
    rec = {"pid": os.getpid(), "ppid": os.getppid(), "pgid": os.getpgrp(), "tag": o["tag"], "wid": o["wid"],
           "child": o["child"], "argv": sys.argv, "cwd": os.getcwd(), "start_ticks": start_time(),
           "time": time.time(), "term": o["term"],
           "environ": dict((k, os.environ[k]) for k in os.environ
                           if k in o["env"] or k.startswith("CIRCUS") or k.startswith("VERIF_")),
           "environ_keys": sorted(os.environ.keys()),
           "fds": fds, "argfds": {}}
    for spec in o["fd"]:
        name, _, num = (spec or "").partition("=")
        rec["argfds"][name] = look_at(num)
    return rec


def write_record(o):
    if not o["out"]:
        return
    rec = record(o)
    try:
        os.makedirs(o["out"], exist_ok=True)
    except OSError:
        pass
    final = os.path.join(o["out"], "%s%s.%d.%d.json" % (o["tag"], ".child" if o["child"] else "", os.getpid(),
                                                        rec["start_ticks"]))
    tmp = final + ".tmp"
    with open(tmp, "w") as fh:
        json.dump(rec, fh)
    os.rename(tmp, final)


def install(o):
    if o["term"] == "ignore":
        signal.signal(signal.SIGTERM, signal.SIG_IGN)
    elif o["term"] == "trap":
        def on_term(signum, frame):
            if o["trap_delay"] > 0:
                end = time.time() + o["trap_delay"]
                while time.time() < end:
                    time.sleep(min(0.05, max(0.0, end - time.time())))
            os._exit(o["trap_code"])
        signal.signal(signal.SIGTERM, on_term)


def main():
    o = parse(sys.argv[1:])
    install(o)
    # descriptors are looked at before anything else is opened
    write_record(o)
    for _ in range(o["fork"]):
        if os.fork() == 0:
            o["child"] = True
            o["fork"] = 0
            install(o)
            write_record(o)
            break
    t0 = time.time()
    limit = o["exit_after"] if (o["exit_after"] is not None and not o["child"]) else o["sleep"]
    while True:
        left = limit - (time.time() - t0)
        if left <= 0:
            break
        time.sleep(min(left, 0.5))
    os._exit(o["exit_code"] if not o["child"] else 0)


if __name__ == "__main__":
    main()

"""C12 -- reloadconfig converges to the file and disturbs only what changed.

spec/ReloadConfig.tla bound to the real Arbiter.load_from_config / reload_from_config / `reloadconfig` command
(sim binding: harness/simdaemon.py, real Arbiter + Watcher + Controller on a virtual-time loop over a simulated
kernel; the arbiter is booted from a real ini FILE).

  (a) TLC checks ReloadConfig exhaustively (2 watcher names, np 1..3, 2 versions of an always-present key, 2 of the
      environment, one optional key absent / 2 values, <= 4 edits each followed by Reload) twice: with the Dev_
      constants as the code is (every violation of C12_Same / C12_Delta must be explained by a Dev_ branch, C12_Keep
      and C12_Idem hold outright) and with the Dev_ constants FALSE (the four clauses hold, nothing to explain).
      The as-coded run prints every edit sequence with, after each reload, the as-coded state (`cod`), the demanded
      one (`dem`) and the explaining Dev_ branches (`why`).  3 watcher names: exhaustive in the thorough tier, and
      TLC -simulate emits behaviours of it in both tiers.
  (b) every sampled sequence is replayed: each version is rendered to a real ini file (several spellings, seeded),
      a real arbiter is booted from the first version, every edit rewrites the file and goes through the real
      `reloadconfig` request (waiting); after quiescence the `list` / `numprocesses` / `options` replies and the
      pids are compared with a SECOND, FRESH arbiter booted on the same file (the statement's own oracle) and the
      pid sets before / after, together with the simulated kernel's spawn and signal logs of the step, are judged
      against the Keep / Delta / Idem clauses.
  (c) verdict per step:
        the real behaviour satisfies the four clauses             -> fine (real != cod: DIVERGENCE note, exit 0)
        it violates Same / Delta, equals the as-coded prediction
          exactly, and the model names a Dev_ branch for every
          offending watcher (the D8 signature)                    -> verdict.attributed("D8", ...)
        anything else                                             -> verdict.violation(...)

`replay_one(obj)` re-runs one recorded sequence (kind "c12-sequence");  python -m harness.check_c12 --replay PATH.
"""
import json
import multiprocessing
import os
import random
import sys
import time
import traceback
from concurrent.futures import ThreadPoolExecutor

ROOT = os.path.dirname(os.path.dirname(os.path.abspath(__file__)))
if ROOT not in sys.path:
    sys.path.insert(0, ROOT)

from harness import checklib, tlcrun  # noqa: E402

REPO = os.environ.get("VERIF_REPO", "/repo")
FINDING = "D8"
# the code as it is: (Dev_StaleCfgSnapshot, Dev_DiffIgnoresAddedKeys); flip to "FALSE" when the code is repaired
# (VERIF_C12_DEVS=FALSE,FALSE overrides it for experiments with a repaired tree)
AS_CODED = tuple(os.environ.get("VERIF_C12_DEVS", "FALSE,TRUE").split(","))   # stale snapshot repaired by c69ce93
CHECK_DELAY = 1.0
MAX_REPORTS = 25

CFG = """CONSTANTS
  NameSeq <- %(v)s_NameSeq
  MaxNp = 3
  CmdVers <- mc_CmdVers
  EnvVers <- mc_EnvVers
  OptVals <- mc_OptVals
  InitFiles <- %(v)s_InitFiles
  AddRecs <- mc_AddRecs
  MaxEdits = %(edits)d
  Dev_StaleCfgSnapshot = %(d1)s
  Dev_DiffIgnoresAddedKeys = %(d2)s
  Compound = %(compound)s
  EmitHist = %(emit)s
INIT Init
NEXT Next
CONSTRAINT Emit
CHECK_DEADLOCK FALSE
INVARIANT Inv_Type
INVARIANT Inv_SameExplained
INVARIANT Inv_DeltaExplained
INVARIANT C12_Keep
INVARIANT C12_Idem
INVARIANT Inv_Fixed
%(strict)s"""
STRICT = "INVARIANT C12_Same\nINVARIANT C12_Delta\n"


# ------------------------------------------------------------------------------------------------
# rendering an abstract file version  {name: [np, cmd, env, opt]}  to ini text
# ------------------------------------------------------------------------------------------------
NAME_POOLS = [["a", "b", "c"], ["web", "worker", "cron"], ["Alpha", "beta", "GAMMA"], ["w-1", "w_2", "w.3"]]
# keys that config.get_config always puts into the watcher dict (watcher_defaults): (key, version 1, version 2);
# %s = watcher name.  "cmd" itself is one of them; the others ride on a fixed cmd.
CMD_KEYS = [("cmd", "simworker %s v1", "simworker %s v2"), ("args", "--one", "--two x"),
            ("graceful_timeout", "3", "7"), ("max_retry", "4", "6"), ("stop_signal", "TERM", "INT"),
            ("priority", "1", "2"), ("send_hup", "False", "True"), ("stop_children", "False", "True"),
            ("working_dir", "/tmp", "/"),
            # a nested option: config.py folds stdout_stream.* into the dict watcher['stdout_stream'] (the section
            # then also carries stdout_stream.class = FileStream); %s = scratch directory / watcher name
            ("stdout_stream.filename", "%s/o1-%s.log", "%s/o2-%s.log")]
# keys that are in the dict only when the section spells them: (key, value 1, value 2)
OPT_KEYS = [("max_age", "100000", "200000"), ("max_age_variance", "5", "9"), ("check_flapping", "False", "True"),
            ("retry_in", "3", "7")]
# (every key of both pools is reported by the `options` command, so "effective settings" can be read off replies;
#  rlimit_*, virtualenv_py_ver and the like are not and are therefore not used)
# the [env:<name>] section: version -> body lines ("" = no section at all)
ENV_STYLES = [("FOO = one\n", "FOO = two\n"), ("", "FOO = two\n"), ("A_KEY = 1\n", "B_KEY = 1\n"),
              ("FOO = one\nBAR = x\n", "FOO = one\n"),
              # values parse_env_dict rewrites ($VAR references are expanded when a watcher is built AND when a
              # reload compares): an unchanged section must still compare equal
              ("FOO = $PATH:one\n", "FOO = $PATH:two\n"), ("FOO = one\n", "FOO = $PATH\nBAR =  y \n")]


# Constant extras of a watcher section, chosen per watcher by the seeded spelling and left alone by every edit:
# options that config.py turns into nested dicts of the watcher dict (stdout_stream / stderr_stream / hooks /
# rlimits).  The dicts w._cfg holds for them must survive the watcher's construction unchanged, or every later
# reload sees the watcher as changed.  %(d)s = scratch directory, %(n)s = watcher name.
STREAM_EXTRAS = [[],
                 ["stdout_stream.class = StdoutStream"],
                 ["stdout_stream.class = FileStream", "stdout_stream.filename = %(d)s/out-%(n)s.log"],
                 ["stdout_stream.class = FileStream", "stdout_stream.filename = %(d)s/out-%(n)s.log",
                  "stderr_stream.class = FileStream", "stderr_stream.filename = %(d)s/err-%(n)s.log",
                  "stderr_stream.max_bytes = 100000"],
                 ["stderr_stream.class = StdoutStream"],
                 ["stdout_stream.class = FancyStdoutStream", "stdout_stream.color = green"]]
HOOK_EXTRAS = [[], [], ["hooks.before_start = c12hooks.ok"],
               ["hooks.before_start = c12hooks.ok", "hooks.after_stop = c12hooks.ok, True"]]
RLIMIT_EXTRAS = [[], [], ["rlimit_nofile = 500"]]
HOOK_MODULE = "def ok(watcher=None, arbiter=None, hook_name=None, **kw):\n    return True\n"


def ensure_hook_module(workdir):
    """the importable dotted name the hooks.* options refer to: <workdir>/c12hooks.py, on sys.path"""
    path = os.path.join(workdir, "c12hooks.py")
    if not os.path.exists(path):
        with open(path, "w") as fh:
            fh.write(HOOK_MODULE)
    if workdir not in sys.path:
        sys.path.insert(0, workdir)


def make_spelling(rng, model_names, workdir="<scratch>"):
    pool = list(rng.choice(NAME_POOLS))
    rng.shuffle(pool)
    order = list(model_names)
    rng.shuffle(order)
    return {"names": dict(zip(model_names, pool)), "cmd": rng.randrange(len(CMD_KEYS)),
            "opt": rng.randrange(len(OPT_KEYS)), "env": rng.randrange(len(ENV_STYLES)),
            "omit_np1": rng.random() < 0.3, "order": order, "env_first": rng.random() < 0.3,
            "extras": {m: [rng.randrange(len(STREAM_EXTRAS)) if rng.random() < 0.6 else 0,
                           rng.randrange(len(HOOK_EXTRAS)), rng.randrange(len(RLIMIT_EXTRAS))]
                       for m in model_names},
            "dir": workdir}


def render(version, sp):
    """version: {model name: [np, cmd, env, opt]} (np 0 = no section) -> ini text"""
    out = ["[circus]\ncheck_delay = %g\nendpoint = sim://ctrl\npubsub_endpoint = sim://pub\n" % CHECK_DELAY]
    ck, c1, c2 = CMD_KEYS[sp["cmd"]]
    ok, o1, o2 = OPT_KEYS[sp["opt"]]
    for m in sp["order"]:
        np_, cmd, env, opt = version[m]
        if np_ == 0:
            continue
        name = sp["names"][m]
        cval = (c1, c2)[cmd - 1]
        lines = ["[watcher:%s]" % name]
        se, he, re_ = sp["extras"][m]
        extras = list(HOOK_EXTRAS[he]) + list(RLIMIT_EXTRAS[re_])
        if ck == "cmd":
            lines.append("cmd = " + cval % name)
        elif ck == "stdout_stream.filename":
            lines.append("cmd = simworker %s" % name)
            lines.append("stdout_stream.class = FileStream")
            lines.append("%s = %s" % (ck, cval % (sp["dir"], name)))
        else:
            lines.append("cmd = simworker %s" % name)
            lines.append("%s = %s" % (ck, cval))
        if ck != "stdout_stream.filename":
            extras = list(STREAM_EXTRAS[se]) + extras
        if not (np_ == 1 and sp["omit_np1"]):
            lines.append("numprocesses = %d" % np_)
        if opt:
            lines.append("%s = %s" % (ok, (o1, o2)[opt - 1]))
        lines.extend(x % {"d": sp["dir"], "n": name} for x in extras)
        sec = "\n".join(lines) + "\n"
        body = ENV_STYLES[sp["env"]][env - 1]
        envsec = ("[env:%s]\n%s" % (name, body)) if body else ""
        out.extend([envsec, sec] if sp["env_first"] else [sec, envsec])
    return "\n".join(x for x in out if x)


# ------------------------------------------------------------------------------------------------
# the real arbiter, booted from an ini file on the sim binding
# ------------------------------------------------------------------------------------------------
_SIM = {}


def _simmod():
    """import the binding lazily (it imports circus from VERIF_REPO and patches it at module level)"""
    if not _SIM:
        from harness import simdaemon
        import circus.arbiter

        class FileSim(simdaemon.Sim):
            """Sim whose arbiter is the real Arbiter.load_from_config(path) (context injected: no zmq sockets)"""

            def __init__(self, path):
                self._path = path
                self._pipes = []
                simdaemon.Sim.__init__(self, [], check_delay=CHECK_DELAY, record_state=False, config_file=path)
                self.kernel.on_popen = self._on_popen

            def _on_popen(self, popen, args, kw):
                """a watcher with stdout_stream / stderr_stream asks for PIPEs and hands their read ends to the real
                Redirector (add_redirections calls pipe.fileno()): give the simulated worker real pipes"""
                import subprocess
                for name in ("stdout", "stderr"):
                    if kw.get(name) == subprocess.PIPE:
                        r, w = os.pipe()
                        f = os.fdopen(r, "rb", 0)
                        self._pipes.append((f, w))
                        setattr(popen, name, f)

            def close(self):
                try:
                    simdaemon.Sim.close(self)
                finally:
                    for f, w in self._pipes:
                        for c in (f.close, lambda w=w: os.close(w)):
                            try:
                                c()
                            except OSError:
                                pass
                    self._pipes = []

            def _build(self):
                A = circus.arbiter.Arbiter
                orig = A.__init__
                sim = self

                def wrapped(self_, *a, **k):
                    k["context"] = simdaemon.FakeContext(sim)
                    return orig(self_, *a, **k)
                A.__init__ = wrapped
                try:
                    self.arb = A.load_from_config(self._path, loop=self.io)
                finally:
                    A.__init__ = orig

            def settle_all(self, cap=5000):
                """let virtual time pass until nothing but the periodic check is pending"""
                n = 0
                self.drain()
                while not self.quiescent() and n < cap:
                    if not self.tick():
                        break
                    n += 1
                return n < cap

            def ask(self, cmd, props):
                cid = self.request(cmd, props)
                self.drain()
                r = self.replies.get(cid, [None])[-1]
                return r if isinstance(r, dict) else {"status": "no-reply"}

        _SIM["FileSim"] = FileSim
        _SIM["mod"] = simdaemon
    return _SIM["FileSim"]


def observe(sim):
    """what the statement speaks about, from real replies + the simulated kernel"""
    sim._probing = True
    try:
        k = sim.kernel
        lst = sim.ask("list", {})
        names = lst.get("watchers")
        # `list` reports lower-cased names by construction; everything below is keyed by the lower-cased name
        obs = {"list_status": lst.get("status"),
               "names": sorted(str(x).lower() for x in names) if isinstance(names, list) else None,
               "w": {}, "kernel": {}}
        for n in (obs["names"] or []):
            npr = sim.ask("numprocesses", {"name": n})
            opt = sim.ask("options", {"name": n})
            pl = sim.ask("list", {"name": n})
            st = sim.ask("status", {"name": n})
            obs["w"][n] = {"np": npr.get("numprocesses") if npr.get("status") == "ok" else "error",
                           "options": opt.get("options") if opt.get("status") == "ok" else "error",
                           "pids": sorted(k.short(p) for p in pl.get("pids", [])) if isinstance(
                               pl.get("pids"), list) else "error",
                           "status": st.get("status")}
        for pid, sp in k.procs.items():
            if sp.st == "run":
                obs["kernel"].setdefault((sp.owner or "").lower(), []).append(k.short(pid))
        for v in obs["kernel"].values():
            v.sort()
        return obs
    finally:
        sim._probing = False


def _boot(path):
    FileSim = _simmod()
    sim = FileSim(path)
    sim.boot()
    ok = sim.settle_all()
    sim.advance(2 * CHECK_DELAY + 0.01)
    ok = sim.settle_all() and ok
    return sim, ok


_FRESH = {}


def fresh_state(text, workdir):
    """the statement's oracle: a fresh arbiter started on this very file (memoized per process by file text)"""
    r = _FRESH.get(text)
    if r is None:
        path = os.path.join(workdir, "fresh.ini")
        with open(path, "w") as fh:
            fh.write(text)
        sim, ok = _boot(path)
        try:
            r = observe(sim)
            r["settled"] = ok
            r["exceptions"] = list(sim.exceptions)
        finally:
            sim.close()
        if len(_FRESH) > 4000:
            _FRESH.clear()
        _FRESH[text] = r
    return r


def settings_of(obs):
    """the comparable part of an observation: names, and per watcher numprocesses reply, options, pid count, status"""
    if obs["names"] is None:
        return {"names": None}
    return {"names": obs["names"],
            "w": {n: {"np": w["np"], "options": w["options"], "npids": len(w["pids"]) if isinstance(
                w["pids"], list) else w["pids"], "status": w["status"]} for n, w in obs["w"].items()},
            "running": {n: len(v) for n, v in obs["kernel"].items()}}


def diff_settings(a, b):
    """differences between two settings_of() values: [(watcher or '', key, a's, b's)]"""
    out = []
    if a.get("names") != b.get("names"):
        out.append(("", "list", a.get("names"), b.get("names")))
    if a.get("names") is None or b.get("names") is None:
        return out
    for n in sorted(set(a["w"]) & set(b["w"])):
        x, y = a["w"][n], b["w"][n]
        for key in ("np", "npids", "status"):
            if x[key] != y[key]:
                out.append((n, key, x[key], y[key]))
        ox, oy = x["options"], y["options"]
        if isinstance(ox, dict) and isinstance(oy, dict):
            for o in sorted(set(ox) | set(oy)):
                if ox.get(o, "<absent>") != oy.get(o, "<absent>"):
                    out.append((n, "options." + o, ox.get(o, "<absent>"), oy.get(o, "<absent>")))
        elif ox != oy:
            out.append((n, "options", ox, oy))
    for n in sorted(set(a["running"]) | set(b["running"])):
        if a["running"].get(n, 0) != b["running"].get(n, 0):
            out.append((n, "running", a["running"].get(n, 0), b["running"].get(n, 0)))
    return out


def relation(pre, fresh, n):
    """relation of the effective settings of watcher n before the reload to what the file now asks for"""
    a, b = pre["w"].get(n), fresh["w"].get(n)
    if a is None and b is None:
        return "none"
    if a is None:
        return "new"
    if b is None:
        return "gone"
    oa, ob = a["options"], b["options"]
    if not (isinstance(oa, dict) and isinstance(ob, dict)):
        return "other"
    if oa == ob and a["np"] == b["np"]:
        return "same"
    if {k: v for k, v in oa.items() if k != "numprocesses"} == {k: v for k, v in ob.items() if k != "numprocesses"}:
        return "np"
    return "other"


def run_sequence(seq, render_seed, workdir):
    """Replays one TLC-generated edit sequence on the real arbiter.  -> result dict:
         steps: per reload {violations: [(clause, watcher, text)], agrees_cod, d8, ...}
    """
    rng = random.Random(render_seed)
    mnames = list(seq["names"])
    ensure_hook_module(workdir)
    sp = make_spelling(rng, mnames, workdir)
    real = {m: n.lower() for m, n in sp["names"].items()}
    versions = [seq["init"]] + [s["file"] for s in seq["steps"]]
    texts = [render(v, sp) for v in versions]
    path = os.path.join(workdir, "circus.ini")
    with open(path, "w") as fh:
        fh.write(texts[0])
    res = {"spelling": sp, "texts": texts, "steps": [], "boot": None, "error": None}
    sim, ok = _boot(path)
    try:
        k = sim.kernel
        pre = observe(sim)
        # model pid -> real pid, by age within each watcher
        pmap = {}
        boot_ok = ok and not sim.exceptions
        for m in mnames:
            mp = seq["pids"][m]
            rp = (pre["w"].get(real[m]) or {}).get("pids", [])
            if not isinstance(rp, list) or len(mp) != len(rp):
                boot_ok = False
            else:
                pmap.update(zip(mp, rp))
        res["boot"] = {"ok": boot_ok, "obs": settings_of(pre), "exceptions": list(sim.exceptions)}
        for i, st in enumerate(seq["steps"]):
            text = texts[i + 1]
            with open(path, "w") as fh:
                fh.write(text)
            n_spawn, n_sig, n_exc = len(k.spawnlog), len(k.siglog), len(sim.exceptions)
            cid = sim.request("reloadconfig", {"waiting": True})
            settled = sim.settle_all()
            reply = sim.replies.get(cid, [None])[-1]
            sim.advance(2 * CHECK_DELAY + 0.01)
            settled = sim.settle_all() and settled
            post = observe(sim)
            spawned = {}
            for _t, pid in k.spawnlog[n_spawn:]:
                spawned.setdefault((k.procs[pid].owner or "").lower(), []).append(k.short(pid))
            signalled = {}
            for _t, pid, sig, sender in k.siglog[n_sig:]:
                signalled.setdefault((k.procs[pid].owner or "").lower(), set()).add(k.short(pid))
            signalled = {n: sorted(v) for n, v in signalled.items()}
            res["steps"].append({"pre": pre, "post": post, "spawned": spawned, "signalled": signalled,
                                 "reply": reply, "settled": settled, "exceptions": list(sim.exceptions[n_exc:]),
                                 "unchanged_text": text == texts[i]})
            pre = post
    except Exception:
        res["error"] = traceback.format_exc()
    finally:
        sim.close()
    if res["error"]:
        return res
    # --- judge every step against a fresh start on the same file (after the daemon above is closed: one Sim at a time)
    for i, st in enumerate(seq["steps"]):
        r = res["steps"][i]
        fresh = fresh_state(texts[i + 1], workdir)
        cod_version = {m: st["cod"][m]["s"] for m in mnames}
        codfresh = fresh_state(render(cod_version, sp), workdir)
        judge_step(r, st, fresh, codfresh, real, mnames, pmap)
    return res


def judge_step(r, st, fresh, codfresh, real, mnames, pmap):
    pre, post = r["pre"], r["post"]
    viol = []
    fs, ps = settings_of(fresh), settings_of(post)
    # C12_Same: exactly what a fresh start on that file yields
    same_diffs = diff_settings(ps, fs)
    for n, key, got, want in same_diffs:
        viol.append(("Same", n, "%s: daemon after reload %r, fresh start on the file %r" % (key, got, want)))
    if post["names"] is not None:
        for n, w in post["w"].items():
            if isinstance(w["pids"], list) and w["pids"] != post["kernel"].get(n, []):
                viol.append(("Same", n, "tracked pids %r but running workers %r" % (w["pids"], post["kernel"].get(n, []))))
    rels = {}
    if post["names"] is not None and fresh["names"] is not None and pre["names"] is not None:
        every = sorted(set(pre["w"]) | set(fresh["w"]) | set(post["w"]))
        for n in every:
            rel = relation(pre, fresh, n)
            rels[n] = rel
            old = pre["w"].get(n, {}).get("pids", [])
            new = post["w"].get(n, {}).get("pids", [])
            if not (isinstance(old, list) and isinstance(new, list)):
                continue
            sp_n = sorted(r["spawned"].get(n, []))
            sg_n = sorted(r["signalled"].get(n, []))
            if rel == "same":
                # C12_Keep
                if new != old:
                    viol.append(("Keep", n, "effective settings unchanged, pids %r -> %r" % (old, new)))
                elif sp_n or sg_n:
                    viol.append(("Keep", n, "effective settings unchanged, yet spawned %r / signalled %r" % (sp_n, sg_n)))
            elif rel == "np":
                # C12_Delta
                a, b = pre["w"][n]["np"], fresh["w"][n]["np"]
                kept = sorted(set(old) & set(new))
                if not (isinstance(a, int) and isinstance(b, int)):
                    continue
                if len(kept) != min(a, b) or len(new) != b:
                    viol.append(("Delta", n, "numprocesses alone %r -> %r: pids %r -> %r (kept %d, want %d; now %d, want %d)"
                                 % (a, b, old, new, len(kept), min(a, b), len(new), b)))
                elif sp_n != sorted(set(new) - set(old)) or sg_n != sorted(set(old) - set(new)):
                    viol.append(("Delta", n, "numprocesses alone %r -> %r: spawned %r (new pids %r), signalled %r (removed "
                                 "pids %r)" % (a, b, sp_n, sorted(set(new) - set(old)), sg_n,
                                               sorted(set(old) - set(new)))))
    # C12_Idem: the file is byte for byte the one the previous reload (or the boot) read
    if r["unchanged_text"]:
        if any(r["spawned"].values()) or any(r["signalled"].values()):
            viol.append(("Idem", "", "unchanged file: spawned %r, signalled %r" % (r["spawned"], r["signalled"])))
        d = diff_settings(ps, settings_of(pre))
        if d or {n: w["pids"] for n, w in post["w"].items()} != {n: w["pids"] for n, w in pre["w"].items()}:
            viol.append(("Idem", "", "unchanged file: state changed %r" % (d[:4],)))
    # agreement with the as-coded prediction of the model
    cod_diffs = diff_settings(ps, settings_of(codfresh))
    pid_ok = True
    if post["names"] is not None:
        for m in mnames:
            n = real[m]
            mp = st["cod"][m]["p"]
            rp = post["w"].get(n, {}).get("pids", [])
            if not isinstance(rp, list) or len(mp) != len(rp):
                pid_ok = False
                continue
            for x, y in zip(mp, rp):          # both oldest first
                if x in pmap:
                    if pmap[x] != y:
                        pid_ok = False
                elif y in pmap.values():
                    pid_ok = False
                else:
                    pmap[x] = y
    else:
        pid_ok = False
    rel_ok = all(rels.get(real[m], "none") == st["dem"][m]["rel"] for m in mnames)
    agrees = not cod_diffs and pid_ok and rel_ok
    # the D8 signature: exactly the as-coded behaviour, only Same / Delta are false, and for every offending watcher the
    # model names the Dev_ branch; the differing settings are numprocesses (stale snapshot) / the optional key (diff
    # ignores keys on one side) and nothing else
    why = {real[m]: st["why"][m] for m in mnames}
    d8 = bool(viol) and agrees
    for clause, n, _t in viol:
        if clause not in ("Same", "Delta") or not why.get(n):
            d8 = False
    for n, key, _g, _w in same_diffs:
        allowed = set()
        if "StaleCfgSnapshot" in why.get(n, []):
            allowed |= {"np", "npids", "running", "options.numprocesses"}
        if "DiffIgnoresAddedKeys" in why.get(n, []):
            allowed |= {"options." + ok for ok, _a, _b in OPT_KEYS}
        if key not in allowed:
            d8 = False
    reply_ok = isinstance(r["reply"], dict) and r["reply"].get("status") == "ok"
    r["judged"] = {"violations": viol, "agrees_cod": agrees, "cod_diffs": cod_diffs[:6], "pid_ok": pid_ok,
                   "rel_ok": rel_ok, "rels": rels, "d8": d8, "why": why, "reply_ok": reply_ok,
                   "fresh": fs, "same_diffs": same_diffs}


def summarize(seq, render_seed, res):
    """-> compact outcome for the parent: per step class + details of the first bad step"""
    out = {"render_seed": render_seed, "error": res["error"], "steps": [], "first": None,
           "boot_ok": bool(res["boot"] and res["boot"]["ok"])}
    if res["error"]:
        return out
    for i, r in enumerate(res["steps"]):
        j = r["judged"]
        if not j["violations"]:
            cls = "ok" if j["agrees_cod"] else "divergence"
        elif j["d8"]:
            cls = "d8"
        else:
            cls = "violation"
        model_viol = any(seq["steps"][i]["why"][m] for m in seq["names"])
        out["steps"].append({"cls": cls, "model_violates": model_viol, "rels": j["rels"],
                             "kinds": {m: seq["steps"][i]["cod"][m]["k"] for m in seq["names"]},
                             "whys": sorted({x for m in seq["names"] for x in seq["steps"][i]["why"][m]}),
                             "clauses": sorted({c for c, _n, _t in j["violations"]}),
                             "reply_ok": j["reply_ok"], "settled": r["settled"], "exceptions": r["exceptions"]})
        if cls != "ok" and (out["first"] is None or (cls == "violation" and out["first"]["cls"] != "violation")
                            or (cls == "d8" and out["first"]["cls"] == "divergence")):
            out["first"] = {"cls": cls, "step": i + 1, "violations": j["violations"][:8],
                            "versions": res["texts"][:i + 2],
                            "observed": settings_of(r["post"]), "pids_before": {n: w["pids"] for n, w in r["pre"]["w"].items()},
                            "pids_after": {n: w["pids"] for n, w in r["post"]["w"].items()},
                            "spawned": r["spawned"], "signalled": r["signalled"],
                            "fresh_start": j["fresh"], "cod_diffs": j["cod_diffs"], "pid_ok": j["pid_ok"],
                            "rel_ok": j["rel_ok"], "why": j["why"], "reply": r["reply"]}
    return out


def replay_one(obj, workdir=None):
    """Re-runs one recorded sequence; -> summary (see summarize)"""
    import shutil
    import tempfile
    own = workdir is None
    if own:
        workdir = tempfile.mkdtemp(prefix="c12-replay-")
    try:
        res = run_sequence(obj["seq"], obj["render_seed"], workdir)
        return summarize(obj["seq"], obj["render_seed"], res)
    finally:
        if own:
            shutil.rmtree(workdir, ignore_errors=True)


def _worker(args):
    idx, jobs, scratch = args
    wd = os.path.join(scratch, "w%d" % idx)
    os.makedirs(wd, exist_ok=True)
    out = []
    for ji, seq, rseed in jobs:
        try:
            res = run_sequence(seq, rseed, wd)
            out.append((ji, summarize(seq, rseed, res)))
        except Exception:
            out.append((ji, {"render_seed": rseed, "error": traceback.format_exc(), "steps": [], "first": None,
                             "boot_ok": False}))
    return out


def replay_many(jobs, scratch, procs=16):
    """jobs: [(index, seq, render_seed)] -> {index: summary}"""
    procs = max(1, min(procs, len(jobs)))
    chunks = [(i, jobs[i::procs], scratch) for i in range(procs)]
    ctx = multiprocessing.get_context("fork")
    with ctx.Pool(procs) as pool:
        parts = pool.map(_worker, chunks)
    return {ji: s for part in parts for ji, s in part}


# ------------------------------------------------------------------------------------------------
# TLC
# ------------------------------------------------------------------------------------------------
def _cfg(scratch, tag, variant, devs, emit, edits=4, compound=False):
    fixed = devs == ("FALSE", "FALSE")
    p = os.path.join(scratch, "ReloadConfig_%s.cfg" % tag)
    with open(p, "w") as fh:
        fh.write(CFG % {"v": variant, "edits": edits, "d1": devs[0], "d2": devs[1],
                        "emit": "TRUE" if emit else "FALSE", "strict": STRICT if fixed else "",
                        "compound": "TRUE" if compound else "FALSE"})
    return p


def _seq_lines(out):
    return [l for l in out.splitlines() if l.startswith('"SEQ ')]


def _parse_seq(line):
    return json.loads(json.loads(line)[4:])


def _tlc_ok(r, what, verdict, complete=True):
    bad = r["rc"] != 0 or "Error:" in r["out"] or "violated" in r["out"]
    if complete and "Model checking completed. No error has been found." not in r["out"]:
        bad = True
    if bad:
        verdict.machinery.append("TLC %s: rc=%s\n%s" % (what, r["rc"], r["out"][-2500:]))
    return not bad


def run(prop, tier, seed):
    timer = checklib.Timer()
    verdict = checklib.Verdict(prop)
    rng = random.Random(seed)
    thorough = tier == "thorough"
    cov = {"states": 0, "transitions": 0, "traces_validated_against_impl": 0, "samples": [], "mc_configs": [],
           "exhaustive": True, "impl": {"repo": REPO, "files": ["circus/arbiter.py", "circus/config.py",
                                                                 "circus/util.py", "circus/watcher.py",
                                                                 "circus/commands/reloadconfig.py"]}}
    evidence = {"tier": tier, "seed": seed, "level": "model_checking", "coverage": cov,
                "assumptions": ["TLC and the CommunityModules Json module",
                                "the [circus] and socket sections are held fixed, as the statement says",
                                "watcher names distinct ignoring case (case variants belong to C15 / D9)",
                                "workers obey the stop signal; no worker dies on its own during a sequence",
                                "sim binding: real Arbiter/Watcher/Controller on a virtual-time loop over a "
                                "simulated kernel (harness/simdaemon.py); no zmq sockets"]}
    try:
        with tlcrun.Scratch() as scratch:
            _run(verdict, cov, tier, seed, rng, thorough, scratch)
            # the schedule half: Core.tla's model of reload_from_config and the C12 clauses of Monitors.tla on
            # reloads interleaved with deaths, periodic checks, read-only requests (harness/check_reload.py)
            # ... and TLC on Core itself: every interleaving of one or two reloads (numprocesses only, another key,
            # a section removed / added, all at once), a read-only request and a worker death (MC sets c12q / c12)
            from harness import checks_core
            mc = checks_core.model_check("C12", ["c12q"] if not thorough else ["c12q", "c12"], scratch, verdict,
                                         timeout=600 if not thorough else 3600)
            cov["core_mc_configs"] = mc["configs"]
            cov["states"] += mc["states"]
            cov["transitions"] += mc["transitions"]
            from harness import check_reload
            sched = check_reload.run_reload_sched(verdict, tier, seed, scratch, ("C12_",), n_quick=200, n_thorough=5000,
                                                  conf_quick=60, conf_thorough=800)
            cov["reload_schedules"] = sched
            cov["traces_validated_against_impl"] += int(sched.get("traces_validated_against_impl", 0))
            cov["states"] += int(sched.get("states", 0))
            cov["transitions"] += int(sched.get("transitions", 0))
    except Exception:
        verdict.machinery.append("exception in check_c12:\n" + traceback.format_exc())
    evidence["wall_s"] = timer.wall()
    evidence["notes"] = verdict.notes[:40]
    return verdict.finish(evidence)


def _run(verdict, cov, tier, seed, rng, thorough, scratch):
    fixed = ("FALSE", "FALSE")
    # --- (a) model checking -------------------------------------------------------------------
    # (tag, names, Dev_ constants, emit behaviours, extra TLC arguments, workers, MaxEdits)
    def simulate(num, k):
        return ["-simulate", "num=%d" % num, "-depth", "40", "-seed", str(seed * 10 + k)]
    # (a negative MaxEdits = that many edits WITH compound revisions: two keys / two sections in one file version)
    plans = [("two_ascoded_emit", "two", AS_CODED, True, [], 8, 4),
             ("two_fixed", "two", fixed, False, [], 4, 4),
             ("three_ascoded_sim", "three", AS_CODED, True, simulate(40 if not thorough else 2500, 1), 4, -4),
             ("two_ascoded_compound_emit", "two", AS_CODED, True, [], 4, -2),
             ("two_fixed_compound", "two", fixed, False, [], 4, -2)]
    if thorough:
        plans += [("two_fixed_compound3", "two", fixed, False, [], 12, -3),
                  ("two_ascoded_compound3", "two", AS_CODED, False, [], 12, -3),
                  ("three_ascoded", "three", AS_CODED, False, [], 12, 4),
                  ("three_fixed", "three", fixed, False, [], 12, 4),
                  ("two_ascoded_5", "two", AS_CODED, False, [], 8, 5),
                  ("two_fixed_5", "two", fixed, False, [], 8, 5),
                  ("three_ascoded_sim6", "three", AS_CODED, True, simulate(750, 2), 4, 6)]

    def one(pl):
        tag, variant, devs, emit, extra, workers, edits = pl
        return tlcrun.run_tlc("ReloadConfig_MC.tla", _cfg(scratch, tag, variant, devs, emit, abs(edits), edits < 0), scratch,
                              workers=workers, extra_args=extra, timeout=1500, heap="6g")
    first = plans[:5]
    with ThreadPoolExecutor(max_workers=5) as ex:
        outs = list(ex.map(one, first))
    for pl in plans[5:]:
        outs.append(one(pl))
    results = dict(zip([p[0] for p in plans], outs))
    tlc_wall = 0.0
    for pl in plans:
        tag = pl[0]
        r = results[tag]
        sim_mode = bool(pl[4])
        ok = _tlc_ok(r, tag, verdict, complete=not sim_mode)
        st = tlcrun.parse_stats(r["out"])
        if sim_mode:
            import re
            m = re.search(r"The number of states generated: (\d+)", r["out"])
            st = {"generated": int(m.group(1)) if m else 0, "distinct": 0, "depth": 0}
        else:
            cov["states"] += st["distinct"]
            cov["transitions"] += st["generated"]
        tlc_wall = max(tlc_wall, r["wall"]) if pl in first else tlc_wall + r["wall"]
        cov["mc_configs"].append({"name": tag, "names": pl[1], "devs": {"Dev_StaleCfgSnapshot": pl[2][0],
                                                                        "Dev_DiffIgnoresAddedKeys": pl[2][1]},
                                  "mode": "simulate" if sim_mode else "exhaustive", "complete": ok and not sim_mode,
                                  "generated": st["generated"], "distinct": st["distinct"], "depth": st["depth"],
                                  "max_edits": pl[6], "wall_s": round(r["wall"], 1)})
        if not sim_mode and not ok:
            cov["exhaustive"] = False
    cov["checker_cmd"] = results["two_ascoded_emit"]["cmd"]
    cov["tlc_wall_s"] = round(tlc_wall, 1)
    if verdict.machinery:
        return

    # --- sequences for the replay -----------------------------------------------------------------
    lines2 = sorted(set(_seq_lines(results["two_ascoded_emit"]["out"])))
    lines3 = sorted(set(_seq_lines(results["three_ascoded_sim"]["out"])))
    linesC = sorted(set(_seq_lines(results["two_ascoded_compound_emit"]["out"])))
    lines6 = sorted(set(_seq_lines(results["three_ascoded_sim6"]["out"]))) if thorough else []
    for tag in results:
        results[tag]["out"] = ""
    if not lines2 or not lines3 or (thorough and not lines6):
        verdict.machinery.append("TLC emitted no sequences (two names: %d, three names: %d, six edits: %d)" % (
            len(lines2), len(lines3), len(lines6)))
        return
    model_d8_2 = sum(1 for l in lines2 if "StaleCfgSnapshot" in l or "DiffIgnoresAddedKeys" in l)
    want2 = 300 if not thorough else 30000
    want3 = 100 if not thorough else 8000
    pick2 = lines2 if len(lines2) <= want2 else rng.sample(lines2, want2)
    pick3 = (lines3 if len(lines3) <= want3 else rng.sample(lines3, want3)) + lines6
    wantC = 150 if not thorough else 10000
    compound = [l for l in linesC if "set2" in l or "both" in l]
    pick3 = pick3 + (compound if len(compound) <= wantC else rng.sample(compound, wantC))
    seqs = [_parse_seq(l) for l in pick2 + pick3]
    cov["sequences_emitted"] = {"two_names_exhaustive": len(lines2), "three_names_simulated": len(lines3),
                                "three_names_six_edits_simulated": len(lines6),
                                "two_names_two_edits_with_compound_revisions": len(compound),
                                "two_names_violating_demanded_in_model": model_d8_2}
    jobs = [(i, s, (seed * 1000003 + i * 7919 + 11) & 0x7FFFFFFF) for i, s in enumerate(seqs)]
    t0 = time.time()
    summ = replay_many(jobs, scratch)
    cov["replay_wall_s"] = round(time.time() - t0, 1)

    # --- verdicts -----------------------------------------------------------------------------
    stats = {"sequences": len(jobs), "reloads": 0, "ok": 0, "divergence": 0, "d8": 0, "violation": 0,
             "model_counterexample_steps": 0, "model_counterexample_steps_reproduced": 0,
             "kinds": {}, "relations": {}, "d8_branches": {}, "spellings": 0, "errors": 0,
             "sequences_with_stream_options": 0, "sequences_with_hooks": 0}
    spell = set()
    reports = {"d8": 0, "violation": 0}
    per_branch = {}
    listed = FINDING in verdict.known and verdict.prop in verdict.known[FINDING].get("properties", [])
    for ji, seq, rseed in jobs:
        s = summ.get(ji)
        if s is None or s["error"] or not s["boot_ok"]:
            stats["errors"] += 1
            if stats["errors"] <= 3:
                verdict.machinery.append("replay of sequence %d failed: %s" % (
                    ji, (s or {}).get("error") or "boot on the first version did not yield the model's initial state"))
            continue
        sp = make_spelling(random.Random(rseed), list(seq["names"]))
        spell.add((tuple(sorted(sp["names"].values())), sp["cmd"], sp["opt"], sp["env"], sp["omit_np1"],
                   tuple(sorted((m, tuple(v)) for m, v in sp["extras"].items()))))
        if any(v[0] for v in sp["extras"].values()) or CMD_KEYS[sp["cmd"]][0].startswith("stdout_stream"):
            stats["sequences_with_stream_options"] += 1
        if any(v[1] for v in sp["extras"].values()):
            stats["sequences_with_hooks"] += 1
        for stp in s["steps"]:
            stats["reloads"] += 1
            stats[stp["cls"]] += 1
            for kd in stp["kinds"].values():
                stats["kinds"][kd] = stats["kinds"].get(kd, 0) + 1
            for rl in stp["rels"].values():
                stats["relations"][rl] = stats["relations"].get(rl, 0) + 1
            if stp["model_violates"]:
                stats["model_counterexample_steps"] += 1
                if stp["cls"] == "d8":
                    stats["model_counterexample_steps_reproduced"] += 1
            if stp["cls"] == "d8":
                for b in stp["whys"]:
                    stats["d8_branches"][b] = stats["d8_branches"].get(b, 0) + 1
            if not stp["reply_ok"] or not stp["settled"]:
                verdict.notes.append("sequence %d: reloadconfig reply not ok / not settled" % ji)
        f = s["first"]
        if f is None:
            continue
        obj = {"kind": "c12-sequence", "seq": seq, "render_seed": rseed, "failure": f,
               "how": "python -m harness.check_c12 --replay <this file>"}
        what = "step %d (%s): %s" % (f["step"], json.dumps(seq["steps"][f["step"] - 1]["ed"], sort_keys=True),
                                     "; ".join("%s[%s] %s" % v for v in [tuple(x) for x in f["violations"][:3]]))
        if f["cls"] == "d8":
            branches = tuple(sorted({b for bs in f["why"].values() for b in bs}))
            per_branch[branches] = per_branch.get(branches, 0) + 1
            # listed finding: count every hit; not (yet) listed: every hit would be a VIOLATION line with a replay
            # file of its own, three per Dev_ branch combination say it all
            if listed or per_branch[branches] <= 3:
                verdict.attributed(FINDING, "reloadconfig leaves the daemon different from a fresh start, exactly as the "
                                   "Dev_ branches %s of ReloadConfig.tla predict: %s" % (
                                       sorted({b for bs in f["why"].values() for b in bs}), what), obj)
            reports["d8"] += 1
        elif f["cls"] == "violation":
            if reports["violation"] < MAX_REPORTS:
                verdict.violation("C12 false on the real arbiter, not explained by the D8 signature "
                                  "(agrees with as-coded model: %s): %s" % (not f["cod_diffs"] and f["pid_ok"], what), obj)
            reports["violation"] += 1
        elif f["cls"] == "divergence":
            if len(verdict.notes) < 30:
                verdict.notes.append("DIVERGENCE (property intact): sequence %d step %d differs from the as-coded "
                                     "model: %r pid_ok=%s rel_ok=%s" % (ji, f["step"], f["cod_diffs"][:3], f["pid_ok"],
                                                                        f["rel_ok"]))
    stats["spellings"] = len(spell)
    if stats["divergence"]:
        print("DIVERGENCE: %d reload steps satisfy C12 but differ from the as-coded model (see evidence notes)"
              % stats["divergence"])
    if stats["model_counterexample_steps"] and not stats["model_counterexample_steps_reproduced"] \
            and AS_CODED != fixed and not stats["violation"]:
        verdict.notes.append("no model counterexample (D8) reproduced on the real code: if the code was repaired, flip "
                             "AS_CODED in harness/check_c12.py")
    cov["traces_validated_against_impl"] = stats["sequences"] - stats["errors"]
    cov["replay"] = stats
    cov["concretizations"] = len(spell)
    cov["cases"] = stats["reloads"]
    for ji, seq, rseed in jobs[:2] + jobs[-1:]:
        sp = make_spelling(random.Random(rseed), list(seq["names"]))
        cov["samples"].append({"edits": [s["ed"] for s in seq["steps"]], "init": seq["init"],
                               "files": [render(v, sp) for v in [seq["init"]] + [s["file"] for s in seq["steps"]]],
                               "as_coded": [s["cod"] for s in seq["steps"]], "demanded": [s["dem"] for s in seq["steps"]],
                               "why": [s["why"] for s in seq["steps"]],
                               "outcome": [x["cls"] for x in (summ.get(ji) or {"steps": []})["steps"]]})


def main(argv):
    if len(argv) >= 2 and argv[0] == "--replay":
        obj = json.load(open(argv[1]))
        s = replay_one(obj)
        print(json.dumps(s, indent=1, sort_keys=True, default=str)[:6000])
        bad = [x for x in s["steps"] if x["cls"] in ("violation", "d8")]
        if bad:
            print("VIOLATION property=C12 replay=%s" % argv[1])
            return 1
        return 2 if s["error"] else 0
    tier, seed = checklib.tier_seed(argv[0] if argv else None)
    return run("C12", tier, seed)


if __name__ == "__main__":
    sys.exit(main(sys.argv[1:]))

"""Live binding (DESIGN 4.2): a REAL `python -m circus.circusd` child with real workers, looked at from outside.

Shared by check_c07.py and check_c08live.py.  Nothing here asserts anything: it starts, drives, observes and
cleans up.  All timing constants go through T() and scale with the environment variable VERIF_LIVE_SCALE
(default 1; use 2 or 3 on a heavily loaded machine); no caller compares a duration with an exact value.
"""
import errno
import glob
import json
import os
import signal
import socket
import subprocess
import sys
import threading
import time

ROOT = os.path.dirname(os.path.dirname(os.path.abspath(__file__)))
REPO = os.environ.get("VERIF_REPO", "/repo")
PYTHON = "/venv/bin/python" if os.path.exists("/venv/bin/python") else sys.executable
WORKER = os.path.join(ROOT, "harness", "live", "worker.py")

try:
    SCALE = max(0.2, float(os.environ.get("VERIF_LIVE_SCALE", "1")))
except ValueError:
    SCALE = 1.0


def T(seconds):
    return seconds * SCALE


def worker_cmd(outdir, tag, *extra):
    return " ".join([PYTHON, "-S", "-B", WORKER, "--out", outdir, "--tag", tag] + [str(x) for x in extra])


# ------------------------------------------------------------------------------------------------
# /proc
# ------------------------------------------------------------------------------------------------
def proc_stat(pid):
    """-> dict(ppid, state, pgid, start_ticks) or None when there is no such process."""
    try:
        with open("/proc/%d/stat" % pid) as fh:
            s = fh.read()
    except OSError:
        return None
    try:
        rest = s[s.rindex(")") + 2:].split()
        return {"state": rest[0], "ppid": int(rest[1]), "pgid": int(rest[2]), "start_ticks": int(rest[19])}
    except (ValueError, IndexError):
        return None


def children_of(pid):
    """-> {child pid: state letter} of the direct children (zombies included)."""
    kids = set()
    got = False
    for path in glob.glob("/proc/%d/task/*/children" % pid):
        try:
            with open(path) as fh:
                kids.update(int(x) for x in fh.read().split())
            got = True
        except (OSError, ValueError):
            pass
    out = {}
    if got:
        # `children` omits zombies on some kernels?  It lists them; still, confirm through stat
        for k in kids:
            st = proc_stat(k)
            if st is not None and st["ppid"] == pid:
                out[k] = st["state"]
        return out
    for name in os.listdir("/proc"):
        if name.isdigit():
            st = proc_stat(int(name))
            if st is not None and st["ppid"] == pid:
                out[int(name)] = st["state"]
    return out


def fd_table(pid):
    """-> {fd: link target} of a process we may look at."""
    t = {}
    try:
        names = os.listdir("/proc/%d/fd" % pid)
    except OSError:
        return t
    for n in names:
        try:
            t[int(n)] = os.readlink("/proc/%d/fd/%s" % (pid, n))
        except (OSError, ValueError):
            pass
    return t


def socket_inode(target):
    if target and target.startswith("socket:[") and target.endswith("]"):
        try:
            return int(target[8:-1])
        except ValueError:
            return None
    return None


def tcp_listeners():
    """-> {inode: (ip, port)} of the IPv4 TCP sockets in LISTEN state."""
    out = {}
    try:
        with open("/proc/net/tcp") as fh:
            lines = fh.read().splitlines()[1:]
    except OSError:
        return out
    for ln in lines:
        f = ln.split()
        if len(f) < 10 or f[3] != "0A":
            continue
        try:
            addr, port = f[1].split(":")
            ip = socket.inet_ntoa(bytes.fromhex(addr)[::-1])
            out[int(f[9])] = (ip, int(port, 16))
        except (ValueError, OSError):
            pass
    return out


def unix_listeners():
    """-> {inode: path} of the unix sockets that accept connections (__SO_ACCEPTCON)."""
    out = {}
    try:
        with open("/proc/net/unix") as fh:
            lines = fh.read().splitlines()[1:]
    except OSError:
        return out
    for ln in lines:
        f = ln.split(None, 7)
        if len(f) < 7:
            continue
        try:
            flags = int(f[3], 16)
            ino = int(f[6])
        except ValueError:
            continue
        if flags & 0x10000:
            out[ino] = f[7] if len(f) > 7 else ""
    return out


def unix_bound():
    """-> {inode: path} of every unix socket bound to a path (stream, listening or not, and datagram)."""
    out = {}
    try:
        with open("/proc/net/unix") as fh:
            lines = fh.read().splitlines()[1:]
    except OSError:
        return out
    for ln in lines:
        f = ln.split(None, 7)
        if len(f) < 8:
            continue
        try:
            out[int(f[6])] = f[7]
        except ValueError:
            continue
    return out


def probe_unix_dgram(path, timeout=3.0):
    """a datagram reaches the socket bound at path (nobody has to read it: the queue takes it)"""
    s = socket.socket(socket.AF_UNIX, socket.SOCK_DGRAM)
    s.settimeout(T(timeout))
    try:
        s.sendto(b"", path)
        return "ok"
    except ConnectionRefusedError:
        return "refused"
    except FileNotFoundError:
        return "nofile"
    except OSError as e:
        return errno.errorcode.get(e.errno, str(e))
    finally:
        s.close()


def probe_inet(port, host="127.0.0.1", timeout=3.0):
    """connect() and close at once.  -> 'ok' | 'refused' | other errno name"""
    s = socket.socket(socket.AF_INET, socket.SOCK_STREAM)
    s.settimeout(T(timeout))
    try:
        s.connect((host, port))
        return "ok"
    except ConnectionRefusedError:
        return "refused"
    except OSError as e:
        return errno.errorcode.get(e.errno, str(e))
    finally:
        s.close()


def probe_unix(path, timeout=3.0):
    s = socket.socket(socket.AF_UNIX, socket.SOCK_STREAM)
    s.settimeout(T(timeout))
    try:
        s.connect(path)
        return "ok"
    except ConnectionRefusedError:
        return "refused"
    except FileNotFoundError:
        return "nofile"
    except OSError as e:
        return errno.errorcode.get(e.errno, str(e))
    finally:
        s.close()


_ports_lock = threading.Lock()
_ports_given = set()


def free_port():
    """A port nobody listens on right now, never handed out twice by this process."""
    with _ports_lock:
        for _ in range(200):
            s = socket.socket(socket.AF_INET, socket.SOCK_STREAM)
            try:
                s.bind(("127.0.0.1", 0))
                port = s.getsockname()[1]
            finally:
                s.close()
            if port not in _ports_given:
                _ports_given.add(port)
                return port
    raise RuntimeError("no free port")


def exists_same(pid, start_ticks):
    """Is the process recorded as (pid, start time) still in the process table?  -> state letter or None"""
    st = proc_stat(pid)
    if st is None:
        return None
    if start_ticks is not None and start_ticks >= 0 and st["start_ticks"] != start_ticks:
        return None          # the pid was recycled
    return st["state"]


# ------------------------------------------------------------------------------------------------
# worker records
# ------------------------------------------------------------------------------------------------
class Records(object):
    """The JSON records the workers wrote into one directory, read once each."""

    def __init__(self, directory):
        self.dir = directory
        self.by_file = {}

    def refresh(self):
        try:
            names = os.listdir(self.dir)
        except OSError:
            return self.by_file
        for n in names:
            if n.endswith(".json") and n not in self.by_file:
                try:
                    with open(os.path.join(self.dir, n)) as fh:
                        self.by_file[n] = json.load(fh)
                except (OSError, ValueError):
                    pass
        return self.by_file

    def by_pid(self):
        """pid -> latest record with that pid"""
        out = {}
        for r in self.refresh().values():
            if r["pid"] not in out or out[r["pid"]]["time"] < r["time"]:
                out[r["pid"]] = r
        return out


# ------------------------------------------------------------------------------------------------
# the daemon
# ------------------------------------------------------------------------------------------------
def _close_stdin():
    os.close(0)


class Daemon(object):
    def __init__(self, directory, ini_text, args=(), loglevel="info", env=None, stdin_closed=False):
        self.dir = directory
        os.makedirs(directory, exist_ok=True)
        self.ini = os.path.join(directory, "circus.ini")
        with open(self.ini, "w") as fh:
            fh.write(ini_text)
        self.endpoint = "ipc://%s/ctl.sock" % directory
        self.logpath = os.path.join(directory, "daemon.log")
        self.args = list(args)
        self.loglevel = loglevel
        self.env = env or {}
        self.stdin_closed = stdin_closed     # start circusd with descriptor 0 closed (`circusd ... <&-`)
        self.p = None
        self.t_start = None
        self.seen_children = {}      # pid -> start_ticks, everything ever seen as a direct child

    def start(self):
        env = dict(os.environ)
        env["PYTHONPATH"] = REPO
        env["PYTHONDONTWRITEBYTECODE"] = "1"
        env.pop("DEBUG", None)
        env.update(self.env)
        self._log = open(self.logpath, "wb")
        self.t_start = time.time()
        self.p = subprocess.Popen([PYTHON, "-B", "-m", "circus.circusd", "--log-level", self.loglevel] + self.args +
                                  [self.ini], cwd=self.dir, env=env, stdin=subprocess.DEVNULL, stdout=self._log,
                                  stderr=subprocess.STDOUT, close_fds=True, start_new_session=True,
                                  preexec_fn=(_close_stdin if self.stdin_closed else None))
        return self.p.pid

    @property
    def pid(self):
        return self.p.pid

    def alive(self):
        return self.p is not None and self.p.poll() is None

    def control_up(self):
        return os.path.exists(os.path.join(self.dir, "ctl.sock"))

    def wait_control(self, timeout):
        end = time.time() + timeout
        while time.time() < end:
            if not self.alive():
                return False
            if self.control_up():
                return True
            time.sleep(0.02)
        return False

    def children(self):
        kids = children_of(self.p.pid) if self.alive() else {}
        for k in kids:
            if k not in self.seen_children:
                st = proc_stat(k)
                if st is not None:
                    self.seen_children[k] = st["start_ticks"]
        return kids

    def fds(self):
        return fd_table(self.p.pid)

    def signal(self, sig):
        try:
            os.kill(self.p.pid, sig)
            return True
        except OSError:
            return False

    def wait(self, timeout):
        try:
            return self.p.wait(timeout=timeout)
        except subprocess.TimeoutExpired:
            return None

    def log_tail(self, n=2000):
        try:
            with open(self.logpath, "rb") as fh:
                return fh.read()[-n:].decode("utf8", "replace")
        except OSError:
            return ""

    def log_text(self):
        try:
            with open(self.logpath, "rb") as fh:
                return fh.read().decode("utf8", "replace")
        except OSError:
            return ""

    def destroy(self):
        """SIGKILL to the whole session/process group of the daemon (workers and their children included)."""
        if self.p is None:
            return
        try:
            os.killpg(self.p.pid, signal.SIGKILL)
        except OSError:
            pass
        # workers that made their own group/session cannot exist (the worker never does); still, kill
        # everything we ever saw as a child and that is still the same process
        for k, ticks in list(self.seen_children.items()):
            if exists_same(k, ticks) is not None:
                try:
                    os.kill(k, signal.SIGKILL)
                except OSError:
                    pass
        try:
            self.p.wait(timeout=10)
        except subprocess.TimeoutExpired:
            pass
        try:
            self._log.close()
        except (OSError, AttributeError):
            pass


# ------------------------------------------------------------------------------------------------
# control requests
# ------------------------------------------------------------------------------------------------
_import_lock = threading.Lock()


def _client_classes():
    with _import_lock:
        if REPO not in sys.path:
            sys.path.insert(0, REPO)
        from circus.client import CircusClient
        from circus.exc import CallError
        import zmq
    return CircusClient, CallError, zmq


class Ctl(object):
    """circus.client.CircusClient with its own zmq context; retries while the arbiter refuses with a conflict."""

    def __init__(self, endpoint, timeout=10.0):
        self.CircusClient, self.CallError, zmq = _client_classes()
        self.endpoint = endpoint
        self.timeout = T(timeout)
        self.ctx = zmq.Context()
        self.client = None
        self.conflicts = 0
        self.log = []               # (command, properties, reply summary)

    def _fresh(self, timeout=None):
        if self.client is not None:
            try:
                self.client.stop()
            except Exception:       # noqa
                pass
        self.client = self.CircusClient(context=self.ctx, endpoint=self.endpoint, timeout=timeout or self.timeout)

    def once(self, command, timeout=None, **props):
        """One request.  -> reply dict, or {'status': 'noreply', 'reason': ...}"""
        if self.client is None or timeout is not None:
            self._fresh(timeout)
        try:
            rep = self.client.send_message(command, **props)
        except self.CallError as e:
            self._fresh()           # a late reply must not be taken for the next one's (ids are checked anyway)
            rep = {"status": "noreply", "reason": str(e)}
        self.log.append((command, props, rep.get("status"), str(rep.get("reason", ""))[:100]))
        return rep

    @staticmethod
    def is_conflict(rep):
        return rep.get("status") == "error" and "arbiter is" in str(rep.get("reason", ""))

    def call(self, command, deadline, alive=None, **props):
        """Repeat while refused with a conflict (or unanswered), until `deadline`."""
        rep = {"status": "noreply", "reason": "not sent"}
        while True:
            rep = self.once(command, **props)
            if rep.get("status") == "ok" or (rep.get("status") not in ("noreply",) and not self.is_conflict(rep)):
                return rep
            if self.is_conflict(rep):
                self.conflicts += 1
            if time.time() > deadline or (alive is not None and not alive()):
                return rep
            time.sleep(T(0.05))

    def slot(self):
        """Which exclusive operation holds the arbiter's slot right now?  A `set` request without options is
        refused with 'arbiter is already running X command' when one does, and is a no-op otherwise.
        -> operation name, '' when free, None when there was no answer."""
        names = self.watcher_names
        rep = self.once("set", timeout=T(2.0), name=names[0], options={})
        self._fresh()
        if rep.get("status") == "ok":
            return ""
        if self.is_conflict(rep):
            r = str(rep.get("reason"))
            if "already running " in r:
                return r.split("already running ", 1)[1].split(" command")[0]
            if "restarting" in r:
                return "arbiter_restart (arbiter is restarting)"
            return r
        return None

    watcher_names = ("w",)

    def close(self):
        try:
            if self.client is not None:
                self.client.stop()
        except Exception:           # noqa
            pass
        try:
            self.ctx.term()
        except Exception:           # noqa
            pass

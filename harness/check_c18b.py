"""C18 (b): signal designations -- spec/Signum.tla bound to the real accepting sites of circus.

  "Signal designations (numbers, numeric strings, names with or without the SIG prefix in any letter case)
   denote the same signal everywhere they are accepted -- requests, the stop_signal option, configuration
   files -- and anything else is refused without a signal being sent."

Shape (O): TLC enumerates input class x site exhaustively (Signum.tla, one state per case) and writes every
case with what the statement demands (`dem`), what the code is modelled to do (`cod`, Dev_ branches TRUE) and
the deciding Dev_ branch (`dev`).  This harness renders each abstract case into concrete spellings (seeded),
feeds them to the real code at the site and compares:

  real satisfies dem                         -> fine (real != cod is reported as DIVERGENCE, exit 0)
  real violates dem, dev in D10's classes,
       and real == cod exactly               -> verdict.attributed("D10", ...)
  anything else                              -> verdict.violation(...)
  any signal sent while a site is exercised  -> verdict.violation(...)

`run_signum(verdict, tier, seed, scratch)` is the helper for the C18 check; `run(prop, tier, seed)` is a
stand-alone check that writes evidence under the id it is given (C18).
"""
import json
import os
import random
import signal
import sys
from concurrent.futures import ThreadPoolExecutor

ROOT = os.path.dirname(os.path.dirname(os.path.abspath(__file__)))
if ROOT not in sys.path:
    sys.path.insert(0, ROOT)

from harness import checklib, tlcrun  # noqa: E402

REPO = os.environ.get("VERIF_REPO", "/repo")

D10_DEVS = ("PrefixMatch", "NonSignalAttr")     # the signature classes of finding D10
FINDING = "D10"
MAX_REPORTS = 40       # replay files written for unexplained disagreements (all are counted)

JUNK = {"bang": "!", "spaceword": " junk", "minus": "-1", "plus": "+", "plusword": "+x", "nlword": "\nx",
        "comma": ",TERM"}
NUMJUNK = {"x": "9x", "bang": "9!", "space": "9 9", "plus": "9+1", "hex": "0x9"}


# ------------------------------------------------------------------------------------------------
# the signal table: Python's signal module, which is how the property defines "the signal named N"
# ------------------------------------------------------------------------------------------------
def signal_table():
    members = signal.Signals.__members__            # aliases (SIGIOT, SIGCLD, SIGPOLL) included
    sigs = [{"name": n[3:], "num": int(v)} for n, v in sorted(members.items(), key=lambda kv: (int(kv[1]), kv[0]))]
    nonsig, modattrs = [], []
    for a in sorted(dir(signal)):
        if a in members:
            continue
        v = getattr(signal, a)
        if a.startswith("SIG") and isinstance(v, int):
            nonsig.append({"name": a[3:], "num": int(v)})      # SIG_IGN -> "_IGN"
        else:
            modattrs.append(a)
    return {"signals": sigs, "nonsig": nonsig, "modattrs": modattrs,
            "rtmin": int(signal.SIGRTMIN), "rtmax": int(signal.SIGRTMAX), "kmax": signal.NSIG - 1}


class Reference(object):
    """Which strings ARE designations (used only to discard renderings of a near-miss class that happen to
    fall into another class, e.g. truncating SIGIOT gives SIGIO)."""

    def __init__(self, table):
        self.names = set()
        for s in table["signals"]:
            self.names.add(s["name"])
            self.names.add("SIG" + s["name"])
        self.attrs = set()
        for s in table["nonsig"]:
            self.attrs.add(s["name"])
            self.attrs.add("SIG" + s["name"])

    def hits(self, text):
        u = text.upper()
        return u in self.names or u in self.attrs


# ------------------------------------------------------------------------------------------------
# TLC
# ------------------------------------------------------------------------------------------------
def enumerate_cases(scratch, verdict):
    table = signal_table()
    tfile = os.path.join(scratch, "sig_table.json")
    with open(tfile, "w") as fh:
        json.dump(table, fh)
    out = os.path.join(scratch, "signum_cases.json")
    stats = {"states": 0, "transitions": 0, "tlc": []}
    data = None
    runs = (("Signum.cfg", {"SIG_TABLE": tfile, "OUT_FILE": out}), ("Signum_fixed.cfg", {"SIG_TABLE": tfile}))

    def one(ce):
        try:
            return tlcrun.run_tlc("Signum.tla", ce[0], scratch, workers=8, env=ce[1], timeout=600, heap="4g")
        except Exception as e:      # timeout etc.
            return {"rc": -1, "out": "exception: %r" % (e,), "wall": 0.0}
    with ThreadPoolExecutor(max_workers=2) as ex:
        results = list(ex.map(one, runs))
    failed = False
    for (cfg, env), r in zip(runs, results):
        st = tlcrun.parse_stats(r["out"])
        ok = "Model checking completed. No error has been found." in r["out"]
        stats["states"] += st["distinct"]
        stats["transitions"] += st["generated"]
        stats["tlc"].append({"cfg": cfg, "distinct": st["distinct"], "generated": st["generated"],
                             "complete": ok, "wall_s": round(r["wall"], 1)})
        if not ok:
            failed = True
            verdict.machinery.append("TLC did not complete on Signum.tla/%s: %s" % (cfg, r["out"][-1500:]))
    if failed:
        return None, table, stats
    try:
        with open(out) as fh:
            data = json.load(fh)
    except (OSError, ValueError) as e:
        verdict.machinery.append("Signum.tla wrote no readable case file: %r" % (e,))
        return None, table, stats
    if len(data["cases"]) != stats["tlc"][0]["distinct"]:
        verdict.machinery.append("Signum.tla: %d cases written, %d states" % (len(data["cases"]),
                                                                            stats["tlc"][0]["distinct"]))
    return data, table, stats


# ------------------------------------------------------------------------------------------------
# concretization
# ------------------------------------------------------------------------------------------------
def spell(base, case, rng):
    if case == "lower":
        return base.lower()
    if case == "upper":
        return base.upper()
    if case == "mixed":
        letters = [i for i, c in enumerate(base) if c.isalpha()]
        if len(letters) < 2:
            return None
        while True:
            s = "".join(c.upper() if rng.random() < 0.5 else c.lower() for c in base)
            if s != s.lower() and s != s.upper():
                return s
    return base


def base_of(case):
    return ("SIG" if case["kind"] == "signame" else "") + case["sig"]


def render(case, rng, ref):
    """One concrete input for the abstract case, or None when this drawing falls outside the class."""
    cls = case["cls"]
    if cls in ("int", "int_oor"):
        return case["n"]
    if cls in ("numstr", "numstr_oor"):
        return str(case["n"])
    if cls == "empty":
        return ""
    if cls == "numjunk":
        return NUMJUNK[case["junk"]]
    if cls == "sigalone":
        return spell("SIG", case["case"], rng)
    if cls == "modattr":
        s = spell(case["sig"], case["case"], rng)
        return None if s is None or ref.hits(s) else s
    s = spell(base_of(case), case["case"], rng)
    if s is None:
        return None
    if cls in ("name", "nonsigattr"):
        return s
    if cls in ("nameoff", "nameoff_oor"):
        return "%s+%d" % (s, case["n"])
    if cls == "unknown":
        return None if ref.hits(s) else s
    if cls == "junk":
        return s + JUNK[case["junk"]]
    if cls == "leadjunk":
        return rng.choice("!-+.") + s
    if cls == "trunc":
        t = s[:-1]
        return None if (not t or t.upper() == "SIG" or ref.hits(t)) else t
    if cls == "extended":
        t = s + rng.choice(["X", "x", "9", "_", "Z", "s"])
        return None if ref.hits(t) else t
    if cls == "embspace":
        ks = list(range(1, len(s)))
        rng.shuffle(ks)
        for k in ks:
            if not ref.hits(s[:k]):         # a head that is a name would make it the `junk` class
                return s[:k] + " " + s[k:]
        return None
    raise KeyError(cls)


# ------------------------------------------------------------------------------------------------
# the real code
# ------------------------------------------------------------------------------------------------
class SigLog(object):
    """Records every attempt to send a signal while a site is exercised (nothing is really sent)."""

    def __init__(self):
        self.log = []
        self.saved = []

    def _rec(self, what):
        def f(*a, **kw):
            self.log.append((what,) + tuple(repr(x) for x in a))
        return f

    def __enter__(self):
        import psutil
        targets = [(os, "kill"), (os, "killpg"), (signal, "pthread_kill"), (signal, "raise_signal"),
                   (psutil.Process, "send_signal"), (psutil.Process, "terminate"), (psutil.Process, "kill")]
        for obj, name in targets:
            if hasattr(obj, name):
                self.saved.append((obj, name, getattr(obj, name)))
                setattr(obj, name, self._rec(name))
        return self

    def __exit__(self, *a):
        for obj, name, old in self.saved:
            setattr(obj, name, old)
        self.saved = []

    def take(self):
        l, self.log = self.log, []
        return l


class Sites(object):
    """Each site: value -> the signal number the site ends up with; raises when the site refuses."""

    def __init__(self, scratch):
        if REPO not in sys.path:
            sys.path.insert(0, REPO)
        from circus import util
        from circus.commands.sendsignal import Signal
        from circus.commands.kill import Kill
        from circus.commands.set import Set
        from circus.commands.addwatcher import AddWatcher
        from circus.config import get_config
        from circus.watcher import Watcher
        self.util, self.Signal, self.Kill, self.Set, self.AddWatcher = util, Signal, Kill, Set, AddWatcher
        self.get_config, self.Watcher = get_config, Watcher
        self.ini = os.path.join(scratch, "signum.ini")
        self.circus_file = util.__file__

    @staticmethod
    def wire(obj):
        return json.loads(json.dumps(obj))

    def to_signum(self, v):
        return self.util.to_signum(v)

    def signal(self, v):
        props = self.wire({"name": "x", "signum": v})
        self.Signal().validate(props)
        return props["signum"]

    def kill(self, v):
        props = self.wire({"name": "x", "signum": v})
        self.Kill().validate(props)
        return props["signum"]

    def _set(self, props):
        self.Set().validate(props)
        w = self.Watcher("x", "sleep 1")
        for k, val in props["options"].items():
            w.set_opt(k, val)
        return w.stop_signal

    def set_cli(self, v):
        msg = self.Set().message("x", "stop_signal", v)          # circusctl: convert_option
        return self._set(self.wire(msg)["properties"])

    def set_wire(self, v):
        return self._set(self.wire({"name": "x", "options": {"stop_signal": v}}))

    def add_wire(self, v):
        props = self.wire({"name": "y", "cmd": "sleep 1", "options": {"stop_signal": v}})
        self.AddWatcher().validate(props)
        # AddWatcher.execute -> Arbiter.add_watcher(name, cmd, args=..., **options) -> Watcher(name, cmd, **options)
        w = self.Watcher(props["name"], props["cmd"], **props["options"])
        return w.stop_signal

    def setopt(self, v):
        w = self.Watcher("x", "sleep 1")
        w.set_opt("stop_signal", v)
        return w.stop_signal

    def ini_many(self, values):
        """values: list of texts -> list of numbers (one file, one [watcher:wN] section each)."""
        with open(self.ini, "w") as fh:
            fh.write("[circus]\ncheck_delay = 5\n")
            for i, v in enumerate(values):
                fh.write("[watcher:w%d]\ncmd = sleep 1\nstop_signal = %s\n" % (i, v))
        cfg = self.get_config(self.ini)
        by = dict((w["name"], w) for w in cfg["watchers"])
        res = []
        for i in range(len(values)):
            wc = by["w%d" % i]
            a = wc["stop_signal"]
            w = self.Watcher.load_from_config(dict(wc))
            res.append(a if _same(a, w.stop_signal) else ("split", a, w.stop_signal))
        return res

    def ini_one(self, v):
        return self.ini_many([v])[0]


def _same(a, b):
    return type(a) is type(b) and a == b


def observe(fn, v):
    """-> ("num", n) | ("refuse", exception class name) | ("other", repr)"""
    try:
        r = fn(v)
    except Exception as e:
        return ("refuse", type(e).__name__)
    if isinstance(r, int) and not isinstance(r, bool):
        return ("num", int(r))
    return ("other", repr(r))


def satisfies(real, dem, kmax):
    t = dem["t"]
    if t == "num":
        return real[0] == "num" and real[1] == dem["n"]
    if t == "num_or_refuse":
        return real[0] == "refuse" or (real[0] == "num" and real[1] == dem["n"])
    if t == "refuse":
        return real[0] == "refuse"
    if t == "nodeliver":
        return real[0] == "refuse" or (real[0] == "num" and not (1 <= real[1] <= kmax))
    raise KeyError(t)


def as_coded(real, cod):
    if real[0] != cod["t"]:
        return False
    return real[1] == (cod["n"] if cod["t"] == "num" else cod["exc"])


def show_dem(dem):
    return {"num": "the number %d" % dem["n"], "num_or_refuse": "the number %d, or a refusal" % dem["n"],
            "refuse": "a refusal", "nodeliver": "a refusal or a number the kernel cannot deliver"}[dem["t"]]


HARNESS_EXC = ("TypeError", "AttributeError", "NameError", "ImportError", "ModuleNotFoundError", "KeyError",
               "IndexError", "FileNotFoundError", "PermissionError", "OSError")


def canary(sites, verdict):
    """The binding itself: no site may fail on the plainest designation there is with an exception that smells
    of a broken harness (renamed attribute, changed signature, unwritable scratch): what follows would read
    that as refusals.  A wrong value or a proper refusal of 15 is left to the comparison (it is a violation)."""
    probes = [(n, 15) for n in ("to_signum", "signal", "kill", "set_wire", "add_wire", "setopt")] + \
             [("set_cli", "15"), ("ini_one", "15")]
    good = True
    for name, v in probes:
        r = observe(getattr(sites, name), v)
        if r[0] == "refuse" and r[1] in HARNESS_EXC:
            good = False
            verdict.machinery.append("site %s fails on %r with %s (binding broken?)" % (name, v, r[1]))
    return good


def judge(verdict, case, value, real, siglog, kmax, seed, counters, divs):
    rep = {"kind": "signum-case", "site": case["site"], "input": value, "case": case, "real": list(real),
           "signals_sent": siglog, "seed": seed, "repo": REPO}
    label = "%s(%r) [class %s/%s/%s%s]" % (case["site"], value, case["cls"], case["kind"], case["case"],
                                           "/" + case["junk"] if case["junk"] else "")
    if siglog:
        counters["violations"] += 1
        if counters["violations"] <= MAX_REPORTS:
            verdict.violation("a signal was sent while %s was being read: %r" % (label, siglog), rep)
        return
    if satisfies(real, case["dem"], kmax):
        if not as_coded(real, case["cod"]):
            counters["divergences"] += 1
            if len(divs) < 10:
                divs.append({"site": case["site"], "input": value, "real": list(real), "modelled": case["cod"]})
        return
    what = "%s gave %s; the statement demands %s" % (label, _show(real), show_dem(case["dem"]))
    if case["dev"] in D10_DEVS and as_coded(real, case["cod"]):
        key = "%s@%s" % (case["dev"], case["site"])
        counters["d10"][key] = counters["d10"].get(key, 0) + 1
        if counters["d10"][key] == 1:       # one report (and replay file) per signature class x site
            verdict.attributed(FINDING, what + " [Dev_%s]" % case["dev"], rep)
    else:
        counters["violations"] += 1
        if counters["violations"] <= MAX_REPORTS:
            verdict.violation(what, rep)


def _show(real):
    return "the number %d" % real[1] if real[0] == "num" else (
        "a refusal (%s)" % real[1] if real[0] == "refuse" else "the non-number %s" % (real[1],))


def run_signum(verdict, tier, seed, scratch):
    """TLC enumeration + replay on the real code.  Returns a coverage dict (counts measured in this run)."""
    t = checklib.Timer()
    data, table, stats = enumerate_cases(scratch, verdict)
    cov = {"states": stats["states"], "transitions": stats["transitions"], "tlc_runs": stats["tlc"],
           "exhaustive": bool(stats["tlc"]) and all(x["complete"] for x in stats["tlc"]),
           "traces_validated_against_impl": 0, "samples": [], "cases": 0, "concretizations": 0}
    if data is None:
        return cov
    cases, kmax = data["cases"], data["kmax"]
    rng = random.Random(seed * 7919 + 18)
    ref = Reference(table)
    nmixed = 2 if tier == "quick" else 32
    sites = Sites(scratch)
    counters = {"violations": 0, "divergences": 0, "d10": {}}
    divs, samples = [], []
    by_site, by_class, skipped, seen = {}, {}, 0, set()
    rendered_cases = 0
    with SigLog() as sl:
        if not canary(sites, verdict):
            return cov
        sl.take()
        ini_batch = []          # (case, value) expected to be accepted: many sections per file

        def done(case, value, real):
            lg = sl.take()
            judge(verdict, case, value, real, lg, kmax, seed, counters, divs)
            by_site[case["site"]] = by_site.get(case["site"], 0) + 1
            by_class[case["cls"]] = by_class.get(case["cls"], 0) + 1
            if len(samples) < 16 and (case["site"], case["cls"]) not in seen and rng.random() < 0.01:
                seen.add((case["site"], case["cls"]))
                samples.append({"site": case["site"], "class": case["cls"], "input": value,
                                "demanded": case["dem"], "modelled": case["cod"], "real": list(real)})

        def flush_ini():
            if not ini_batch:
                return
            vals = [v for _, v in ini_batch]
            try:
                nums = sites.ini_many(vals)
                reals = [("num", int(r)) if isinstance(r, int) and not isinstance(r, bool) else ("other", repr(r))
                         for r in nums]
            except Exception:
                reals = [observe(sites.ini_one, v) for v in vals]      # one of them is refused: one by one
            for (c, v), real in zip(ini_batch, reals):
                done(c, v, real)
            del ini_batch[:]

        for case in cases:
            n = nmixed if case["case"] == "mixed" else 1
            values = []
            for _ in range(n):
                v = render(case, rng, ref)
                if v is None:
                    skipped += 1
                elif v not in values:
                    values.append(v)
            if values:
                rendered_cases += 1
            for v in values:
                if case["site"] == "ini":
                    if case["cod"]["t"] == "num":
                        ini_batch.append((case, v))
                        if len(ini_batch) >= 64:
                            flush_ini()
                    else:
                        done(case, v, observe(sites.ini_one, v))
                else:
                    done(case, v, observe(getattr(sites, case["site"]), v))
        flush_ini()
    total = sum(by_site.values())
    for d in divs[:5]:
        print("DIVERGENCE (no property verdict): %s(%r) gives %r, modelled %r" % (
            d["site"], d["input"], d["real"], d["modelled"]))
    cov.update({"cases": len(cases), "cases_rendered": rendered_cases, "concretizations": total,
                "traces_validated_against_impl": total, "renderings_discarded_as_other_class": skipped,
                "by_site": by_site, "by_class": by_class, "samples": samples,
                "divergences": counters["divergences"], "divergence_samples": divs,
                "d10_signature_hits": counters["d10"], "unexplained_disagreements": counters["violations"],
                "signal_names": len(table["signals"]), "nonsignal_attrs": len(table["nonsig"]),
                "module_attrs": len(table["modattrs"]), "kmax": kmax, "circus": sites.circus_file,
                "wall_signum_s": t.wall(),
                "checker_cmd": "java -cp tla2tools.jar:CommunityModules-deps.jar tlc2.TLC -config Signum.cfg "
                               "Signum.tla (+ Signum_fixed.cfg)"})
    return cov


def replay_case(rep):
    """Re-run one recorded disagreement; prints what the site does now.  Returns 1 if it still violates."""
    with tlcrun.Scratch() as scratch:
        sites = Sites(scratch)
        fn = sites.ini_one if rep["site"] == "ini" else getattr(sites, rep["site"])
        with SigLog() as sl:
            real = observe(fn, rep["input"])
            lg = sl.take()
    ok = satisfies(real, rep["case"]["dem"], signal.NSIG - 1) and not lg
    print("replayed %s(%r): %s; demanded %s -> %s" % (rep["site"], rep["input"], _show(real),
                                                      show_dem(rep["case"]["dem"]), "ok" if ok else "VIOLATED"))
    return 0 if ok else 1


def run(prop, tier, seed):
    t = checklib.Timer()
    verdict = checklib.Verdict(prop)
    with tlcrun.Scratch() as scratch:
        try:
            cov = run_signum(verdict, tier, seed, scratch)
        except Exception:
            import traceback
            verdict.machinery.append("check_c18b: " + traceback.format_exc()[-1500:])
            cov = {}
    ev = {"tier": tier, "seed": seed, "level": "model_checking", "coverage": cov, "wall_s": t.wall(),
          "assumptions": ["Python's signal module defines what signal a name denotes (signal.Signals, as the "
                          "statement's oracle signal.<NAME>)",
                          "the kernel delivers exactly the signals 1..NSIG-1",
                          "add: Arbiter.add_watcher hands the validated options to Watcher(...) unchanged "
                          "(read from circus/arbiter.py, circus/commands/addwatcher.py)",
                          "TLC and the CommunityModules Json module"]}
    return verdict.finish(ev)


if __name__ == "__main__":
    _tier, _seed = checklib.tier_seed()
    sys.exit(run(sys.argv[1] if len(sys.argv) > 1 else "C18", _tier, _seed))

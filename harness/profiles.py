"""Named stimulus profiles: which part of the behaviour a batch of random scenarios exercises."""
from harness import scenario

PROFILES = {
    "default": {},
}


def generate(profile, seed):
    p = PROFILES[profile]
    if callable(p):
        return p(seed)
    return scenario.gen_scenario(seed, p)

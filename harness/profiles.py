"""Named stimulus profiles: which part of the behaviour a batch of random scenarios exercises."""
from harness import scenario

PROFILES = {
    "default": {},
}


def generate(profile, seed):
    p = PROFILES[profile]
    if callable(p):
        return p(seed)
    return scenario.gen_scenario(seed, p)


def conf_basic(seed):
    """Conformance profile: only behaviour that Core models; lower-case names; tick-aligned delays."""
    import random
    rng = random.Random(seed)
    nw = rng.choice([1, 1, 2])
    ws = []
    for i in range(nw):
        ws.append({"name": "w%d" % (i + 1), "np": rng.choice([0, 1, 1, 2, 2, 3]),
                   "G": rng.choice([0.0, 0.1, 0.2, 0.3]), "W": rng.choice([0.0, 0.0, 0.1, 0.2]),
                   "singleton": False, "respawn": rng.random() < 0.85, "priority": rng.choice([0, 0, 1]),
                   "autostart": rng.random() < 0.9})
    names = [w["name"] for w in ws]
    sc = {"seed": seed, "watchers": ws, "check_delay": rng.choice([0.3, 0.5]),
          "warmup_delay": rng.choice([0.0, 0.0, 0.1]),
          "stubborn": [n for n in names if rng.random() < 0.3],
          "obeys": [rng.random() < 0.8 for _ in range(5)], "instant_death": False, "script": [{"op": "boot"}]}
    s = sc["script"]
    s.append({"op": "tick", "n": rng.randint(0, 8)})
    cmds = ["incr", "decr", "set_np", "restart", "reload", "kill", "stop", "start", "status", "numprocesses",
            "signal"]
    p = {"cmds": cmds}
    for _ in range(rng.randint(2, 14)):
        r = rng.random()
        w = rng.choice(names)
        if r < 0.4:
            q = scenario.gen_request(rng, w, p, names)
            q["props"] = {k: v for k, v in q["props"].items() if k not in ("children", "recursive")}
            if "name" in q["props"]:
                q["props"]["name"] = q["props"]["name"].lower()
            if q["cmd"] == "list":
                q["props"] = {}
            s.append(q)
        elif r < 0.6:
            d = {"op": "die", "sel": [w, rng.randint(0, 3)], "status": rng.choice(scenario.EXIT_STATUSES)}
            if rng.random() < 0.3:
                d = {"op": "extkill", "sel": [w, rng.randint(0, 3)]}
            s.append(d)
        else:
            s.append({"op": "tick", "n": rng.randint(1, 5)})
    s.append({"op": "tick", "n": 12})
    s.append({"op": "end", "xprobe": False, "passes": 1, "noprobe": True})
    return sc


PROFILES["conf_basic"] = conf_basic


HOOK_NAMES = ["before_start", "after_start", "before_spawn", "after_spawn", "before_stop", "after_stop",
              "before_signal", "after_signal", "before_reap", "after_reap"]


def conf_full(seed, knobs=None):
    """Conformance profile with everything Core models: hooks, spawn faults, children, probes, deaths placed
    at kernel-call boundaries, requests between two callbacks, daemon signals, quit."""
    import random
    k = dict(hooks=0.4, faults=0.2, fork=0.2, probe=0.15, kdeath=0.3, partial=0.2, dsig=0.1, quit=0.05,
             sch=0.3, steps=14)
    k.update(knobs or {})
    rng = random.Random(seed)
    nw = k.get("nw") or rng.choice([1, 1, 2, 2, 3])
    ws = []
    for i in range(nw):
        w = {"name": "w%d" % (i + 1), "np": rng.choice([0, 1, 1, 2, 2, 3]),
             "G": rng.choice([0.0, 0.1, 0.2, 0.3]), "W": rng.choice([0.0, 0.0, 0.1, 0.2]),
             "singleton": False, "respawn": rng.random() < 0.85, "priority": rng.choice([0, 0, 1, 2]),
             "autostart": rng.random() < 0.9, "max_retry": rng.choice([1, 2, 5])}
        if rng.random() < 0.2:
            w["singleton"] = True
            w["np"] = rng.choice([0, 1])
        if rng.random() < k["sch"]:
            w["stop_children"] = True
        if rng.random() < 0.3:
            w["stop_signal"] = rng.choice([scenario.SIGINT, scenario.SIGQUIT, scenario.SIGUSR1])
        if rng.random() < 0.1:
            w["send_hup"] = True
        if rng.random() < k.get("mage", 0.1):
            w["max_age"] = rng.choice([1, 1, 2])            # whole seconds: Watcher() truncates to int
        if rng.random() < k["hooks"]:
            hooks = {}
            for h in rng.sample(HOOK_NAMES, rng.choice([1, 1, 2, 3])):
                hooks[h] = (rng.choice(["true", "true", "false", "raise"]), rng.random() < 0.5)
            w["hooks"] = hooks
        ws.append(w)
    names = [w["name"] for w in ws]
    sc = {"seed": seed, "watchers": ws, "check_delay": rng.choice([0.3, 0.5, 1.0]),
          "warmup_delay": rng.choice([0.0, 0.0, 0.1]),
          "stubborn": [n for n in names if rng.random() < 0.3],
          "obeys": [rng.random() < 0.8 for _ in range(5)], "instant_death": rng.random() < 0.15,
          "script": []}
    s = sc["script"]
    if rng.random() < k["faults"]:
        s.append({"op": "spawnfault", "kinds": [rng.choice(["OSError", "ValueError", None]) for _ in range(3)]})
    s.append({"op": "boot"})
    s.append({"op": "tick", "n": rng.randint(0, 8)})
    cmds = ["incr", "decr", "set_np", "set_multi", "restart", "reload", "kill", "stop", "start", "status", "numprocesses",
            "signal", "list", "get", "globaloptions", "listsockets"]
    p = {"cmds": k.get("cmds", cmds), "childsel": k.get("childsel", 0.2), "patterns": k.get("patterns", 0.15),
         "childany": k.get("childany", 0.1)}
    for _ in range(rng.randint(2, k["steps"])):
        r = rng.random()
        w = rng.choice(names)
        if r < 0.4:
            q = scenario.gen_request(rng, w, p, names)
            if "name" in q["props"]:
                q["props"]["name"] = q["props"]["name"].lower()
            if rng.random() < k["quit"]:
                q = {"op": "req", "cmd": "quit", "props": {"waiting": rng.random() < 0.5}}
            s.append(q)
            if rng.random() < k["partial"]:
                s[-1]["drain"] = False
                s.append({"op": "run", "n": rng.randint(1, 3)})
        elif r < 0.6:
            d = {"op": "die", "sel": [w, rng.randint(0, 3)], "status": rng.choice(scenario.EXIT_STATUSES)}
            if rng.random() < k["kdeath"]:
                d["k"] = rng.randint(1, 8)
            if rng.random() < 0.3:
                d = {"op": "extkill", "sel": [w, rng.randint(0, 3)]}
            s.append(d)
        elif r < 0.6 + k["fork"] * 0.3:
            s.append({"op": "fork", "sel": [w, rng.randint(0, 3)], "obeys": rng.random() < 0.7, "deep": rng.random() < 0.3})
        elif r < 0.7 and rng.random() < k["faults"]:
            s.append({"op": "spawnfault", "kinds": [rng.choice(["OSError", "ValueError", None])
                                                     for _ in range(rng.randint(1, 3))]})
        elif r < 0.72 and rng.random() < k["dsig"] * 5:
            s.append({"op": "dsig", "sig": rng.choice([scenario.SIGTERM, scenario.SIGINT, scenario.SIGQUIT, scenario.SIGHUP, scenario.SIGHUP, 28])})
        else:
            s.append({"op": "tick", "n": rng.randint(1, 5)})
        if rng.random() < k["probe"]:
            s.append({"op": "probe"})
    s.append({"op": "tick", "n": 12})
    s.append({"op": "end", "xprobe": False, "passes": 1})
    return sc


PROFILES["conf_full"] = conf_full

ALLCMDS = ["incr", "decr", "set_np", "restart", "reload", "kill", "signal", "stop", "start", "status", "list",
           "numprocesses"]
PROFILES.update({
    "count": {"singleton": True, "max_age": 0.3, "mage_vars": [0, 1, 2], "cmds": ["incr", "decr", "set_np", "set_multi", "set_multi", "restart", "reload", "kill"], "steps": 30},
    "stop": {"cmds": ["stop", "stop", "rm", "kill", "restart", "start", "incr", "decr", "set_np", "set_opt", "set_opt", "status"], "stubborn": 0.5,
             "kcall_deaths": 0.6, "hooks": ["after_spawn", "before_stop", "after_stop"], "norespawn": True,
             "stop_children": True, "fork": 0.35, "patterns": 0.35, "watchers": 3},
    "term": {"max_age": 0.3, "killover": 0.6, "Gs": [0.0, 0.2, 0.3, 0.5, 0.8, 0.05, 0.25, 0.45, 0.95], "stop_children": True, "stop_signal": True, "fork": 0.3, "childsel": 0.5, "stubborn": 0.5,
             "cmds": ["stop", "kill", "decr", "restart", "reload", "signal"], "instant": 0.2},
    "acct": {"watchers": 3, "badnb": 0.05, "hooks": ["before_spawn", "after_spawn", "before_start", "after_start", "before_reap", "after_reap"], "faults": 0.3,
             "kcall_deaths": 0.6, "die_untracked": 0.3,
             "cmds": ["start", "stop", "incr", "decr", "kill", "restart", "list", "numprocesses", "rm"],
             "norespawn": True},
    "overlap": {"sigstop": 0.5, "faults": 0.2, "max_age": 0.35, "Gs": [0.2, 0.3, 0.5, 1.0], "cmds": ["kill", "kill", "signal", "stop", "restart", "reload", "start", "incr", "decr", "decr", "set_np", "status", "list",
                         "numprocesses", "get", "globaloptions", "listsockets", "options", "stats"], "stubborn": 0.6, "partial": 0.5, "steps": 20},
    "events": {"cmds": ["incr", "decr", "set_np", "reload", "kill", "stop", "start", "restart", "status", "status", "signal", "signal"],
               "kcall_deaths": 0.5, "sigsoft": 0.6, "sigrec": 0.6, "fork": 0.15, "steps": 30},
    "excl": {"cmds": ["start", "stop", "restart", "restart", "reload", "incr", "decr", "set_np", "set_opt", "set_opt", "kill", "rm", "add", "add"], "stubborn": 0.5, "partial": 0.7,
             "patterns": 0.4, "watchers": 3,
             "hooks": ["before_start", "after_start", "before_spawn"], "faults": 0.2, "singleton": True,
             "deaths": False, "steps": 20},
    "hooks": {"sigkill": 0.35, "sighook": 0.4, "hooks": HOOK_NAMES[:8], "cmds": ["start", "stop", "restart", "signal", "kill", "reload"],
              "stubborn": 0.5, "steps": 16},
    "signals": {"watchers": 3, "stop_children": True, "stop_signal": True, "fork": 0.25, "anypid": 0.7, "childany": 0.3, "childsel": 0.2, "cmds": ["signal", "signal", "kill", "stop", "incr"],
                "steps": 18},
    "boot": {"watchers": 4, "autostart": True, "patterns": 0.5, "hooks": ["before_spawn", "after_spawn"], "slowhooks": 0.8,
             "Ws": [0.0, 0.1, 0.2, 0.3], "wgs": [0.0, 0.1, 0.3, 0.5], "cmds": ["restart", "start", "stop"], "steps": 8, "kcall_deaths": 0.6,
             "check_delays": [1.0, 2.0]},
    "shutdown": {"dsig": 0.5, "cmds": ["quit", "stop", "restart", "incr", "kill", "status", "start", "start"], "stubborn": 0.4,
                 "autostart": True, "watchers": 3,
                 "partial": 0.4, "steps": 14, "xprobe": False},
})


def directory(seed, conf=False):
    """add / rm / start / stop over a small name pool with case variants and an empty name (C15)."""
    import random
    import shlex
    rng = random.Random(seed)
    pool = ["a", "A", "b", "Ab", "aB", "", "x-y", "my app"]
    init = rng.sample(["a", "b", "x-y", "my app", "Ab"], rng.choice([1, 2]))     # (names present from the start: most operations reach them)
    ws = [{"name": n, "np": rng.choice([0, 1, 2]), "G": rng.choice([0.0, 0.1, 0.2]), "W": rng.choice([0.0, 0.1]),
           "priority": rng.choice([0, 1])} for n in init]
    sc = {"seed": seed, "watchers": ws, "check_delay": rng.choice([0.3, 0.5]), "warmup_delay": 0.0,
          "stubborn": [n for n in init if rng.random() < 0.3], "obeys": [True, True, False, True],
          "instant_death": False, "script": [{"op": "boot"}, {"op": "tick", "n": rng.randint(0, 6)}]}
    if seed % 4 == 3:       # endpoint-owner mode: only an add that names the owner as uid is let in
        sc["endpoint_owner"] = "root"
    s = sc["script"]
    released = set()      # names removed with nostop: their workers live on; the name is not re-added, so that
    present = [w["name"] for w in ws]     # (the generator's guess of what exists: start / stop mostly go there)
    for _ in range(rng.randint(4, 16)):      # two observable watchers never share a (case-insensitive) name
        r = rng.random()
        n = rng.choice(pool)
        if 0.5 <= r < 0.7 and present and rng.random() < 0.6:
            n = rng.choice(present)
            if rng.random() < 0.3:
                n = n.swapcase()
        if r < 0.3 and n.lower() in released:
            r = 0.95
        if r < 0.3:
            props = {"name": n, "cmd": "simworker " + shlex.quote(n), "start": rng.random() < 0.5,
                     "options": {"numprocesses": rng.choice([0, 1, 2]), "graceful_timeout": rng.choice([0, 0.1, 0.2]),
                                 "warmup_delay": rng.choice([0, 0.1])}}
            if rng.random() < 0.15:
                props["options"]["singleton"] = True
            if sc.get("endpoint_owner"):
                u = rng.choice([None, "root", "root", "nobody", 0])
                if u is not None:
                    props["options"]["uid"] = u
            s.append({"op": "req", "cmd": "add", "props": props})
            if n and n.lower() not in [x.lower() for x in present]:
                present.append(n)
        elif r < 0.5:
            ns = rng.random() < 0.3
            if ns:
                released.add(n.lower())
            s.append({"op": "req", "cmd": "rm", "props": {"name": n, "nostop": ns, "waiting": rng.random() < 0.5}})
            present = [x for x in present if x.lower() != n.lower()]
        elif r < 0.7:
            cmd = rng.choice(["start", "stop", "restart", "incr", "status", "numprocesses", "list"])
            props = {"name": n}
            if cmd in ("start", "stop", "restart", "incr"):
                props["waiting"] = rng.random() < 0.5
                if not conf and rng.random() < 0.5:      # (otherwise the default: the name is matched as a glob)
                    props["match"] = "simple" if cmd != "incr" else None
                    if props["match"] is None:
                        props.pop("match")
            s.append({"op": "req", "cmd": cmd, "props": props})
        elif r < 0.8:
            if released and rng.random() < 0.5:
                s.append({"op": "die", "untracked": rng.randint(0, 3), "status": rng.choice(scenario.EXIT_STATUSES)})
            else:
                s.append({"op": "die", "sel": [n or "a", rng.randint(0, 2)], "status": rng.choice(scenario.EXIT_STATUSES)})
        else:
            s.append({"op": "tick", "n": rng.randint(1, 5)})
        if rng.random() < 0.35:
            s.append({"op": "probe"})
    s.append({"op": "tick", "n": 8})
    s.append({"op": "end", "xprobe": False, "passes": 2})
    return sc


PROFILES["directory"] = directory
PROFILES["conf_dir"] = lambda seed: directory(seed, conf=True)


def refusal(seed):
    """C11: corrupted versions of valid requests fired at reachable daemon states (several watchers, stopped and
    active, an operation in flight); the monitors compare the observable state before and after each refusal."""
    import random
    rng = random.Random(seed)
    ws = [{"name": "w1", "np": rng.choice([1, 2]), "G": rng.choice([0.1, 0.3]), "W": rng.choice([0.0, 0.1])},
          {"name": "w2", "np": 1, "G": 0.2, "W": 0.0, "singleton": True},
          {"name": "w3", "np": rng.choice([0, 1]), "G": 0.1, "W": 0.0, "autostart": rng.random() < 0.5}]
    sc = {"seed": seed, "watchers": ws, "check_delay": 0.5, "warmup_delay": 0.0, "stubborn": ["w1"] if rng.random() < 0.5 else [],
          "obeys": [True], "instant_death": False, "script": [{"op": "boot"}, {"op": "tick", "n": rng.randint(2, 8)}]}
    if seed % 5 == 4:
        sc["endpoint_owner"] = "root"
    s = sc["script"]
    names = ["w1", "w2", "w3", "W1", "nosuch", "", 7]
    sigs = ["bogus", "SIG", "", 99999, "TERM ", None, [], "KILL!"]

    state = {"i": 0}

    def corrupt():
        k = rng.choice([0, 1, 2, 3, 4, 5, 6, 6, 6, 7, 7, 8, 9, 10, 11, 12, 13, 14, 14, 15])
        n = rng.choice(["w1", "w2", "w3"])
        if k == 0:
            return {"op": "req", "cmd": None, "raw": rng.choice(['{"command": "stop", "properties": {"name": "w1"}',
                                                                   'stop w1', '{"command": stop}', '\x00\x01'])}
        if k == 1:
            return {"op": "req", "cmd": rng.choice(["stopp", "", "KILLALL", "st op"]), "props": {"name": n}}
        if k == 2:
            return {"op": "req", "cmd": rng.choice(["stop", "incr", "kill", "signal", "rm", "set", "options", "reload"]),
                    "props": {"name": rng.choice(["nosuch", "w9", "W 1"]), "signum": 15, "options": {"numprocesses": 2}}}
        if k == 3:
            return {"op": "req", "cmd": rng.choice(["incr", "decr", "kill", "rm", "set", "add", "signal"]), "props": {}}
        if k == 4:
            return {"op": "req", "cmd": "set", "props": {"name": n, "options": rng.choice([[1], "x", 3])}}
        if k == 5:
            return {"op": "req", "cmd": "set", "props": {"name": n, "options": {rng.choice(["nosuchoption", "numprocesse", ""]): 2}}}
        if k == 6:      # ill-typed value for any typed option, alone or after options that are fine
            table = [(["numprocesses", "max_retry", "max_age", "max_age_variance", "stop_signal"],
                      ["x", "NOSUCHSIG", "TERM", 1.5, None, []]),
                     (["warmup_delay", "retry_in", "graceful_timeout"], ["x", None, [], {"a": 1}]),
                     (["uid", "gid"], [1.5, [], None]),
                     (["send_hup", "shell", "copy_env", "respawn", "stop_children", "close_child_stdin"],
                      ["yes", 1, None, "true"]),
                     (["env"], ["x", {"A": 1}, 3]), (["hooks"], ["x", {"nosuch_hook": "a.b"}]),
                     (["stderr_stream", "stdout_stream"], ["x", {}, {"filename": "/tmp/x"}]),
                     (["rlimit_nofile", "rlimit_bogus"], ["x", 1.5])]
            flat = [(kk, vv) for keys, vals in table for kk in keys for vv in vals]
            state["i"] += 1          # walk the whole (option, bad value) table systematically across scenarios
            bad = flat[(seed * 5 + state["i"]) % len(flat)]
            if bad[0] == "rlimit_bogus":
                bad = ("rlimit_bogus", 1)
            good = [("warmup_delay", 0.2), ("graceful_timeout", 0.4), ("max_retry", 3), ("numprocesses", 2)]
            items = rng.sample(good, rng.choice([0, 1, 1, 2]))
            if rng.random() < 0.25:
                # the value most easily let through: a string where a signal is expected (only names of signals are
                # signals), behind options that are fine and visible when applied
                bad = ("stop_signal", rng.choice(["NOSUCHSIG", "bogus", "SIGFOO", "TERMX", "sig"]))
                items = rng.sample(good, rng.choice([1, 2, 3]))
            items = [g for g in items if g[0] != bad[0]]
            items.insert(rng.choice([len(items), len(items), rng.randint(0, len(items))]), bad)
            return {"op": "req", "cmd": "set", "props": {"name": rng.choice(["w1", "w3"]), "options": dict(items),
                                                         "waiting": rng.random() < 0.3}}
        if k == 7:      # semantically invalid values; multi-option with the bad one in any position
            good = [("warmup_delay", 0.2), ("graceful_timeout", 0.4), ("max_retry", 3)]
            bad = rng.choice([("numprocesses", 3) if n == "w2" else ("uid", "no-such-user-xyz"),
                              ("gid", "no-such-group-xyz"), ("hooks.before_start", "nosuchmodule.fn,false"),
                              ("uid", "no-such-user-xyz")])
            items = rng.sample(good, rng.choice([0, 1, 2]))
            items.insert(rng.randint(0, len(items)), bad)
            return {"op": "req", "cmd": "set", "props": {"name": n if bad[0] != "numprocesses" else "w2",
                                                         "options": dict(items), "waiting": rng.random() < 0.5}}
        if k == 8:
            return {"op": "req", "cmd": rng.choice(["signal", "kill"]), "props": {"name": n, "signum": rng.choice(sigs)}}
        if k == 9:
            return {"op": "req", "cmd": "add", "props": {"name": rng.choice(["w1", "W2", "w3"]), "cmd": "simworker x",
                                                         "start": rng.random() < 0.5}}
        if k == 10 and sc.get("endpoint_owner") and rng.random() < 0.7:
            # endpoint-owner mode: an otherwise perfect add without the owner's uid
            o = {"numprocesses": 1}
            u = rng.choice([None, "nobody", 0, "ROOT"])
            if u is not None:
                o["uid"] = u
            return {"op": "req", "cmd": "add", "props": {"name": "n%d" % rng.randint(1, 3), "cmd": "simworker x",
                                                         "start": rng.random() < 0.5, "options": o}}
        if k == 10:
            return {"op": "req", "cmd": "add", "props": {"name": "n%d" % rng.randint(1, 3), "cmd": "simworker x",
                                                         "options": rng.choice([{"nosuch": 1}, {"numprocesses": "x"},
                                                                                {"singleton": True, "numprocesses": 3},
                                                                                {"stop_signal": "bogus"}, [1]])}}
        if k == 11:
            return {"op": "req", "cmd": rng.choice(["start", "stop", "restart"]), "props": {"name": n, "match": "nosuch"}}
        if k == 12:
            return {"op": "req", "cmd": "signal", "props": {"name": n, "signum": 15, "childpid": 424242}}
        if k == 13:
            return {"op": "req", "cmd": rng.choice(["incr", "decr"]), "props": {"name": n, "nb": rng.choice(["x", None, [], 1.5])}}
        if k == 14:     # conflicts: exclusive requests while something is in flight
            c = rng.choice(["stop", "start", "incr", "set", "rm", "add", "add", "reload", "quit", "restart"])
            q = {"op": "req", "cmd": c, "props": {"name": n, "options": {"numprocesses": 1}, "cmd": "simworker x"},
                 "conflict": True}
            if c == "add":      # a NEW name: the only thing that refuses it is the operation in flight
                q["props"] = {"name": "n%d" % rng.randint(1, 3), "cmd": "simworker x", "start": rng.random() < 0.7}
            return q
        return {"op": "req", "cmd": "stats", "props": {"name": n, "process": rng.choice([99, "x", -1])}}

    for _ in range(rng.randint(8, 22)):
        r = rng.random()
        if r < 0.6:
            q = corrupt()
            if q.get("cmd") == "add" and isinstance(q.get("props"), dict) and isinstance(q["props"].get("name"), str):
                q["props"]["cmd"] = "simworker " + q["props"]["name"]      # (the sim kernel labels a child by this)
            if q.pop("conflict", False):
                # first put a slow operation in flight (a stop of the stubborn watcher), do not let it finish
                s.append({"op": "req", "cmd": rng.choice(["stop", "restart"]), "props": {"name": "w1"}, "drain": False})
                s.append({"op": "run", "n": rng.randint(0, 2)})
                s.append(q)
                s.append({"op": "tick", "n": rng.randint(1, 6)})
            else:
                s.append(q)
        elif r < 0.75:
            s.append({"op": "req", "cmd": rng.choice(["stop", "start", "incr", "decr", "restart"]),
                      "props": {"name": rng.choice(["w1", "w2", "w3"]), "waiting": rng.random() < 0.5}})
        elif r < 0.85:
            s.append({"op": "die", "sel": [rng.choice(["w1", "w2", "w3"]), 0], "status": 256})
        else:
            s.append({"op": "tick", "n": rng.randint(1, 4)})
    s.append({"op": "tick", "n": 8})
    s.append({"op": "end", "xprobe": True, "passes": 1})
    return sc


PROFILES["refusal"] = refusal


_HOOKS_BASE = PROFILES["hooks"]


def hooks_profile(seed):
    """Random hook scenarios, plus (every 4th seed) a template aimed at 'SIGKILL is always sent': a watcher whose
    before_signal hook vetoes, and explicit signal / kill requests naming SIGKILL in several spellings."""
    import random
    if seed % 4 != 0:
        return scenario.gen_scenario(seed, _HOOKS_BASE)
    rng = random.Random(seed)
    out = rng.choice(["false", "false", "raise"])
    hooks = {"before_signal": (out, rng.random() < 0.3)}
    if rng.random() < 0.5:
        hooks["after_signal"] = (rng.choice(["true", "false"]), False)
    ws = [{"name": "w1", "np": rng.choice([1, 2]), "G": rng.choice([0.1, 0.2]), "W": 0.0, "hooks": hooks},
          {"name": "w2", "np": 1, "G": 0.1, "W": 0.0}]
    s = [{"op": "boot"}, {"op": "tick", "n": rng.randint(2, 6)}]
    for _ in range(rng.randint(2, 5)):
        sig = rng.choice([scenario.SIGKILL, "kill", "SIGKILL", "9", scenario.SIGTERM, "hup"])
        props = {"name": rng.choice(["w1", "w1", "w2"]), "signum": sig}
        if rng.random() < 0.4:
            props["pidsel"] = rng.randint(0, 2)
        if rng.random() < 0.2:
            props["recursive"] = True
        s.append({"op": "req", "cmd": "signal", "props": props})
        s.append({"op": "tick", "n": rng.randint(1, 4)})
        if rng.random() < 0.3:
            s.append({"op": "req", "cmd": "kill", "props": {"name": "w1", "signum": rng.choice([scenario.SIGKILL, "kill"]),
                                                             "waiting": rng.random() < 0.5}})
            s.append({"op": "tick", "n": rng.randint(1, 4)})
    s.append({"op": "tick", "n": 8})
    s.append({"op": "end", "xprobe": True, "passes": 1})
    return {"seed": seed, "watchers": ws, "check_delay": 0.5, "warmup_delay": 0.0, "stubborn": [], "obeys": [True],
            "instant_death": False, "script": s}


PROFILES["hooks"] = hooks_profile


_COUNT_BASE = PROFILES["count"]


def count_profile(seed):
    """Random count scenarios, plus (every 3rd seed) a template: a worker dies and, before any periodic check has
    seen it, a restart / reload / incr / decr / set arrives; then the daemon is left alone to converge."""
    import random
    if seed % 3 != 0:
        return scenario.gen_scenario(seed, _COUNT_BASE)
    rng = random.Random(seed)
    ws = [{"name": "w1", "np": rng.choice([1, 2, 3]), "G": rng.choice([0.0, 0.1, 0.3]), "W": rng.choice([0.0, 0.1])}]
    if rng.random() < 0.4:
        ws.append({"name": "w2", "np": 1, "G": 0.1, "W": 0.0})
    s = [{"op": "boot"}, {"op": "tick", "n": rng.randint(3, 9)}]
    for _ in range(rng.randint(1, 3)):
        for _ in range(rng.choice([1, 1, 2])):
            s.append(rng.choice([{"op": "die", "sel": ["w1", rng.randint(0, 2)], "status": rng.choice(scenario.EXIT_STATUSES)},
                                 {"op": "extkill", "sel": ["w1", rng.randint(0, 2)]}]))
        cmd = rng.choice(["reload", "reload", "restart", "incr", "decr", "set_np", "reload_seq"])
        if cmd == "reload":
            props = {"name": "w1", "waiting": rng.random() < 0.5, "graceful": True, "sequential": False}
        elif cmd == "reload_seq":
            cmd, props = "reload", {"name": "w1", "waiting": True, "graceful": True, "sequential": True}
        elif cmd == "set_np":
            cmd, props = "set", {"name": "w1", "options": {"numprocesses": rng.choice([1, 2, 3])}}
        elif cmd in ("incr", "decr"):
            props = {"name": "w1", "nb": 1, "waiting": rng.random() < 0.5}
        else:
            props = {"name": "w1", "waiting": rng.random() < 0.5}
        s.append({"op": "req", "cmd": cmd, "props": props})
        s.append({"op": "tick", "n": rng.randint(2, 10)})
    s.append({"op": "end", "xprobe": True, "passes": 3})
    return {"seed": seed, "watchers": ws, "check_delay": rng.choice([0.5, 1.0]), "warmup_delay": 0.0,
            "stubborn": ["w1"] if rng.random() < 0.2 else [], "obeys": [True], "instant_death": False, "script": s}


PROFILES["count"] = count_profile


_TERM_BASE = PROFILES["term"]
_OVERLAP_BASE = PROFILES["overlap"]


def term_profile(seed):
    """Random termination scenarios, plus (every 3rd seed) a template: stubborn / obedient workers (with children when
    stop_children is set), terminations of every cause with per-request overrides of signal and grace period."""
    import random
    if seed % 3 != 0:
        return scenario.gen_scenario(seed, _TERM_BASE)
    rng = random.Random(seed)
    sch = rng.random() < 0.5
    ws = [{"name": "w1", "np": rng.choice([1, 2]), "G": rng.choice([0.2, 0.3, 0.5, 0.8]), "W": 0.0, "stop_children": sch,
           "stop_signal": rng.choice([scenario.SIGTERM, scenario.SIGINT, scenario.SIGQUIT])}]
    s = [{"op": "boot"}, {"op": "tick", "n": rng.randint(2, 6)}]
    if sch:
        for _ in range(rng.randint(1, 2)):
            s.append({"op": "fork", "sel": ["w1", rng.randint(0, 1)], "obeys": rng.random() < 0.5})
        if rng.random() < 0.6:
            # the children of a worker change over time: one is addressed by a request, others are born afterwards;
            # a termination reaches the children the worker has THEN
            k = rng.randint(0, 1)
            s.append({"op": "req", "cmd": "signal", "props": {"name": "w1", "pidsel": k, "childsel": 0,
                                                              "signum": rng.choice([0, int(scenario._signal.SIGWINCH), "chld"])}})
            s.append({"op": "tick", "n": rng.randint(0, 2)})
            for _ in range(rng.randint(1, 2)):
                s.append({"op": "fork", "sel": ["w1", k], "obeys": rng.random() < 0.5})
    for _ in range(rng.randint(1, 3)):
        c = rng.choice(["kill", "kill", "kill", "stop", "decr", "restart", "reload_seq"])
        if c == "kill":
            props = {"name": "w1", "waiting": rng.random() < 0.5}
            if rng.random() < 0.8:
                props["graceful_timeout"] = rng.choice([0, 0, 0.1, 0.2, 1.2])
            if rng.random() < 0.4:
                props["signum"] = rng.choice([scenario.SIGINT, "quit", "SIGUSR1", 0])
            if rng.random() < 0.4:
                props["pidsel"] = rng.randint(0, 2)
            s.append({"op": "req", "cmd": "kill", "props": props})
        elif c == "reload_seq":
            s.append({"op": "req", "cmd": "reload", "props": {"name": "w1", "graceful": True, "sequential": True}})
        else:
            s.append({"op": "req", "cmd": c, "props": {"name": "w1", "waiting": rng.random() < 0.5}})
        for _ in range(rng.randint(1, 4)):
            s.append({"op": "tick", "n": rng.randint(1, 4)})
            if rng.random() < 0.25:
                s.append({"op": "die", "sel": ["w1", rng.randint(0, 2)], "status": rng.choice(scenario.EXIT_STATUSES)})
    s.append({"op": "tick", "n": 14})
    s.append({"op": "end", "xprobe": False, "passes": 1})
    return {"seed": seed, "watchers": ws, "check_delay": 1.0, "warmup_delay": 0.0,
            "stubborn": ["w1"] if rng.random() < 0.7 else [], "obeys": [True, False, True], "instant_death": rng.random() < 0.2,
            "script": s}


def _expiry_during_kill(seed):
    """template: a worker reaches max_age while a non-exclusive `kill` of it is still inside its grace period (the
    worker ignores the stop signal): the periodic check finds it expired and must leave it to the kill in flight."""
    import random
    rng = random.Random(seed)
    ws = [{"name": "w1", "np": rng.choice([1, 2]), "G": rng.choice([0.3, 0.5]), "W": 0.0, "max_age": 1, "max_age_variance": 0},
          {"name": "w2", "np": 1, "G": 0.2, "W": 0.0}]
    s = [{"op": "boot"}, {"op": "advance", "dt": rng.choice([0.6, 0.7, 0.8, 0.9])},
         {"op": "req", "cmd": "kill", "props": {"name": "w1", "pidsel": rng.randint(0, 1), "waiting": False,
                                                "graceful_timeout": rng.choice([1.0, 1.5, 2.0])}}]
    for _ in range(rng.randint(20, 35)):
        s.append({"op": "tick", "n": 1})
        if rng.random() < 0.12:
            s.append({"op": "req", "cmd": rng.choice(["status", "list", "numprocesses"]), "props": {"name": "w2"}})
    s.append({"op": "end", "xprobe": False, "passes": 1})
    return {"seed": seed, "watchers": ws, "check_delay": rng.choice([0.5, 0.3]), "warmup_delay": 0.0,
            "stubborn": ["w1"], "obeys": [True], "instant_death": False, "script": s}


def _jobcontrol(seed):
    """template: workers are STOPPED (job control: SIGSTOP / SIGTSTP through a `signal` request), periodic checks and
    requests go on while they are, some are continued later.  A stopped worker is a live worker."""
    import random
    rng = random.Random(seed)
    ws = [{"name": "w1", "np": rng.choice([1, 2, 3]), "G": rng.choice([0.2, 0.3]), "W": 0.0},
          {"name": "w2", "np": 1, "G": 0.2, "W": 0.0}]
    s = [{"op": "boot"}, {"op": "tick", "n": rng.randint(3, 8)}]
    props = {"name": "w1", "signum": rng.choice([int(scenario._signal.SIGSTOP), "stop", "SIGTSTP", "tstp", "SIGSTOP"])}
    if rng.random() < 0.4:
        props["pidsel"] = rng.randint(0, 2)
    s.append({"op": "req", "cmd": "signal", "props": props})
    for _ in range(rng.randint(15, 30)):
        s.append({"op": "tick", "n": 1})
        r = rng.random()
        if r < 0.15:
            s.append({"op": "req", "cmd": rng.choice(["status", "list", "numprocesses"]), "props": {"name": rng.choice(["w1", "w2"])}})
        elif r < 0.2:
            s.append({"op": "req", "cmd": "signal", "props": {"name": "w1", "signum": rng.choice(["cont", int(scenario._signal.SIGCONT)])}})
        elif r < 0.27:
            s.append({"op": "req", "cmd": rng.choice(["incr", "decr", "reload", "stop", "restart"]),
                      "props": {"name": "w1", "waiting": rng.random() < 0.5}})
    s.append({"op": "end", "xprobe": True, "passes": 2})
    return {"seed": seed, "watchers": ws, "check_delay": rng.choice([0.5, 1.0]), "warmup_delay": 0.0,
            "stubborn": [], "obeys": [True], "instant_death": False, "script": s}


def overlap_profile(seed):
    """Random overlapping requests, plus (every 3rd seed) a template measuring completion time: several stubborn workers,
    a sizeable grace period, one exclusive operation (stop / restart / rm / quit / decr / reload), nothing else."""
    import random
    if seed % 6 == 1:
        return _jobcontrol(seed)
    if seed % 6 == 4:
        return _expiry_during_kill(seed)
    if seed % 3 != 0:
        return scenario.gen_scenario(seed, _OVERLAP_BASE)
    rng = random.Random(seed)
    ws = [{"name": "w1", "np": rng.choice([2, 3, 4]), "G": rng.choice([0.3, 0.5, 1.0]), "W": rng.choice([0.0, 0.1])},
          {"name": "w2", "np": rng.choice([1, 2]), "G": rng.choice([0.2, 0.5]), "W": 0.0}]
    s = [{"op": "boot"}, {"op": "tick", "n": rng.randint(6, 12)}]
    c = rng.choice(["stop", "stop", "restart", "rm", "quit", "stopall", "decr", "decr", "setnp", "reload", "status"])
    waiting = rng.random() < 0.6
    if rng.random() < 0.5:
        # a non-exclusive kill of one worker is still inside its grace period when the operation arrives
        s.append({"op": "req", "cmd": "kill", "props": {"name": "w1", "pidsel": rng.randint(0, 3), "waiting": False,
                                                        "graceful_timeout": rng.choice([0.3, 0.6, 1.0])}})
        s.append({"op": "tick", "n": rng.randint(0, 2)})
    if c in ("stop", "restart"):
        s.append({"op": "req", "cmd": c, "props": {"name": "w1", "waiting": waiting}})
    elif c == "rm":
        s.append({"op": "req", "cmd": "rm", "props": {"name": "w1", "waiting": waiting}})
    elif c == "quit":
        s.append({"op": "req", "cmd": "quit", "props": {"waiting": False}})
    elif c == "stopall":
        s.append({"op": "req", "cmd": "stop", "props": {}})
    elif c == "decr":
        s.append({"op": "req", "cmd": "decr", "props": {"name": "w1", "nb": rng.choice([1, 2]), "waiting": waiting}})
    elif c == "setnp":
        s.append({"op": "req", "cmd": "set", "props": {"name": "w1", "waiting": waiting,
                                                       "options": {"numprocesses": rng.choice([0, 1])}}})
    elif c == "reload":
        s.append({"op": "req", "cmd": "reload", "props": {"name": "w1", "graceful": True, "sequential": rng.random() < 0.5,
                                                          "waiting": waiting}})
    else:
        s.append({"op": "req", "cmd": "status", "props": {"name": "w1"}})
    for _ in range(40):
        s.append({"op": "tick", "n": 1})
        if rng.random() < 0.15:
            s.append({"op": "req", "cmd": rng.choice(["status", "list", "numprocesses"]), "props": {"name": "w2"}})
    s.append({"op": "end", "xprobe": False, "passes": 1})
    return {"seed": seed, "watchers": ws, "check_delay": rng.choice([1.0, 2.0]), "warmup_delay": 0.0,
            "stubborn": ["w1"] + (["w2"] if rng.random() < 0.5 else []), "obeys": [True], "instant_death": False, "script": s}


PROFILES["term"] = term_profile


def isolate(seed):
    """C01: one watcher's trouble stays its own.  Two or three watchers with different priorities; from some moment on
    every spawn of ONE of them fails with an exception spawn_process does not catch (so its manage_processes raises in
    every periodic check); workers of the others die, are killed, are counted up and down: they must converge as if
    the faulty watcher were not there."""
    import random
    rng = random.Random(seed)
    names = ["w1", "w2", "w3"][:rng.choice([2, 3, 3])]
    prios = rng.sample([0, 1, 2, 3], len(names))
    ws = [{"name": n, "np": rng.choice([1, 2]), "G": 0.1, "W": 0.0, "priority": prios[i]} for i, n in enumerate(names)]
    bad = rng.choice(names)
    good = [n for n in names if n != bad]
    s = [{"op": "boot"}, {"op": "tick", "n": rng.randint(2, 6)}, {"op": "badspawn", "w": bad},
         {"op": "die", "sel": [bad, 0], "status": rng.choice(scenario.EXIT_STATUSES)}, {"op": "tick", "n": rng.randint(3, 9)}]
    for _ in range(rng.randint(2, 5)):
        g = rng.choice(good)
        r = rng.random()
        if r < 0.45:
            s.append({"op": "die", "sel": [g, rng.randint(0, 1)], "status": rng.choice(scenario.EXIT_STATUSES)})
        elif r < 0.7:
            s.append({"op": "extkill", "sel": [g, rng.randint(0, 1)]})
        elif r < 0.85:
            s.append({"op": "req", "cmd": rng.choice(["incr", "decr"]), "props": {"name": g, "nb": 1, "waiting": rng.random() < 0.5}})
        else:
            s.append({"op": "req", "cmd": "set", "props": {"name": g, "options": {"numprocesses": rng.choice([1, 2, 3])}}})
        s.append({"op": "tick", "n": rng.randint(2, 12)})
    s.append({"op": "end", "xprobe": True, "passes": 3})
    return {"seed": seed, "watchers": ws, "check_delay": rng.choice([0.5, 1.0]), "warmup_delay": 0.0,
            "stubborn": [], "obeys": [True], "instant_death": False, "script": s}


PROFILES["isolate"] = isolate


_ACCT_BASE = PROFILES["acct"]


def acct_profile(seed):
    """Random accounting scenarios, plus (every 4th seed) a template: the daemon's only running children are workers it
    has let go of (`rm` with nostop) -- no watcher tracks anything any more -- and one of them exits: it is still the
    daemon's child, and a zombie does not outlive a periodic check."""
    import random
    if seed % 4 != 1:
        return scenario.gen_scenario(seed, _ACCT_BASE)
    rng = random.Random(seed)
    ws = [{"name": "w1", "np": rng.choice([1, 2]), "G": 0.1, "W": 0.0}]
    if rng.random() < 0.5:
        ws.append({"name": "w2", "np": 0, "G": 0.1, "W": 0.0})
    s = [{"op": "boot"}, {"op": "advance", "dt": 1.0},
         {"op": "req", "cmd": "rm", "props": {"name": "w1", "nostop": True, "waiting": rng.random() < 0.5}},
         {"op": "advance", "dt": rng.choice([0.1, 0.6, 1.2])}]
    for _ in range(rng.randint(1, 2)):
        s.append({"op": "die", "untracked": rng.randint(0, 1), "status": rng.choice(scenario.EXIT_STATUSES)})
        s.append({"op": "advance", "dt": rng.choice([0.6, 1.2])})
        if rng.random() < 0.4:
            s.append({"op": "probe"})
    s.append({"op": "end", "xprobe": False, "passes": 2})
    return {"seed": seed, "watchers": ws, "check_delay": 0.5, "warmup_delay": 0.0,
            "stubborn": [], "obeys": [True], "instant_death": False, "script": s}


PROFILES["acct"] = acct_profile


_BOOT_BASE = PROFILES["boot"]


def _respawn_in_joint_start(seed):
    """template (every 6th seed): a joint start finds a higher-priority watcher ACTIVE but short of workers (its worker
    died, the periodic check reaped it and the re-spawn raised; the next check has not come yet) and
    a lower-priority one stopped: the first re-spawns, the second starts -- consecutive watchers, the global warmup delay apart."""
    import random
    rng = random.Random(seed)
    prios = rng.sample([0, 1, 2, 3, 5], 3)
    ws = [{"name": "w%d" % (i + 1), "np": 1, "G": 0.1, "W": rng.choice([0.0, 0.1]), "priority": prios[i]} for i in range(3)]
    order = sorted(range(3), key=lambda i: -prios[i])
    hi = ws[order[rng.choice([0, 0, 1])]]["name"]
    lows = [ws[i]["name"] for i in order if prios[i] < [w for w in ws if w["name"] == hi][0]["priority"]]
    s = [{"op": "boot"}, {"op": "advance", "dt": 1.0}]
    for n in rng.sample(lows, rng.randint(1, len(lows))):
        s.append({"op": "req", "cmd": "stop", "props": {"name": n, "waiting": True}})
        s.append({"op": "advance", "dt": 0.3})
    s.append({"op": "die", "sel": [hi, 0]})
    s.append({"op": "spawnfault", "kinds": ["RuntimeError"]})
    s.append({"op": "tick", "n": 1})
    s.append({"op": "advance", "dt": 0.2})
    props = {"waiting": rng.random() < 0.5}
    pat = rng.choice(["w*", "*", None, None])
    if pat:
        props["name"] = pat
    s.append({"op": "req", "cmd": "start", "props": props})
    s.append({"op": "advance", "dt": 4.0})
    s.append({"op": "end", "xprobe": True, "passes": 1})
    return {"seed": seed, "watchers": ws, "check_delay": 5.0, "warmup_delay": rng.choice([0.3, 0.5]),     # (> every W)
            "stubborn": [], "obeys": [True], "instant_death": False, "script": s}


def boot_profile(seed):
    """Random boot scenarios, plus (every 3rd seed) a template: once the daemon is up, several watchers are started or
    restarted TOGETHER by one request with a name pattern (or without a name); their order in the configuration is
    not their priority order."""
    import random
    if seed % 6 == 1:
        return _respawn_in_joint_start(seed)
    if seed % 3 != 2:
        return scenario.gen_scenario(seed, _BOOT_BASE)
    rng = random.Random(seed)
    n = rng.choice([3, 4])
    prios = rng.sample([0, 1, 2, 3, 5], n)
    ws = [{"name": "w%d" % (i + 1), "np": rng.choice([1, 2]), "G": 0.1, "W": rng.choice([0.0, 0.1]), "priority": prios[i]}
          for i in range(n)]
    s = [{"op": "boot"}, {"op": "advance", "dt": 3.0}]
    for _ in range(rng.randint(1, 2)):
        pat = rng.choice(["w*", "w[12]", "w[23]", "w[123]", "*", None])
        if rng.random() < 0.5:
            s.append({"op": "req", "cmd": "stop", "props": ({"name": pat} if pat else {})})
            s.append({"op": "advance", "dt": 1.5})
            cmd = "start"
        else:
            cmd = "restart"
        props = {"waiting": rng.random() < 0.5}
        if pat:
            props["name"] = pat
        s.append({"op": "req", "cmd": cmd, "props": props})
        s.append({"op": "advance", "dt": 3.0})
    s.append({"op": "end", "xprobe": True, "passes": 1})
    return {"seed": seed, "watchers": ws, "check_delay": 2.0, "warmup_delay": rng.choice([0.0, 0.1, 0.3]),
            "stubborn": [], "obeys": [True], "instant_death": False, "script": s}


PROFILES["boot"] = boot_profile


_SHUTDOWN_BASE = PROFILES["shutdown"]


def shutdown_profile(seed):
    """Random shutdown scenarios, plus (every 5th seed) a template: a termination signal arrives at the beginning of an
    exclusive operation that takes LONG (a stubborn worker with a grace period of several seconds): however long the
    operation in flight takes, the signal is not lost."""
    import random
    if seed % 5 != 2:
        return scenario.gen_scenario(seed, _SHUTDOWN_BASE)
    rng = random.Random(seed)
    G = rng.choice([5.5, 6.0, 7.0])
    ws = [{"name": "w1", "np": 1, "G": G, "W": 0.0}, {"name": "w2", "np": rng.choice([1, 2]), "G": 0.2, "W": 0.0}]
    s = [{"op": "boot"}, {"op": "tick", "n": rng.randint(2, 6)},
         {"op": "req", "cmd": rng.choice(["restart", "stop", "reload"]), "props": {"name": "w1", "waiting": rng.random() < 0.5}},
         {"op": "tick", "n": rng.randint(1, 3)},
         {"op": "dsig", "sig": rng.choice([scenario.SIGTERM, scenario.SIGINT, scenario.SIGQUIT])},
         {"op": "tick", "n": int(G * 10) + 30},
         {"op": "end", "xprobe": False, "passes": 1}]
    return {"seed": seed, "watchers": ws, "check_delay": 2.0, "warmup_delay": 0.0,
            "stubborn": ["w1"], "obeys": [True], "instant_death": False, "script": s}


PROFILES["shutdown"] = shutdown_profile

_STOP_BASE = PROFILES["stop"]


def stop_profile(seed):
    """Random stop scenarios, plus (every 3rd seed) a template: a stop / restart / quit of SEVERAL watchers (no name,
    or a pattern) reaches a watcher that is active but runs nothing at that instant -- numprocesses 0, or its only
    worker died a moment ago and no periodic check has replaced it yet.  Stopped means stopped for it too."""
    import random
    if seed % 3 != 1:
        return scenario.gen_scenario(seed, _STOP_BASE)
    rng = random.Random(seed)
    if rng.random() < 0.25:
        # the escalation to SIGKILL goes to the worker's whole family (recursive listing): a worker that ignores the
        # stop signal and has grandchildren is stopped like any other
        ws = [{"name": "w1", "np": rng.choice([1, 2]), "G": rng.choice([0.1, 0.2]), "W": 0.0, "stop_children": rng.random() < 0.5},
              {"name": "w2", "np": 1, "G": 0.1, "W": 0.0}]
        s = [{"op": "boot"}, {"op": "advance", "dt": 1.0}]
        for _ in range(rng.randint(2, 3)):        # (the first fork makes a child, the next ones children of that child)
            s.append({"op": "fork", "sel": ["w1", 0], "obeys": rng.random() < 0.5, "deep": True})
        s.append({"op": "req", "cmd": rng.choice(["stop", "restart", "rm", "stop"]), "props": {"name": "w1", "waiting": rng.random() < 0.6}})
        s.append({"op": "advance", "dt": 1.5})
        s.append({"op": "end", "xprobe": True, "passes": 2})
        return {"seed": seed, "watchers": ws, "check_delay": rng.choice([1.0, 2.0]), "warmup_delay": 0.0,
                "stubborn": ["w1"], "obeys": [True], "instant_death": False, "script": s}
    if rng.random() < 0.5:
        # a watcher stopped on request is left alone by a start / restart whose pattern does not match it
        ws = [{"name": n, "np": rng.choice([1, 2]), "G": 0.1, "W": 0.0, "priority": rng.choice([0, 1, 2])} for n in ("w1", "w2", "w3")]
        out = rng.choice(["w1", "w3"])
        pat = "w[23]" if out == "w1" else "w[12]"
        s = [{"op": "boot"}, {"op": "advance", "dt": 1.0}, {"op": "tick", "n": rng.randint(0, 4)},
             {"op": "req", "cmd": "stop", "props": {"name": out, "waiting": True}}, {"op": "advance", "dt": 0.5},
             {"op": "tick", "n": rng.randint(0, 4)}]
        for _ in range(rng.randint(1, 2)):
            s.append({"op": "req", "cmd": rng.choice(["restart", "restart", "restart", "start"]),
                      "props": {"name": pat, "waiting": rng.random() < 0.6}})
            s.append({"op": "tick", "n": rng.randint(5, 12)})
        s.append({"op": "end", "xprobe": True, "passes": 2})
        return {"seed": seed, "watchers": ws, "check_delay": rng.choice([1.0, 2.0]), "warmup_delay": 0.0,
                "stubborn": [], "obeys": [True], "instant_death": False, "script": s}
    ws = [{"name": "w1", "np": rng.choice([0, 1, 1]), "G": 0.1, "W": 0.0},
          {"name": "w2", "np": rng.choice([1, 2]), "G": rng.choice([0.1, 0.3]), "W": 0.0}]
    if rng.random() < 0.4:
        ws.append({"name": "w3", "np": rng.choice([0, 1]), "G": 0.1, "W": 0.0})
    s = [{"op": "boot"}, {"op": "tick", "n": rng.randint(3, 8)}]
    for rnd in range(rng.randint(1, 2)):
        how = rng.choice(["die", "extkill", "decr", "set0", "decr", "set0", "none"])
        if how == "die":
            s.append({"op": "die", "sel": ["w1", 0], "status": rng.choice(scenario.EXIT_STATUSES)})
        elif how == "extkill":
            s.append({"op": "extkill", "sel": ["w1", 0]})
        elif how == "decr":
            s.append({"op": "req", "cmd": "decr", "props": {"name": "w1", "nb": 2, "waiting": True}})
            s.append({"op": "tick", "n": rng.randint(2, 4)})
        elif how == "set0":
            s.append({"op": "req", "cmd": "set", "props": {"name": "w1", "options": {"numprocesses": 0}, "waiting": True}})
            s.append({"op": "tick", "n": rng.randint(2, 4)})
        cmd = rng.choice(["stop", "stop", "stop_pat", "restart", "quit"] if rnd else ["stop", "stop", "stop_pat", "restart"])
        if cmd == "stop_pat":
            cmd, props = "stop", {"name": rng.choice(["w*", "w[12]", "*"]), "waiting": rng.random() < 0.6}
        elif cmd == "quit":
            props = {"waiting": rng.random() < 0.5}
        else:
            props = {"waiting": rng.random() < 0.6}
        s.append({"op": "req", "cmd": cmd, "props": props})
        s.append({"op": "tick", "n": rng.randint(6, 14)})
        if cmd == "quit":
            break
        if rng.random() < 0.6:
            s.append({"op": "req", "cmd": "start", "props": {"waiting": True}})
            s.append({"op": "tick", "n": rng.randint(4, 9)})
    s.append({"op": "end", "xprobe": True, "passes": 2})
    return {"seed": seed, "watchers": ws, "check_delay": rng.choice([1.0, 2.0]), "warmup_delay": 0.0,
            "stubborn": ["w2"] if rng.random() < 0.3 else [], "obeys": [True], "instant_death": False, "script": s}


PROFILES["stop"] = stop_profile

_SIGNALS_BASE = PROFILES["signals"]


def signals_profile(seed):
    """Random signal scenarios, plus (every 4th seed) a template: the graceful termination of one worker is in flight
    (it ignores the stop signal), and inside its grace period requests address the watcher as a whole or that very
    worker: "all workers" includes the one that is being stopped, which is still running."""
    import random
    if seed % 4 != 0:
        return scenario.gen_scenario(seed, _SIGNALS_BASE)
    rng = random.Random(seed)
    G = rng.choice([0.3, 0.4, 0.5])
    ws = [{"name": "w1", "np": rng.choice([2, 3]), "G": G, "W": 0.0}]
    if rng.random() < 0.5:
        ws.append({"name": "w2", "np": 1, "G": 0.1, "W": 0.0})
    s = [{"op": "boot"}, {"op": "tick", "n": rng.randint(2, 6)}]
    for _ in range(rng.randint(1, 2)):
        s.append({"op": "req", "cmd": "kill", "props": {"name": "w1", "waiting": False, "pidsel": rng.randint(0, 2)}})
        for _ in range(rng.randint(1, 3)):
            s.append({"op": "tick", "n": 1})
            props = {"name": "w1", "signum": rng.choice([scenario.SIGHUP, scenario.SIGUSR1, "usr2", "int", 0])}
            if rng.random() < 0.35:
                props["pidsel"] = rng.randint(0, 2)
            s.append({"op": "req", "cmd": "signal", "props": props})
        s.append({"op": "tick", "n": rng.randint(4, 9)})
    s.append({"op": "end", "xprobe": True, "passes": 2})
    return {"seed": seed, "watchers": ws, "check_delay": rng.choice([1.0, 2.0]), "warmup_delay": 0.0,
            "stubborn": ["w1"], "obeys": [False], "instant_death": False, "script": s}


PROFILES["signals"] = signals_profile
PROFILES["overlap"] = overlap_profile


def conf_sig(seed):
    """conformance profile with many daemon signals (also while operations are in flight)"""
    return conf_full(seed, {"dsig": 0.6, "quit": 0.1, "partial": 0.5, "steps": 10})


PROFILES["conf_sig"] = conf_sig


def conf_kids(seed):
    """conformance profile for the children of workers: many forks, signal / kill / stop requests addressing
    children, descendants and single child pids, stop_children watchers"""
    return conf_full(seed, {"fork": 2.0, "sch": 0.6, "childsel": 0.5, "hooks": 0.2, "faults": 0.0,
                            "cmds": ["signal", "signal", "signal", "kill", "stop", "restart", "decr", "status"]})


PROFILES["conf_kids"] = conf_kids


def conf_age(seed):
    """conformance profile for max_age: workers expire in the periodic check (kill, reap, respawn), next to requests
    that terminate them for other reasons"""
    return conf_full(seed, {"mage": 0.8, "hooks": 0.15, "faults": 0.05, "fork": 0.3, "sch": 0.4, "steps": 10,
                            "cmds": ["stop", "kill", "decr", "incr", "restart", "reload", "status", "signal"]})


PROFILES["conf_age"] = conf_age


def conf_pat(seed):
    """conformance profile for name patterns: start / stop / restart of several watchers at once (priorities,
    warm-up delays), next to operations on single watchers"""
    return conf_full(seed, {"patterns": 0.7, "hooks": 0.2, "faults": 0.1, "fork": 0.05, "nw": 3,
                            "cmds": ["start", "stop", "restart", "restart", "stop", "start", "incr", "kill", "status"]})


PROFILES["conf_pat"] = conf_pat


def conf_reload(seed, mon=False, arb=None):
    """conformance profile for reloadconfig: the arbiter is booted from a real ini file; the file is edited (sections
    added, removed, numprocesses changed, other keys changed) and reloaded, with worker deaths, ticks and other
    requests in between and while a reload is in flight"""
    import random
    rng = random.Random(seed)
    pool = ["a", "b", "c", "Web"]

    def mk(n):
        if rng.random() < 0.2:          # a singleton: at most one worker; a numprocesses-only edit to 2 is refused
            return {"name": n, "np": rng.choice([0, 1, 1]), "G": 0.1, "W": 0, "singleton": True, "priority": 0,
                    "autostart": True, "respawn": True, "max_retry": 5, "stop_signal": scenario.SIGTERM,
                    "stop_children": False, "send_hup": False, "ver": 1}
        return {"name": n, "np": rng.choice([0, 1, 1, 2, 3]), "G": rng.choice([0.1, 0.2, 0.3]),
                "W": rng.choice([0, 0, 0, 1]), "singleton": False, "priority": rng.choice([0, 0, 1, 2]),
                "autostart": rng.random() < 0.9, "respawn": rng.random() < 0.9, "max_retry": rng.choice([2, 5]),
                "stop_signal": rng.choice([scenario.SIGTERM, scenario.SIGINT]), "stop_children": rng.random() < 0.2,
                "send_hup": False, "ver": 1}
    ws = [mk(n) for n in rng.sample(pool, rng.choice([1, 2, 2, 3]))]
    sc = {"seed": seed, "file_mode": True, "watchers": [dict(w) for w in ws], "check_delay": rng.choice([0.5, 1.0]),
          "warmup_delay": rng.choice([0, 0, 1]), "stubborn": [n for n in pool if rng.random() < 0.25],
          "obeys": [True], "instant_death": rng.random() < 0.15, "script": [{"op": "boot"}, {"op": "tick", "n": rng.randint(0, 6)}]}
    s = sc["script"]
    undo = []
    arb = (not mon) if arb is None else arb       # edits of the [circus] section: in the strict profile only
    fcd = [None]
    for _ in range(rng.randint(2, 6)):
        r = rng.random()
        have = [w["name"] for w in ws]
        free = [n for n in pool if n not in have]
        if r < 0.55:
            for _e in range(rng.choice([1, 1, 2])):
                have = [w["name"] for w in ws]
                free = [n for n in pool if n not in have]
                e = rng.random()
                if e < 0.25 and free:
                    ws.append(mk(rng.choice(free)))
                elif e < 0.4 and len(ws) > 1:
                    ws.pop(rng.randrange(len(ws)))
                elif e < 0.7:
                    w = rng.choice(ws)
                    w["np"] = rng.choice([v for v in ((0, 1, 2) if w["singleton"] else (0, 1, 2, 3)) if v != w["np"]])
                    undo.append((w, 1)) if w["singleton"] and w["np"] > 1 else None
                elif e < 0.85:
                    rng.choice(ws)["ver"] += 1
                else:
                    w = rng.choice(ws)
                    k = rng.choice(["G", "W", "priority", "stop_signal"])
                    w[k] = {"G": rng.choice([0.1, 0.2, 0.3]), "W": rng.choice([0, 1]),
                            "priority": rng.choice([0, 1, 2]), "stop_signal": rng.choice([scenario.SIGTERM, scenario.SIGINT,
                                                                                         scenario.SIGQUIT])}[k]
            q = {"op": "reloadcfg", "watchers": [dict(w) for w in ws], "waiting": rng.random() < 0.5}
            if arb and rng.random() < 0.35:       # from now on the file's [circus] section differs (check_delay)
                fcd[0] = sc["check_delay"] + 1.0
            if fcd[0] is not None:
                q["file_check_delay"] = fcd[0]
            for w, v in undo:          # (the next version of the file takes the refused value back)
                w["np"] = v
            del undo[:]
            if rng.random() < 0.4:
                q["drain"] = False
                s.append(q)
                s.append({"op": "run", "n": rng.randint(1, 4)})
            else:
                s.append(q)
        elif r < 0.7 and have:
            d = {"op": "die", "sel": [rng.choice(have), rng.randint(0, 2)], "status": rng.choice(scenario.EXIT_STATUSES)}
            if rng.random() < 0.4:
                d["k"] = rng.randint(1, 8)
            s.append(d)
        elif r < 0.85 and have:
            c = rng.choice(["status", "list", "numprocesses", "stats"] if mon else
                           ["status", "list", "incr", "stop", "start", "numprocesses", "restart"])
            s.append({"op": "req", "cmd": c, "props": {"name": rng.choice(have), "waiting": rng.random() < 0.5}})
        else:
            s.append({"op": "tick", "n": rng.randint(1, 6)})
    s.append({"op": "tick", "n": 14})
    s.append({"op": "end", "xprobe": False, "passes": 1})
    return sc


PROFILES["conf_reload"] = conf_reload


def conf_od(seed, mon=False):
    """on_demand watchers: started by the periodic check when a connection waits on a managed socket, not before;
    next to them ordinary watchers that are running, or were stopped on request"""
    import random
    rng = random.Random(seed)
    ws = [{"name": "od1", "np": rng.choice([1, 2, 2]), "G": rng.choice([0.1, 0.2]), "W": rng.choice([0.0, 0.1]),
           "on_demand": True, "respawn": rng.random() < 0.8, "priority": rng.choice([0, 1])},
          {"name": "w2", "np": rng.choice([1, 2]), "G": 0.1, "W": 0.0, "priority": rng.choice([0, 1, 2]),
           "autostart": rng.random() < 0.85}]
    if rng.random() < 0.4:
        ws.append({"name": "od3", "np": 1, "G": 0.1, "W": 0.0, "on_demand": True, "priority": rng.choice([0, 2])})
    sc = {"seed": seed, "watchers": ws, "check_delay": rng.choice([0.3, 0.5]), "warmup_delay": rng.choice([0.0, 0.0, 0.1]),
          "stubborn": [], "obeys": [True], "instant_death": rng.random() < 0.2,
          "script": [{"op": "boot"}, {"op": "tick", "n": rng.randint(2, 8)}]}
    s = sc["script"]
    names = [w["name"] for w in ws]
    for _ in range(rng.randint(3, 10)):
        r = rng.random()
        if r < 0.3:
            s.append({"op": "sockev", "ready": rng.random() < 0.7})
        elif r < 0.5:
            s.append({"op": "die", "sel": [rng.choice(names), rng.randint(0, 2)], "status": rng.choice(scenario.EXIT_STATUSES)})
        elif r < 0.7:
            c = rng.choice(["stop", "stop", "start", "status", "list", "numprocesses"] if not mon else
                           ["stop", "stop", "status", "list", "numprocesses"])
            s.append({"op": "req", "cmd": c, "props": {"name": rng.choice(names), "waiting": rng.random() < 0.5}})
        else:
            s.append({"op": "tick", "n": rng.randint(1, 8)})
    s.append({"op": "tick", "n": 12})
    s.append({"op": "end", "xprobe": False, "passes": 1})
    return sc


PROFILES["conf_od"] = conf_od
PROFILES["ondemand"] = conf_od


def reloadmon(seed):
    """C12 under schedules: as conf_reload, but only the file and reloadconfig ever change the daemon's settings
    (the statement quantifies over edit sequences, not over incr / stop requests in between)"""
    return conf_reload(seed, mon=True)


PROFILES["reloadmon"] = reloadmon


def reloadarb(seed):
    """reloads of a file whose [circus] section has changed ("restart everything"), with requests afterwards: the
    daemon must go on serving (C10)"""
    sc = conf_reload(seed, mon=False, arb=True)
    return sc


PROFILES["reloadarb"] = reloadarb


def hooksfile(seed):
    """hooks given in a configuration FILE (dotted names; parsed by config.py into per-watcher dicts), on some of the
    watchers only: each watcher is gated by its own hooks, also after a reloadconfig"""
    import random
    rng = random.Random(seed)
    names = ["a", "b", "c"]
    ws = []
    for n in names[:rng.choice([2, 3])]:
        w = {"name": n, "np": rng.choice([1, 2]), "G": 0.1, "W": 0, "priority": rng.choice([0, 1]), "ver": 1}
        if rng.random() < 0.5:
            hs = {}
            for h in rng.sample(["before_start", "after_start", "before_spawn", "after_spawn", "before_stop", "before_signal"],
                                rng.choice([1, 2])):
                hs[h] = (rng.choice(["true", "false", "false", "raise"]), rng.random() < 0.3)
            w["hooks"] = hs
        ws.append(w)
    if not any(w.get("hooks") for w in ws):
        ws[0]["hooks"] = {"before_start": ("false", False)}
    sc = {"seed": seed, "file_mode": True, "watchers": [dict(w) for w in ws], "check_delay": 0.5, "warmup_delay": 0,
          "stubborn": [], "obeys": [True], "instant_death": False, "script": [{"op": "boot"}, {"op": "tick", "n": rng.randint(2, 6)}]}
    s = sc["script"]
    for _ in range(rng.randint(2, 6)):
        r = rng.random()
        n = rng.choice([w["name"] for w in ws])
        if r < 0.5:
            s.append({"op": "req", "cmd": rng.choice(["start", "stop", "restart", "start"]), "props": {"name": n, "waiting": rng.random() < 0.5}})
        elif r < 0.7:
            w = rng.choice(ws)
            w["ver"] += 1
            s.append({"op": "reloadcfg", "watchers": [dict(x) for x in ws], "waiting": True})
        else:
            s.append({"op": "tick", "n": rng.randint(1, 5)})
    s.append({"op": "tick", "n": 8})
    s.append({"op": "end", "xprobe": False, "passes": 1})
    return sc


PROFILES["hooksfile"] = hooksfile

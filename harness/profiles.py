"""Named stimulus profiles: which part of the behaviour a batch of random scenarios exercises."""
from harness import scenario

PROFILES = {
    "default": {},
}


def generate(profile, seed):
    p = PROFILES[profile]
    if callable(p):
        return p(seed)
    return scenario.gen_scenario(seed, p)


def conf_basic(seed):
    """Conformance profile: only behaviour that Core models; lower-case names; tick-aligned delays."""
    import random
    rng = random.Random(seed)
    nw = rng.choice([1, 1, 2])
    ws = []
    for i in range(nw):
        ws.append({"name": "w%d" % (i + 1), "np": rng.choice([0, 1, 1, 2, 2, 3]),
                   "G": rng.choice([0.0, 0.1, 0.2, 0.3]), "W": rng.choice([0.0, 0.0, 0.1, 0.2]),
                   "singleton": False, "respawn": rng.random() < 0.85, "priority": rng.choice([0, 0, 1]),
                   "autostart": rng.random() < 0.9})
    names = [w["name"] for w in ws]
    sc = {"seed": seed, "watchers": ws, "check_delay": rng.choice([0.3, 0.5]),
          "warmup_delay": rng.choice([0.0, 0.0, 0.1]),
          "stubborn": [n for n in names if rng.random() < 0.3],
          "obeys": [rng.random() < 0.8 for _ in range(5)], "instant_death": False, "script": [{"op": "boot"}]}
    s = sc["script"]
    s.append({"op": "tick", "n": rng.randint(0, 8)})
    cmds = ["incr", "decr", "set_np", "restart", "reload", "kill", "stop", "start", "status", "numprocesses",
            "signal"]
    p = {"cmds": cmds}
    for _ in range(rng.randint(2, 14)):
        r = rng.random()
        w = rng.choice(names)
        if r < 0.4:
            q = scenario.gen_request(rng, w, p, names)
            q["props"] = {k: v for k, v in q["props"].items() if k not in ("children", "recursive")}
            if "name" in q["props"]:
                q["props"]["name"] = q["props"]["name"].lower()
            if q["cmd"] == "list":
                q["props"] = {}
            s.append(q)
        elif r < 0.6:
            d = {"op": "die", "sel": [w, rng.randint(0, 3)], "status": rng.choice(scenario.EXIT_STATUSES)}
            if rng.random() < 0.3:
                d = {"op": "extkill", "sel": [w, rng.randint(0, 3)]}
            s.append(d)
        else:
            s.append({"op": "tick", "n": rng.randint(1, 5)})
    s.append({"op": "tick", "n": 12})
    s.append({"op": "end", "xprobe": False, "passes": 1, "noprobe": True})
    return sc


PROFILES["conf_basic"] = conf_basic

"""Virtual-time asyncio loop, stepped by the harness one ready handle at a time.

It *is* asyncio's SelectorEventLoop (FIFO ready queue, heap of TimerHandles); only
`time()` and the blocking `select` are replaced: the harness decides when time advances and
which due timer fires next.  No real I/O is ever waited for.
"""
import asyncio
import heapq
import selectors


class VirtualLoop(asyncio.SelectorEventLoop):
    def __init__(self):
        super().__init__(selector=selectors.SelectSelector())
        self.vnow = 0.0
        self.handles_run = 0

    def time(self):
        return self.vnow

    # -- inspection -------------------------------------------------------------------------
    def ready_len(self):
        return sum(1 for h in self._ready if not h._cancelled)

    def timers(self):
        """Pending (non-cancelled) timer handles, earliest first."""
        return sorted((h for h in self._scheduled if not h._cancelled), key=lambda h: h._when)

    def next_deadline(self):
        ts = self.timers()
        return ts[0]._when if ts else None

    def due(self, eps=1e-9):
        return [h for h in self.timers() if h._when <= self.vnow + eps]

    # -- stepping ---------------------------------------------------------------------------
    def run_one(self):
        """Run exactly one ready handle (asyncio FIFO order). Returns False if none."""
        while self._ready:
            h = self._ready.popleft()
            if h._cancelled:
                continue
            self.handles_run += 1
            h._run()
            return True
        return False

    def fire(self, handle):
        """Move one due timer to the ready queue (the harness picks which)."""
        self._scheduled.remove(handle)
        heapq.heapify(self._scheduled)
        handle._scheduled = False
        if not handle._cancelled:
            self._ready.append(handle)

    def advance_to(self, t):
        if t > self.vnow:
            self.vnow = t

    def drain(self, limit=100000):
        """Run ready handles until the ready queue is empty (time does not move)."""
        n = 0
        while self.run_one():
            n += 1
            if n > limit:
                raise RuntimeError("ready queue does not drain (livelock in callbacks)")
        return n


def install():
    """Create a fresh VirtualLoop, make it current for asyncio and tornado."""
    from tornado.ioloop import IOLoop
    try:
        IOLoop.clear_current()
    except Exception:
        pass
    loop = VirtualLoop()
    asyncio.set_event_loop(loop)
    # tornado checks "is a loop running" in a few places (IOLoop.current() creation does not)
    io = IOLoop.current()
    io.time = lambda: loop.vnow          # tornado's IOLoop.time() is the wall clock otherwise
    return loop, io


def uninstall(loop):
    from tornado.ioloop import IOLoop
    try:
        IOLoop.clear_current()
    except Exception:
        pass
    try:
        loop.close()
    except Exception:
        pass
    asyncio.set_event_loop(None)

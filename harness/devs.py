"""Deviation switches of Core.tla (TRUE = the behaviour of the unrepaired code).  One place; a `fix:` commit in /repo
flips its switch here.  VERIF_DEVS="Dev_X=FALSE,Dev_Y=TRUE" overrides for experiments."""
import os

DEVS = {
    "Dev_PruneWithoutReap": "FALSE",         # D4: repaired by 9979cba
    "Dev_AfterSpawnKillDetached": "TRUE",    # D3
    "Dev_BuiltinIgnoreList": "TRUE",         # D11
    "Dev_AddEmptyNameReturns": "FALSE",      # D9: repaired by e8e067a
    "Dev_QuitRefusedWhenBusy": "FALSE",      # D6: repaired by 87748aa
    "Dev_SocketEventStartsAll": "FALSE",     # D13: repaired (arbiter.manage_watchers)
    "Dev_OpsAfterStop": "FALSE",             # D19: repaired (util.synchronized refuses once the arbiter is stopping)
    "Dev_ChildrenRelisted": "TRUE",          # D17 (the repair - signalling the child objects of the first listing - needs a
                                             # new Process method, which the FakeProcess of tests/test_watcher.py lacks)
}


def devs():
    d = dict(DEVS)
    for kv in os.environ.get("VERIF_DEVS", "").split(","):
        if "=" in kv:
            k, v = kv.split("=", 1)
            d[k.strip()] = v.strip()
    return d

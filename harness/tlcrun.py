"""Running TLC: exhaustive model checking, simulation, and batched trace validation."""
import json
import os
import re
import shutil
import subprocess
import tempfile
import time
from concurrent.futures import ThreadPoolExecutor

SPEC = os.path.join(os.path.dirname(os.path.dirname(os.path.abspath(__file__))), "spec")
JAR = "/opt/veriftools/tla/tla2tools.jar"
CM = "/opt/veriftools/tla/CommunityModules-deps.jar"


# many short single-worker JVMs side by side: the parallel collector and the C2 compiler threads of 16
# JVMs fight for the cores (measured: 16 shards 26 s -> 4.7 s with these flags)
SMALL_JVM = ("-XX:+UseSerialGC", "-XX:TieredStopAtLevel=1", "-XX:-UsePerfData", "-Xss64m")


class Scratch(object):
    """A run-private scratch directory (also used as java.io.tmpdir), removed on exit."""

    def __init__(self):
        self.dir = None

    def __enter__(self):
        self.dir = tempfile.mkdtemp(prefix="verif-")
        return self.dir

    def __exit__(self, *a):
        shutil.rmtree(self.dir, ignore_errors=True)


def _java(scratch, heap="6g", extra=(), gc=("-XX:+UseParallelGC",)):
    return ["java"] + list(gc) + ["-Xmx" + heap, "-Djava.io.tmpdir=" + scratch] + list(extra) + \
           ["-cp", JAR + ":" + CM, "tlc2.TLC"]


_STATS = re.compile(r"(\d[\d,]*) states generated, (\d[\d,]*) distinct states found")
_PROGRESS = re.compile(r"Progress\((\d+)\) at [^:]*:[^:]*:[^:]*: (\d[\d,]*) states generated.*?, (\d[\d,]*) distinct states found")
_DEPTH = re.compile(r"depth of the complete state graph search is (\d+)")


def parse_stats(out):
    m = None
    for m in _STATS.finditer(out):
        pass
    st = {"generated": 0, "distinct": 0, "depth": 0}
    if m:
        st["generated"] = int(m.group(1).replace(",", ""))
        st["distinct"] = int(m.group(2).replace(",", ""))
    else:
        for m in _PROGRESS.finditer(out):       # an interrupted run: the last progress line
            pass
        if m:
            st["generated"] = int(m.group(2).replace(",", ""))
            st["distinct"] = int(m.group(3).replace(",", ""))
            st["depth"] = int(m.group(1))
    d = _DEPTH.search(out)
    if d:
        st["depth"] = int(d.group(1))
    return st


def run_tlc(module, cfg, scratch, workers=16, env=None, extra_args=(), timeout=3600, heap="12g",
            java_props=(), cwd=SPEC, gc=("-XX:+UseParallelGC",)):
    md = tempfile.mkdtemp(prefix="md-", dir=scratch)
    cmd = _java(scratch, heap, java_props, gc) + ["-workers", str(workers), "-metadir", md, "-noGenerateSpecTE",
                                              "-config", cfg] + list(extra_args) + [module]
    e = dict(os.environ)
    e.update(env or {})
    t0 = time.time()
    p = subprocess.Popen(cmd, cwd=cwd, env=e, stdout=subprocess.PIPE, stderr=subprocess.STDOUT, text=True)
    timed_out = False
    try:
        out, _ = p.communicate(timeout=timeout)
    except subprocess.TimeoutExpired:
        # out of time: what TLC explored so far still counts (its progress lines carry the numbers)
        timed_out = True
        p.kill()
        out, _ = p.communicate()
    shutil.rmtree(md, ignore_errors=True)
    return {"rc": p.returncode, "out": out or "", "wall": time.time() - t0, "cmd": " ".join(cmd),
            "timed_out": timed_out}


# ---------------------------------------------------------------------------------------------
# monitor pass of trace validation
# ---------------------------------------------------------------------------------------------
_VERDICT = re.compile(r'<<\s*"VERDICT",\s*(\d+),\s*(\d+),\s*(\{.*?\})\s*>>', re.S)
_PAIR = re.compile(r'<<\s*"([A-Za-z0-9_]+)",\s*(\d+),\s*"([A-Za-z0-9_]*)"\s*>>')


def parse_verdicts(out):
    res = {}
    flat = out.replace("\n", " ")
    for m in re.finditer(r'<<\s*"VERDICT",\s*(\d+),\s*(\d+),\s*\{(.*?)\}\s*>>', flat):
        res[int(m.group(1))] = {"lines": int(m.group(2)),
                                "bad": [(a, int(b), c) for a, b, c in _PAIR.findall(m.group(3))]}
    return res


def monitor_traces(traces, scratch, shards=16, module="TraceMon.tla", cfg="TraceMon.cfg", timeout=3600):
    """traces: list of traces (each a list of line dicts).  Returns (verdicts list aligned with traces,
    stats).  A trace without verdict (TLC error) gets None -> machinery failure for the caller."""
    n = len(traces)
    shards = max(1, min(shards, n))
    idx = [list(range(i, n, shards)) for i in range(shards)]
    files = []
    for si, ids in enumerate(idx):
        f = os.path.join(scratch, "traces-%d.json" % si)
        with open(f, "w") as fh:
            fh.write(json.dumps([traces[i] for i in ids], separators=(",", ":")))
        files.append(f)

    def one(si):
        return run_tlc(module, cfg, scratch, workers=1, env={"TRACE_FILE": files[si]}, timeout=timeout,
                       heap="2g", gc=SMALL_JVM)
    with ThreadPoolExecutor(max_workers=shards) as ex:
        outs = list(ex.map(one, range(shards)))
    verdicts = [None] * n
    errors = []
    states = 0
    for si, r in enumerate(outs):
        v = parse_verdicts(r["out"])
        states += parse_stats(r["out"])["distinct"]
        if "Error:" in r["out"] or r["rc"] not in (0,):
            errors.append(r["out"][-3000:])
        for local, ids in enumerate(idx[si]):
            if (local + 1) in v:
                verdicts[ids] = v[local + 1]
    for f in files:
        try:
            os.unlink(f)
        except OSError:
            pass
    return verdicts, {"states": states, "errors": errors, "wall": max(r["wall"] for r in outs)}


# ---------------------------------------------------------------------------------------------
# strict pass: conformance of recorded behaviours to Core (TraceCore.tla)
# ---------------------------------------------------------------------------------------------
def parse_conf(out):
    res = {}
    flat = out.replace("\n", " ")
    for m in re.finditer(r'<<\s*"CONF",\s*(\d+),\s*(\d+),\s*(\d+)\s*>>', flat):
        res[int(m.group(1))] = (int(m.group(2)), int(m.group(3)))
    return res


def conform_traces(traces, scratch, shards=16, module="TraceCore.tla", cfg="TraceCore.cfg", timeout=3600):
    """Returns (list of (matched, length) aligned with traces (None = machinery failure), stats)."""
    n = len(traces)
    shards = max(1, min(shards, n))
    idx = [list(range(i, n, shards)) for i in range(shards)]
    files = []
    for si, ids in enumerate(idx):
        f = os.path.join(scratch, "ctraces-%d.json" % si)
        with open(f, "w") as fh:
            fh.write(json.dumps([traces[i] for i in ids], separators=(",", ":")))
        files.append(f)

    if cfg == "TraceCore.cfg":        # generated: the deviation switches live in harness/devs.py
        from harness import devs
        cfg = os.path.join(scratch, "TraceCore.gen.cfg")
        with open(cfg, "w") as fh:
            fh.write("CONSTANTS\n  MaxFrames = 40\n" + "".join("  %s = %s\n" % kv for kv in sorted(devs.devs().items()))
                     + "INIT Init\nNEXT Next\nCONSTRAINT Progress\nVIEW View\nPOSTCONDITION Report\nCHECK_DEADLOCK FALSE\n")

    def one(si):
        return run_tlc(module, cfg, scratch, workers=1, env={"TRACE_FILE": files[si]}, timeout=timeout,
                       heap="3g", gc=SMALL_JVM,
                       java_props=("-Dtlc2.tool.queue.IStateQueue=StateDeque",))
    with ThreadPoolExecutor(max_workers=shards) as ex:
        outs = list(ex.map(one, range(shards)))
    res = [None] * n
    errors = []
    states = 0
    for si, r in enumerate(outs):
        v = parse_conf(r["out"])
        states += parse_stats(r["out"])["distinct"]
        if "Error:" in r["out"]:
            errors.append((r["out"][max(0, r["out"].find("Error:") - 300):][:3000] + "\n...\n" + r["out"][-1500:]))
        for local, ids in enumerate(idx[si]):
            if (local + 1) in v:
                res[ids] = v[local + 1]
    for f in files:
        try:
            os.unlink(f)
        except OSError:
            pass
    return res, {"states": states, "errors": errors, "wall": max(r["wall"] for r in outs)}

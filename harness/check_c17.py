"""C17 -- captured worker output is delivered complete, in order, once, correctly labelled; EOF stops the
watching; no descriptor is leaked per worker generation.

(a) TLC checks spec/Redirector.tla exhaustively (small constants, all interleavings of writers, readers, sibling
    exits / kills / respawns with fd-number reuse, stop);
(b) TLC -simulate produces behaviours of the same spec on larger constants; every chosen state whose history has
    one of the lengths in DumpAt prints the history (actions + the observable model state after each) as JSON;
(c) each behaviour is replayed step by step on the REAL circus.stream.Redirector and the real
    circus.process.Process.stop()/close_output_channels: real os.pipe() pairs placed at chosen descriptor numbers
    (so that number reuse happens exactly as in the behaviour), a recording loop stub with tornado's add_handler /
    remove_handler semantics, collecting stream callables; after every step the delivered records, the loop's
    handler table, the open descriptors and the kernel's readiness are compared with the model state;
(cex) TLC searches the two-watcher configuration for a worker left unwatched (NoOrphan) and the counterexample is
    reproduced on the real code -> proposed finding C17-F1 (see FINDING below);
(d) LIVE: a real circus Watcher on a real tornado IOLoop with real child processes writing self-describing byte
    streams (pid- and channel-dependent payload, scripted chunk sizes 1 B .. 64 KiB on both channels) while
    siblings are killed / reaped / respawned; completeness, order, labels, EOF handling and /proc/self/fd are
    checked; it runs in a child interpreter of its own (own fd table, own children).
"""
import errno
import fcntl
import hashlib
import io
import json
import os
import random
import re
import select
import signal
import subprocess
import sys
import termios
import time
import traceback
from concurrent.futures import ThreadPoolExecutor

HERE = os.path.dirname(os.path.abspath(__file__))
ROOT = os.path.dirname(HERE)
if ROOT not in sys.path:
    sys.path.insert(0, ROOT)

FINDING = "C17-F1"
FINDING_WHAT = ("a worker reaped before the daemon saw EOF on its pipes (watcher.reap_process -> Process.stop() closes "
                "them, nothing calls remove_redirections) leaves its fd numbers in the event loop's handler table; when "
                "ANOTHER watcher's next worker gets one of these numbers, its Redirector.add_redirections raises "
                "ValueError('fd N added twice'), watcher.spawn_process swallows it, and that worker runs untracked "
                "with its output never read")

# ------------------------------------------------------------------------------------------------------
# TLC configurations
# ------------------------------------------------------------------------------------------------------
CFG_BASE = {
    "Workers": "<- W2", "Reds": "<- R1", "RedOf": "<- OneRed", "MaxFd": "= 4", "FdAny": "= FALSE",
    "Buffer": "= 2", "MaxChunk": "= 3", "MaxWrite": "= 3", "PipeCap": "= 3", "MaxGen": "= 2",
    "MaxWrites": "= 2", "MaxCloses": "= 1", "MaxChanges": "= 0", "Atomic": "= TRUE", "DumpAt": "<- NoDump",
    "Record": "= FALSE",
    "Dev_StaleAfterReap": "= TRUE",
}
INV_ONE = ["TypeOK", "C17_Prefix", "C17_Done", "C17_Label", "C17_EOF", "C17_Fds", "C17_Watched"]
INV_TWO = ["TypeOK", "C17_Prefix", "C17_Done", "C17_Label", "C17_EOF", "C17_Fds", "C17_Watched_KF"]
TWO = {"Reds": "<- R2", "RedOf": "<- TwoRed"}

# name -> (constant overrides, invariants)
MC = {
    "one_q": ({"MaxWrites": "= 1", "MaxCloses": "= 1"}, INV_ONE),
    "two_q": (dict(TWO, MaxWrites="= 1", MaxCloses="= 0", MaxChunk="= 2", MaxWrite="= 2", PipeCap="= 2",
                   Buffer="= 1"), INV_TWO),
    "one": ({"MaxWrites": "= 2", "MaxCloses": "= 1"}, INV_ONE),
    "two": (dict(TWO, MaxWrites="= 2", MaxCloses="= 0"), INV_TWO),
    "one_g3": ({"MaxWrites": "= 1", "MaxCloses": "= 0", "MaxGen": "= 3"}, INV_ONE),
    "one_w3": ({"MaxWrites": "= 3", "MaxCloses": "= 0"}, INV_ONE),
    # every interleaving of the halves of spawn_process / kill_process as well (Atomic = FALSE)
    "one_na": ({"MaxWrites": "= 1", "MaxCloses": "= 0", "Atomic": "= FALSE"}, INV_ONE),
    "two_na": (dict(TWO, MaxWrites="= 0", MaxCloses="= 0", Atomic="= FALSE"), INV_TWO),
    # `set NAME stdout_stream.* / stderr_stream.*` while workers run and write (ChangeStream)
    "one_cs_q": ({"MaxWrites": "= 2", "MaxCloses": "= 0", "MaxChanges": "= 1", "MaxGen": "= 1"}, INV_ONE),
    "one_cs": ({"MaxWrites": "= 2", "MaxCloses": "= 0", "MaxChanges": "= 2"}, INV_ONE),
    "two_cs": (dict(TWO, MaxWrites="= 2", MaxCloses="= 0", MaxChanges="= 1", MaxChunk="= 2", MaxWrite="= 2",
                    PipeCap="= 2", Buffer="= 1"), INV_TWO),
    "cex": (dict(TWO, MaxWrites="= 0", MaxCloses="= 0", Record="= TRUE"), ["NoOrphanDump"]),
}
SIM = {"Workers": "<- W3", "Reds": "<- R2", "RedOf": "<- Sim3", "MaxFd": "= 8", "MaxWrite": "= 6", "PipeCap": "= 6",
       "MaxGen": "= 6", "MaxWrites": "= 100000", "MaxCloses": "= 100000", "MaxChanges": "= 100000", "Atomic": "= FALSE", "DumpAt": "<- Dump4",
       "Record": "= TRUE"}
SIM_DEPTH = 62
REDOF = {"sim": {1: 1, 2: 1, 3: 2}, "two": {1: 1, 2: 2}}
MODEL_BUFFER = 2

TIERS = {
    "quick": {"mc": ["one_q", "two_q", "two_na", "one_cs_q"], "sim_num": 150, "sim_shards": 4, "live_gens": 20, "live_timeout": 240},
    "thorough": {"mc": ["one", "two", "one_w3", "one_g3", "one_na", "two_na", "one_cs", "two_cs"], "sim_num": 600, "sim_shards": 8, "live_gens": 200,
                 "live_timeout": 900},
}


def cfg_text(over, invariants, next_="Next", view=True, extra=()):
    c = dict(CFG_BASE)
    c.update(over)
    lines = ["CONSTANTS"] + ["  %s %s" % kv for kv in sorted(c.items())]
    lines += ["INIT Init", "NEXT " + next_, "CHECK_DEADLOCK FALSE"]
    if view:
        lines.append("VIEW View")
    lines += ["INVARIANT " + i for i in invariants]
    lines += list(extra)
    return "\n".join(lines) + "\n"


def _decode_lines(out, tag):
    """<<"TAG", "json string">> lines printed by the spec -> python objects"""
    res = []
    pat = re.compile(r'^<<"%s", (".*")>>\s*$' % tag)
    for line in out.splitlines():
        m = pat.match(line)
        if m:
            res.append(json.loads(json.loads(m.group(1))))
        elif line.startswith('<<"%s"' % tag):
            raise RuntimeError("cannot parse a %s line printed by TLC: %s ..." % (tag, line[:200]))
    return res


# ------------------------------------------------------------------------------------------------------
# (c) replay of a behaviour on the real Redirector / Process
# ------------------------------------------------------------------------------------------------------
FD_BASE = 400          # model fd k  <->  real descriptor FD_BASE + k
READ = 1               # tornado.ioloop.IOLoop.READ (checked against the import in load_circus)


def load_circus(repo):
    for name in list(sys.modules):
        if name == "circus" or name.startswith("circus."):
            f = getattr(sys.modules[name], "__file__", "") or ""
            if not os.path.abspath(f).startswith(os.path.abspath(repo) + os.sep):
                del sys.modules[name]
    if repo not in sys.path:
        sys.path.insert(0, repo)
    from tornado import ioloop
    from circus.stream.redirector import Redirector
    from circus.process import Process
    from circus.watcher import Watcher
    assert ioloop.IOLoop.READ == READ
    return Redirector, Process, Watcher


class LoopTable(object):
    """The handler table of one event loop shared by all redirectors, with tornado's semantics
    (tornado/platform/asyncio.py: add_handler raises ValueError on a number already present, remove_handler
    ignores an unknown number)."""

    def __init__(self):
        self.handlers = {}     # fd -> (owner, handler, events)

    def facade(self, owner):
        return LoopFacade(self, owner)


class LoopFacade(object):
    def __init__(self, table, owner):
        self.table = table
        self.owner = owner

    def add_handler(self, fd, handler, events):
        if not isinstance(fd, int):
            fd = fd.fileno()
        if fd in self.table.handlers:
            raise ValueError("fd %s added twice" % fd)
        self.table.handlers[fd] = (self.owner, handler, events)

    def remove_handler(self, fd):
        if not isinstance(fd, int):
            fd = fd.fileno()
        self.table.handlers.pop(fd, None)


class FakeWorker(object):
    """stands for the psutil.Popen object inside circus.process.Process: pid, stdout, stderr, poll, terminate"""

    def __init__(self, pid, stdout, stderr):
        self.pid = pid
        self.stdout = stdout
        self.stderr = stderr
        self.returncode = None

    def poll(self):
        return self.returncode

    def terminate(self):
        self.returncode = -15


def unit_bytes(salt, pid, ch, i, usize):
    """unit i (1-based) of what generation pid writes on channel ch: usize bytes, all different across pid/ch/i"""
    return hashlib.shake_128(("%s:%d:%s:%d" % (salt, pid, ch, i)).encode()).digest(usize)


class WouldBlock(Exception):
    """the handler asked the pipe for more than the readiness that woke it covers: on the daemon's (blocking) pipes
    that read does not return until the worker writes again - the event loop stands still"""


class _ReadGuard(object):
    """stands for the `os` module inside circus.stream.redirector while a handler runs: the pipe is switched to
    non-blocking for the call, and a read that would block is reported instead of being waited out (the handler
    itself swallows EAGAIN, hence the exception of another family)"""

    def __getattr__(self, name):
        return getattr(os, name)

    def read(self, fd, n):
        try:
            return os.read(fd, n)
        except BlockingIOError:
            raise WouldBlock(fd)


def guarded_call(handler, fd, events):
    import fcntl
    import circus.stream.redirector as rmod
    fl = fcntl.fcntl(fd, fcntl.F_GETFL)
    fcntl.fcntl(fd, fcntl.F_SETFL, fl | os.O_NONBLOCK)
    saved = rmod.os
    rmod.os = _ReadGuard()
    try:
        return handler(fd, events)
    finally:
        rmod.os = saved
        try:
            fcntl.fcntl(fd, fcntl.F_SETFL, fl)
        except OSError:
            pass


class Mismatch(Exception):
    def __init__(self, kind, what):
        Exception.__init__(self, what)
        self.kind = kind       # "violation" | "divergence"
        self.what = what


class Replay(object):
    """One behaviour on the real objects."""

    def __init__(self, classes, beh, redof, usize, salt, pidbase):
        self.Redirector, self.Process = classes[0], classes[1]
        self.Watcher = classes[2] if len(classes) > 2 else None
        self.beh = beh
        self.redof = redof
        self.usize = usize
        self.salt = salt
        self.pidbase = pidbase
        self.table = LoopTable()
        self.records = []            # (red, stream name, dict) in arrival order
        self.cur = {}                # (r, channel) -> id of the stream configured now
        self.reds0 = {}
        self.owner = {}              # r -> real Watcher owning the redirector (its stream_redirector is the one used)
        for r in sorted(set(redof.values())):
            out, err = self._collector(r, "stdout", 0), self._collector(r, "stderr", 0)
            self.cur[(r, "stdout")] = self.cur[(r, "stderr")] = 0
            w = None
            if self.Watcher is not None:
                # the redirector as the watcher builds it (_create_redirectors), with the model's read buffer
                w = self.Watcher("c17r%d" % r, "true", stdout_stream={"stream": out}, stderr_stream={"stream": err},
                                 loop=self.table.facade(r))
                w._create_redirectors()
                w.stream_redirector.buffer = MODEL_BUFFER * usize
                self.owner[r] = w
            else:
                self.reds0[r] = self.Redirector(out, err, buffer=MODEL_BUFFER * usize, loop=self.table.facade(r))
        self.proc = {}               # w -> Process of the current generation
        self.wfd = {}                # w -> {ch: write end or None}
        self.pid = {}                # w -> model pid of the current generation
        self.written = {}            # (model pid, ch) -> bytes written so far
        self.rfd_of = {}             # (model pid, ch) -> real read fd while the Process object holds it open
        self.expected = []           # model records as (red, name(stream), pid(real), name, bytes)
        self.orphans = []            # steps at which add_redirections raised as the model said
        self.steps_done = 0
        self.maxfd = 0

    def _collector(self, r, stream, sid):
        def collect(d):
            # (.., id of the stream object that received it, id of the stream configured for the channel right now)
            self.records.append((r, stream, dict(d), sid, self.cur[(r, stream)]))
        collect.close = lambda: None
        return collect

    def red(self, r):
        """the redirector the watcher uses NOW (watcher code always goes through self.stream_redirector)"""
        if r in self.owner:
            red = self.owner[r].stream_redirector
            if red is None:
                raise Mismatch("violation", "C17_Watched: the watcher has no redirector any more while its workers run")
            return red
        return self.reds0[r]

    # -- real state -------------------------------------------------------------------------------------
    def _open_window(self):
        res = set()
        for k in range(1, self.maxfd + 1):
            try:
                os.fstat(FD_BASE + k)
                res.add(k)
            except OSError:
                pass
        return res

    @staticmethod
    def _readable(fd):
        r, _, _ = select.select([fd], [], [], 0)
        return bool(r)

    @staticmethod
    def _pending(fd):
        buf = fcntl.ioctl(fd, termios.FIONREAD, b"\0\0\0\0")
        return int.from_bytes(buf, sys.byteorder)

    def real_formulas(self):
        """C17_Prefix / C17_Label / exactly-once on what the real streams received; returns None or a description."""
        cat = {}
        for r, stream, d, sid, cur in self.records:
            if sid != cur:
                return ("C17_Label: a record of the %s channel was handed to stream object #%d of watcher %d while "
                        "stream #%d was the one configured for that channel" % (stream, sid, r, cur))
            try:
                pid, name, data = d["pid"], d["name"], d["data"]
            except KeyError as e:
                return "C17_Label: record without %s: %r" % (e, d)
            mp = pid - self.pidbase
            if (mp, name) not in self.written:
                return "C17_Label: record labelled pid=%r name=%r, no such worker/channel wrote anything" % (pid, name)
            if stream != name:
                return "C17_Label: data labelled %r was handed to the %s stream" % (name, stream)
            if self.redof[mp // 10] != r:
                return "C17_Label: output of pid %r reached the streams of watcher %d" % (pid, r)
            cat[(mp, name)] = cat.get((mp, name), b"") + bytes(data)
        for key, got in cat.items():
            if not self.written[key].startswith(got):
                return ("C17_Prefix: what the %s stream received for pid %d is not a prefix of what it wrote "
                        "(got %d bytes, wrote %d)" % (key[1], key[0] + self.pidbase, len(got), len(self.written[key])))
        # conservation: delivered ++ still-in-pipe = written, for every channel whose read end is open
        for key, fd in self.rfd_of.items():
            try:
                pend = self._pending(fd)
            except OSError:
                continue
            got = len(cat.get(key, b""))
            if got + pend != len(self.written[key]) and self._registered_for(fd):
                return ("C17_Done: pid %d %s wrote %d bytes, %d are still in the pipe, the stream received %d: "
                        "%d bytes were consumed and not delivered" % (key[0] + self.pidbase, key[1],
                                                                       len(self.written[key]), pend, got,
                                                                       len(self.written[key]) - pend - got))
        return None

    def _registered_for(self, fd):
        return fd in self.table.handlers

    # -- one step ---------------------------------------------------------------------------------------
    def step(self, e):
        a = e["a"]
        if a == "start":
            self.red(e["r"]).start()
        elif a == "stop":
            self.red(e["r"]).stop()
        elif a == "chstream":
            r, ch, sid = e["r"], e["ch"], e["sid"]
            new = self._collector(r, ch, sid)
            if r in self.owner:
                # what `set NAME <ch>_stream.stream ...` does: Watcher.set_opt -> _reload_stream
                self.owner[r]._reload_stream(ch + "_stream.stream", new)
                self.owner[r].stream_redirector.buffer = MODEL_BUFFER * self.usize
            else:
                self.reds0[r].change_stream(ch, new)
            self.cur[(r, ch)] = sid
        elif a == "spawn":
            w, mp = e["w"], e["pid"]
            ends = {}
            for ch, k in (("stdout", e["fo"]), ("stderr", e["fe"])):
                self.maxfd = max(self.maxfd, k)
                r, wr = os.pipe()
                target = FD_BASE + k
                try:
                    os.fstat(target)
                    raise RuntimeError("descriptor %d is in use (harness)" % target)
                except OSError as ex:
                    if ex.errno != errno.EBADF:
                        raise
                os.dup2(r, target)
                os.close(r)
                ends[ch] = (io.open(target, "rb", -1), wr)       # what Popen(stdout=PIPE) gives the parent
                self.written[(mp, ch)] = b""
                self.rfd_of[(mp, ch)] = target
            worker = FakeWorker(self.pidbase + mp, ends["stdout"][0], ends["stderr"][0])
            try:
                p = self.Process("c17", w, "true", spawn=False, pipe_stdout=True, pipe_stderr=True)
            except TypeError:
                p = self.Process.__new__(self.Process)
                p.pipe_stdout = p.pipe_stderr = True
                p.redirected = False
                p.stopping = False
            p._worker = worker
            self.proc[w] = p
            self.pid[w] = mp
            self.wfd[w] = {"stdout": ends["stdout"][1], "stderr": ends["stderr"][1]}
        elif a == "add":
            w = e["w"]
            raised = None
            try:
                self.red(self.redof[w]).add_redirections(self.proc[w])
            except ValueError as ex:
                raised = ex
            if raised is not None and not e["ok"]:
                self.orphans.append((self.steps_done, w, str(raised)))
            elif raised is not None:
                raise Mismatch("violation", "C17_Watched: add_redirections raised %r for a fresh worker (pid %d): it "
                               "runs unwatched" % (raised, self.pidbase + self.pid[w]))
            elif not e["ok"]:
                raise Mismatch("divergence", "the model (Dev_StaleAfterReap) expects add_redirections to raise "
                               "'fd added twice' here; the code did not")
        elif a == "write":
            w, ch, n = e["w"], e["ch"], e["n"]
            mp = self.pid[w]
            have = len(self.written[(mp, ch)]) // self.usize
            data = b"".join(unit_bytes(self.salt, mp, ch, have + i, self.usize) for i in range(1, n + 1))
            os.write(self.wfd[w][ch], data)
            self.written[(mp, ch)] += data
        elif a == "wclose":
            w, ch = e["w"], e["ch"]
            os.close(self.wfd[w][ch])
            self.wfd[w][ch] = None
        elif a == "exit":
            w = e["w"]
            for ch in ("stdout", "stderr"):
                if self.wfd[w][ch] is not None:
                    os.close(self.wfd[w][ch])
                    self.wfd[w][ch] = None
            self.proc[w]._worker.returncode = 0
        elif a == "read":
            fd = FD_BASE + e["f"]
            ent = self.table.handlers.get(fd)
            if ent is None:
                raise Mismatch("divergence", "no handler registered for fd %d" % e["f"])
            if not self._readable(fd):
                raise Mismatch("divergence", "fd %d is not readable" % e["f"])
            try:
                guarded_call(ent[1], fd, READ)
            except WouldBlock:
                raise Mismatch("violation", "C17_NoStall: the handler of fd %d (pid %d %s) went on reading after the data "
                               "that had woken it was consumed: with the daemon's blocking pipes the event loop is "
                               "stuck in read() until that worker writes again" % (e["f"], self.pidbase + e["pid"], e["name"]))
            if e["k"] > 0:
                mp = e["pid"]
                done = sum(len(x[4]) for x in self.expected if x[2] == self.pidbase + mp and x[3] == e["name"])
                data = self.written[(mp, e["name"])][done:done + e["k"] * self.usize]
                self.expected.append((e["red"], e["name"], self.pidbase + mp, e["name"], data, e.get("sid", 0)))
        elif a == "remove":
            w = e["w"]
            self.red(self.redof[w]).remove_redirections(self.proc[w])
        elif a == "pstop":
            w = e["w"]
            self.proc[w].stop()
            for ch in ("stdout", "stderr"):
                self.rfd_of.pop((self.pid[w], ch), None)
        else:
            raise RuntimeError("unknown action %r" % (a,))

    def compare(self, e):
        obs = e["obs"]
        a = e["a"]
        # delivered records
        real = [(r, s, d.get("pid"), d.get("name"), bytes(d.get("data", b"")), sid) for r, s, d, sid, cur in self.records]
        if real != self.expected:
            bad = self.real_formulas()
            if bad:
                raise Mismatch("violation", bad)
            raise Mismatch("divergence", "delivered records differ from the model's (%d vs %d records) with C17's "
                           "formulas intact" % (len(real), len(self.expected)))
        # handler table
        mreg = dict((x["f"], x) for x in obs["reg"])
        rreg = dict((fd - FD_BASE, ent[0]) for fd, ent in self.table.handlers.items())
        extra = sorted(set(rreg) - set(mreg))
        missing = sorted(set(mreg) - set(rreg))
        if extra:
            if a == "read" and e["k"] == 0 and e["f"] in extra:
                raise Mismatch("violation", "C17_EOF: the handler saw EOF on fd %d (pid %d %s) and the fd is still "
                               "registered with the loop: the daemon keeps being woken for it" % (
                                   e["f"], self.pidbase + e["pid"], e["name"]))
            raise Mismatch("divergence", "fds %s registered with the loop, not in the model" % extra)
        if missing:
            live = [f for f in missing if mreg[f]["pid"] != 0 and (mreg[f]["pid"] // 10) in obs["run"]]
            if live:
                raise Mismatch("violation", "C17_Watched: fd %s of running worker pid %d is not registered with the "
                               "loop: its output will not be read" % (live, self.pidbase + mreg[live[0]]["pid"]))
            raise Mismatch("divergence", "fds %s not registered with the loop, registered in the model" % missing)
        wrong = [f for f in mreg if rreg[f] != mreg[f]["red"]]
        if wrong:
            raise Mismatch("divergence", "fds %s registered by another redirector than in the model" % wrong)
        # descriptors
        ropen = self._open_window()
        mopen = set(obs["open"])
        if ropen - mopen:
            if a == "pstop":
                raise Mismatch("violation", "C17_Fds: Process.stop() of pid %d left descriptor(s) %s open: leaked per "
                               "generation" % (self.pidbase + self.pid[e["w"]], sorted(ropen - mopen)))
            raise Mismatch("divergence", "descriptors %s open, closed in the model" % sorted(ropen - mopen))
        if mopen - ropen:
            raise Mismatch("divergence", "descriptors %s closed, open in the model" % sorted(mopen - ropen))
        # readiness as the kernel reports it, for the entries that are live in the model
        rrd = set(f for f in mreg if mreg[f]["pid"] != 0 and f in ropen and self._readable(FD_BASE + f))
        if rrd != set(obs["rd"]):
            raise Mismatch("divergence", "readable fds %s, model says %s" % (sorted(rrd), sorted(obs["rd"])))
        if len(self.records) != obs["nd"]:
            raise Mismatch("divergence", "record count")

    def run(self):
        """returns (steps done, Mismatch or None)"""
        try:
            for e in self.beh:
                self.step(e)
                self.compare(e)
                self.steps_done += 1
            bad = self.real_formulas()
            if bad:
                raise Mismatch("violation", bad)
            return self.steps_done, None
        except Mismatch as m:
            return self.steps_done, m
        finally:
            self.cleanup()

    def cleanup(self):
        for w, ends in self.wfd.items():
            for ch, fd in ends.items():
                if fd is not None:
                    try:
                        os.close(fd)
                    except OSError:
                        pass
        for w, p in self.proc.items():
            for f in (p._worker.stdout, p._worker.stderr):
                try:
                    f.close()
                except (OSError, ValueError):
                    pass
        for k in range(1, self.maxfd + 1):
            try:
                os.close(FD_BASE + k)
            except OSError:
                pass


def strip_obs(beh, upto=None):
    out = []
    for e in beh[:upto]:
        e = dict(e)
        e.pop("obs", None)
        out.append(e)
    return out


def fit_cases(classes, seed, verdict):
    """Writes whose size is an exact multiple of the read buffer (and its neighbours), each followed by silence: one
    handler call per readiness, as the loop makes them; the handler must neither ask a pipe for more than is there
    (C17_NoStall: with the daemon's blocking pipes that read stalls the loop) nor lose or reorder a byte."""
    Redirector = classes[0]
    rng = random.Random(seed * 977 + 13)
    n = 0

    class _Loop(object):
        def add_handler(self, *a):
            pass

        def remove_handler(self, *a):
            pass

    class _P(object):
        pid = 4242

    for buf in (1024, 16, 1):
        sizes = [buf, 2 * buf, 3 * buf, buf - 1, buf + 1, 2 * buf + 1, 5 * buf] if buf > 1 else [1, 2, 3]
        for size in sizes:
            if size <= 0:
                continue
            n += 1
            got = []
            red = Redirector(got.append, got.append, buffer=buf, loop=_Loop())
            rd, wr = os.pipe()
            try:
                h = Redirector.Handler(red, "stdout", _P(), None)
                payload = bytes(rng.randrange(256) for _ in range(size))
                os.write(wr, payload)
                calls = 0
                case = {"kind": "c17-fit", "buffer": buf, "size": size}
                while sum(len(d["data"]) for d in got) < size and calls < size + 5:
                    if not select.select([rd], [], [], 0)[0]:
                        break
                    calls += 1
                    try:
                        guarded_call(h, rd, READ)
                    except WouldBlock:
                        verdict.violation("C17_NoStall: a worker wrote %d bytes (read buffer %d) and fell silent; the handler, "
                                          "woken once, went on reading after the pipe was empty: with the daemon's blocking "
                                          "pipes the event loop is stuck in read() until that worker writes again" % (size, buf),
                                          case)
                        return n
                data = b"".join(d["data"] for d in got)
                if data != payload:
                    verdict.violation("C17_Prefix: %d bytes written (read buffer %d), %d delivered after %d wake-ups%s" % (
                        size, buf, len(data), calls, "" if payload.startswith(data) else ", not a prefix of what was written"),
                        case)
                    return n
            finally:
                os.close(rd)
                os.close(wr)
    return n


def replay_all(classes, behs, redof, seed, verdict, stats, label):
    rng = random.Random("c17:%s:%s" % (seed, label))
    sizes = [1, 1, 2, 3, 7, 64, 512, 1024, 4096]
    try:
        import resource
        soft = resource.getrlimit(resource.RLIMIT_NOFILE)[0]
        if soft < FD_BASE + 32:
            raise RuntimeError("RLIMIT_NOFILE %d too small for the descriptor window" % soft)
    except ImportError:
        pass
    for i, beh in enumerate(behs):
        usize = rng.choice(sizes)
        salt = "%s:%d" % (seed, i)
        pidbase = rng.choice([0, 1000, 40000])
        rp = Replay(classes, beh, redof, usize, salt, pidbase)
        done, mm = rp.run()
        stats["behaviours"] += 1
        stats["steps"] += done
        stats["reads"] += sum(1 for e in beh[:done] if e["a"] == "read")
        stats["eofs"] += sum(1 for e in beh[:done] if e["a"] == "read" and e["k"] == 0)
        stats["bytes"] += sum(len(v) for v in rp.written.values())
        for e in beh[:done]:
            stats["actions"][e["a"]] = stats["actions"].get(e["a"], 0) + 1
        replay_obj = {"kind": "redirector-replay", "config": label, "redof": redof, "unit_bytes": usize,
                      "salt": salt, "pidbase": pidbase, "seed": seed, "script": strip_obs(beh), "behaviour": beh}
        for (at, w, msg) in rp.orphans:
            stats["orphans"] += 1
            if stats["orphans"] <= 2:
                what = ("C17_Watched: step %d: Redirector.add_redirections of watcher %d raised ValueError(%r) for the "
                        "fresh worker pid %d (a reaped worker of the other watcher left that number in the loop's "
                        "handler table); watcher.spawn_process swallows the exception: the running worker's output "
                        "is never read" % (at, redof[w], msg, pidbase + rp.pid.get(w, 0)))
                verdict.attributed(FINDING, what, dict(replay_obj, failing_step=at))
        if mm is not None:
            entry = {"config": label, "behaviour": i, "step": done, "action": strip_obs(beh[done:done + 1]),
                     "what": mm.what}
            if mm.kind == "violation":
                stats["violations"] += 1
                if stats["violations"] <= 8:          # every one is counted, the first ones are written out
                    verdict.violation("step %d (%s): %s" % (done, json.dumps(strip_obs(beh[done:done + 1])),
                                                            mm.what), dict(replay_obj, failing_step=done))
            else:
                stats["divergences"].append(entry)
    return stats


def new_stats():
    return {"behaviours": 0, "steps": 0, "reads": 0, "eofs": 0, "bytes": 0, "orphans": 0, "violations": 0,
            "divergences": [], "actions": {}}


def dedupe_prefixes(behs):
    """histories dumped at several lengths of one walk: keep the longest of each chain"""
    keys = [json.dumps(strip_obs(b), sort_keys=True) for b in behs]
    order = sorted(range(len(behs)), key=lambda i: -len(behs[i]))
    kept, seen = [], set()
    for i in order:
        b = behs[i]
        k = keys[i]
        if k in seen:
            continue
        kept.append(b)
        # register all dump-length prefixes of this one
        for n in set(len(x) for x in behs):
            if n <= len(b):
                seen.add(json.dumps(strip_obs(b, n), sort_keys=True))
    return kept


# ------------------------------------------------------------------------------------------------------
# (d) live part -- runs in its own interpreter: python -B check_c17.py --live <repo> <gens> <seed> <scratch>
# ------------------------------------------------------------------------------------------------------
WORKER_SRC = r'''
import os, sys, random, time
SIZES = [1, 1, 2, 3, 7, 64, 500, 1023, 1024, 1025, 2048, 4096, 8191, 16384, 65536]
def make_script(seed, wid):
    """[(channel, size, pause)], mode -- the same function in the worker and in the checker"""
    rng = random.Random("%s:%s" % (seed, wid))
    n = rng.randint(2, 12)
    script = []
    for _ in range(n):
        size = rng.choice(SIZES) if rng.random() < 0.8 else rng.randint(1, 3000)
        script.append((rng.choice(("stdout", "stderr")), size, rng.random() < 0.3))
    x = rng.random()
    mode = "stay" if x < 0.7 else ("closeout" if x < 0.85 else "exit")
    return script, mode
def payload(pid, ch, n):
    return random.Random("%d:%s" % (pid, ch)).randbytes(n)
if __name__ == "__main__":
    seed, wid = sys.argv[1], sys.argv[2]
    script, mode = make_script(seed, wid)
    if len(sys.argv) > 3:
        # watcher-level part: the worker stays; with "helper" it first leaves a child that shares its stdout/stderr
        # (a master/worker server, `sh -c "prog | filter"`) and outlives it
        mode = "stay"
        if sys.argv[3] == "helper" and os.fork() == 0:
            with open(os.path.join(sys.argv[4], str(os.getpid())), "w") as fh:
                fh.write("helper")
            time.sleep(300)
            os._exit(0)
    pid = os.getpid()
    tot = {"stdout": 0, "stderr": 0}
    for ch, size, pause in script:
        tot[ch] += size
    data = {ch: payload(pid, ch, tot[ch]) for ch in tot}
    pos = {"stdout": 0, "stderr": 0}
    fdn = {"stdout": 1, "stderr": 2}
    for ch, size, pause in script:
        chunk = data[ch][pos[ch]:pos[ch] + size]
        pos[ch] += size
        while chunk:
            k = os.write(fdn[ch], chunk)
            chunk = chunk[k:]
        if pause:
            time.sleep(0.002)
    if mode == "exit":
        os._exit(0)
    if mode == "closeout":
        os.close(1)
    while True:
        time.sleep(3600)
'''

GRANDCHILD_SRC = r'''
import os, sys, time
# worker of watcher A in the C17-F1 scenario: leaves a grandchild that keeps the pipes open, then exits
pid = os.fork()
if pid == 0:
    os.setsid()
    with open(sys.argv[1], "w") as fh:
        fh.write(str(os.getpid()))
    time.sleep(120)
    os._exit(0)
os.write(1, b"parent-out")
os._exit(0)
'''


def live_main(repo, gens, seed, scratch):
    sys.path.insert(0, repo)
    import asyncio
    from tornado import gen, ioloop
    from circus.watcher import Watcher
    ns = {}
    exec(WORKER_SRC.replace('if __name__ == "__main__":', 'if False:'), ns)
    make_script, payload = ns["make_script"], ns["payload"]
    wpath = os.path.join(scratch, "c17_worker.py")
    with open(wpath, "w") as fh:
        fh.write(WORKER_SRC)
    gpath = os.path.join(scratch, "c17_grandchild.py")
    with open(gpath, "w") as fh:
        fh.write(GRANDCHILD_SRC)
    rng = random.Random("c17-live:%s" % seed)
    res = {"generations": 0, "complete_checked": 0, "prefix_checked": 0, "records": 0, "bytes": 0,
           "eof_checked": 0, "fd_counts": [], "violations": [], "notes": [], "exit_mode": 0, "exit_mode_tail_lost": 0,
           "exit_mode_lost_bytes": 0, "kills_external": 0, "kills_watcher": 0, "f1": None, "samples": []}

    asyncio.set_event_loop(asyncio.new_event_loop())
    loop = ioloop.IOLoop.current()
    recs = []                       # (stream, pid, name, data)

    cur = {}                        # id(watcher-level key) -> {channel: id of the stream configured now}
    stale = []

    def coll(stream, key="main", sid=0):
        cur.setdefault(key, {}).setdefault(stream, 0)

        def f(d):
            if cur[key][stream] != sid:
                stale.append("C17_Label: a %s record of pid %r was handed to stream object #%d while #%d was the one "
                             "configured (`set ... %s_stream.*` had replaced it)" % (stream, d.get("pid"), sid,
                                                                                     cur[key][stream], stream))
            recs.append((stream, d.get("pid"), d.get("name"), bytes(d.get("data", b""))))
        f.close = lambda: None
        return f

    def nfds():
        return len(os.listdir("/proc/self/fd")) - 1       # minus the descriptor of the listing itself

    def mk_watcher(name, np, args, so, se):
        w = Watcher(name, sys.executable, args=args, numprocesses=np, stdout_stream={"stream": so},
                    stderr_stream={"stream": se}, loop=loop, graceful_timeout=5, copy_env=True, respawn=True)
        w.initialize(None, {}, None)
        return w

    def reap_like_arbiter(watcher):
        """arbiter.reap_processes for this watcher's workers (waitpid on the tracked pids, not -1)"""
        for pid in list(watcher.processes):
            try:
                rp, status = os.waitpid(pid, os.WNOHANG)
            except ChildProcessError:
                continue
            if rp:
                watcher.reap_process(pid, status)

    def gone(pid):
        """the child has exited (zombie or reaped) -- without reaping it, which is the daemon's business"""
        try:
            with open("/proc/%d/stat" % pid) as fh:
                return fh.read().rsplit(")", 1)[1].split()[0] in ("Z", "X")
        except (OSError, IndexError):
            return True

    info = {}            # pid -> dict(wid, script, mode, expect{ch: bytes}, state)

    def track(watcher):
        for pid, p in watcher.processes.items():
            if pid not in info:
                script, mode = make_script(seed, p.wid)
                tot = {"stdout": 0, "stderr": 0}
                for ch, size, _ in script:
                    tot[ch] += size
                info[pid] = {"wid": p.wid, "mode": mode, "expect": {ch: payload(pid, ch, tot[ch]) for ch in tot},
                             "state": "running", "proc": p, "chunks": [(c, s) for c, s, _ in script]}
                res["generations"] += 1
                if len(res["samples"]) < 3:
                    res["samples"].append({"pid": pid, "wid": p.wid, "mode": mode,
                                           "script": [(c, s) for c, s, _ in script]})

    def got(pid):
        out = {"stdout": [], "stderr": []}
        for stream, rpid, name, data in recs:
            if rpid == pid and name in out:
                out[name].append(data)
        return {ch: b"".join(v) for ch, v in out.items()}

    def check_labels():
        if stale:
            return stale[0]
        for stream, rpid, name, data in recs:
            if name != stream:
                return "C17_Label: data labelled %r arrived at the %s stream (pid %r)" % (name, stream, rpid)
            if rpid not in info:
                return "C17_Label: record labelled with pid %r, which is no worker of this watcher" % (rpid,)
        return None

    def check_prefix(pid):
        g = got(pid)
        for ch in ("stdout", "stderr"):
            if not info[pid]["expect"][ch].startswith(g[ch]):
                n = 0
                e = info[pid]["expect"][ch]
                while n < len(g[ch]) and n < len(e) and g[ch][n] == e[n]:
                    n += 1
                return ("C17_Prefix: pid %d %s: the stream received %d bytes that are not a prefix of the %d bytes "
                        "written (first difference at offset %d; write sizes %s)" % (
                            pid, ch, len(g[ch]), len(e), n, [s for c, s in info[pid]["chunks"] if c == ch]))
        return None

    def complete(pid):
        g = got(pid)
        return all(len(g[ch]) >= len(info[pid]["expect"][ch]) for ch in g)

    @gen.coroutine
    def wait_complete(pids, timeout):
        t0 = time.time()
        while time.time() - t0 < timeout:
            if all(complete(p) for p in pids):
                return True
            yield gen.sleep(0.01)
        return all(complete(p) for p in pids)

    @gen.coroutine
    def main():
        np = 3
        w = mk_watcher("c17live", np, ["-S", "-B", wpath, str(seed), "$(circus.wid)"], coll("stdout"), coll("stderr"))
        yield w.start()
        track(w)
        baseline = None
        rounds = 0
        while res["generations"] < gens + np and not res["violations"]:
            rounds += 1
            yield gen.sleep(rng.choice([0, 0.001, 0.005, 0.02, 0.05]))
            quiesce = (rounds % 2 == 0)
            if quiesce:
                # every running worker must get everything through, whatever happened to its siblings meanwhile
                alive = [pid for pid, p in w.processes.items() if info[pid]["mode"] != "exit"]
                yield wait_complete(alive, 120)
                bad = check_labels()
                for pid in alive:
                    bad = bad or check_prefix(pid)
                    if not bad and not complete(pid):
                        g = got(pid)
                        bad = ("C17_Done: pid %d is running and wrote %s bytes; after 120 s with the loop running the "
                               "streams have %s" % (pid, {c: len(v) for c, v in info[pid]["expect"].items()},
                                                    {c: len(v) for c, v in g.items()}))
                    if not bad:
                        res["complete_checked"] += 1
                        if info[pid]["mode"] == "closeout" and info[pid]["state"] == "running":
                            # stdout was closed by the running worker: EOF must have unregistered the fd
                            # (no timing assertion: wait for the worker to really have closed it, then for the loop)
                            fd = info[pid]["proc"].stdout.fileno()
                            t0 = time.time()
                            while os.path.exists("/proc/%d/fd/1" % pid) and time.time() - t0 < 60:
                                yield gen.sleep(0.01)
                            if not os.path.exists("/proc/%d/fd/1" % pid) and not gone(pid):
                                t0 = time.time()
                                while fd in getattr(loop, "handlers", {}) and time.time() - t0 < 60:
                                    yield gen.sleep(0.01)
                                res["eof_checked"] += 1
                                if fd in getattr(loop, "handlers", {}):
                                    bad = ("C17_EOF: running pid %d closed its stdout; 60 s later fd %d is still "
                                           "registered with the loop" % (pid, fd))
                            info[pid]["state"] = "eofchecked"
                if bad:
                    res["violations"].append(bad)
                    break
                n = nfds()
                res["fd_counts"].append([res["generations"], len(w.processes), n])
                if len(w.processes) == np:
                    if baseline is None:
                        baseline = n
                    elif n > baseline + 2:
                        res["violations"].append("C17_Fds: /proc/self/fd has %d entries with %d workers after %d "
                                                 "generations; it had %d with %d workers after the first ones" % (
                                                     n, np, res["generations"], baseline, np))
                        break
            # `set c17live stdout_stream.* / stderr_stream.*` while the workers run and write (no restart: action 0)
            if rounds % 3 == 1:
                ch = rng.choice(["stdout", "stderr"])
                cur["main"][ch] += 1
                w.set_opt(ch + "_stream.stream", coll(ch, "main", cur["main"][ch]))
                res["stream_changes"] = res.get("stream_changes", 0) + 1
            # sibling deaths: some killed from outside and reaped (reap path), some by the watcher (kill path)
            victims = rng.sample(sorted(w.processes), 1 if rng.random() < 0.7 else 2)
            for pid in list(w.processes):
                if info[pid]["mode"] == "exit" and pid not in victims:
                    victims.append(pid)           # has exited by itself (or is about to): reaped below
            for pid in victims:
                p = w.processes.get(pid)
                if p is None:
                    continue
                if info[pid]["mode"] == "exit":
                    # wait for the exit, give the loop a moment, then reap as the arbiter does
                    t0 = time.time()
                    while not gone(pid) and time.time() - t0 < 60:
                        yield gen.sleep(0.005)
                    yield gen.sleep(rng.choice([0, 0.01, 0.1]))
                    reap_like_arbiter(w)
                    res["exit_mode"] += 1
                    g = got(pid)
                    lost = sum(len(info[pid]["expect"][ch]) - len(g[ch]) for ch in g)
                    if lost:
                        res["exit_mode_tail_lost"] += 1
                        res["exit_mode_lost_bytes"] += lost
                elif rng.random() < 0.5:
                    os.kill(pid, signal.SIGKILL)
                    res["kills_external"] += 1
                    if rng.random() < 0.5:
                        yield gen.sleep(rng.choice([0.001, 0.02]))
                    t0 = time.time()
                    while pid in w.processes and time.time() - t0 < 60:
                        reap_like_arbiter(w)
                        if pid in w.processes:
                            yield gen.sleep(0.002)
                else:
                    res["kills_watcher"] += 1
                    yield w.kill_process(p)
                    w.reap_process(pid)
                info[pid]["state"] = "dead"
                bad = check_prefix(pid) or check_labels()
                res["prefix_checked"] += 1
                if bad:
                    res["violations"].append(bad)
                    break
            if res["violations"]:
                break
            yield w.manage_processes()
            track(w)
        # final: everything alive completes, then stop the watcher and look at the descriptors
        if not res["violations"]:
            alive = [pid for pid in w.processes if info[pid]["mode"] != "exit"]
            yield wait_complete(alive, 120)
            for pid in alive:
                bad = check_prefix(pid)
                if not bad and not complete(pid):
                    bad = "C17_Done: pid %d is running, its output did not arrive within 120 s" % pid
                if bad:
                    res["violations"].append(bad)
                    break
                res["complete_checked"] += 1
        before = nfds()
        yield w.stop()
        after = nfds()
        res["fd_counts"].append(["stopped", 0, after])
        res["fd_before_stop"] = before
        if not res["violations"] and baseline is not None and after > baseline - 2 * np + 2:
            res["violations"].append("C17_Fds: after watcher.stop() %d descriptors are open; with %d workers there "
                                     "were %d" % (after, np, baseline))
        res["records"] = len(recs)
        res["bytes"] = sum(len(r[3]) for r in recs)
        res["record_max"] = max([len(r[3]) for r in recs] or [0])
        bad = check_labels()
        if bad and not res["violations"]:
            res["violations"].append(bad)
        # ---- watcher level: the kill path (decr / reload / restart / stop) with pipe-holding helper children
        try:
            res["wl"] = yield watcher_level(max(6, gens // 4))
        except Exception:
            res["wl"] = {"error": traceback.format_exc(), "violations": []}
        # ---- C17-F1 in vivo: two watchers on one loop
        try:
            res["f1"] = yield scenario_f1()
        except Exception:
            res["f1"] = {"error": traceback.format_exc()}

    @gen.coroutine
    def watcher_level(rounds):
        """Real Watchers A (workers with a helper child that keeps the pipes open) and B (plain) on one loop.
        Workers are removed ONLY through the watcher's own kill path (decr, graceful reload, restart, stop: all go
        through Watcher.kill_process = remove_redirections, then Process.stop()), never reaped from outside, so
        nothing here is the C17-F1 path; then workers are spawned in the same and in the sibling watcher.  After
        every operation: every running child is tracked by its watcher, every tracked worker's pipes are watched,
        its output arrives completely under its own pid at its own watcher's streams, descriptors do not grow."""
        import psutil
        out = {"rounds": 0, "ops": [], "violations": [], "spawned": 0, "removed_by_kill_path": 0,
               "complete_checked": 0, "watched_checked": 0, "fd_points": []}
        wrng = random.Random("c17-wl:%s" % seed)
        hdir = os.path.join(scratch, "helpers")
        os.makedirs(hdir, exist_ok=True)
        wrecs = {"A": [], "B": []}

        def wcoll(wname, stream):
            def f(d):
                wrecs[wname].append((stream, d.get("pid"), d.get("name"), bytes(d.get("data", b""))))
            f.close = lambda: None
            return f

        ws = {"A": mk_watcher("wlA", 2, ["-S", "-B", wpath, str(seed), "wlA-$(circus.wid)", "helper", hdir],
                              wcoll("A", "stdout"), wcoll("A", "stderr")),
              "B": mk_watcher("wlB", 1, ["-S", "-B", wpath, str(seed), "wlB-$(circus.wid)", "plain"],
                              wcoll("B", "stdout"), wcoll("B", "stderr"))}
        winfo = {}          # pid -> {"w": name, "expect": {ch: bytes}}

        def wtrack():
            for wn, w in ws.items():
                for pid, p in w.processes.items():
                    if pid not in winfo:
                        script, _ = make_script(seed, "wl%s-%s" % (wn, p.wid))
                        tot = {"stdout": 0, "stderr": 0}
                        for ch, size, _p in script:
                            tot[ch] += size
                        winfo[pid] = {"w": wn, "expect": {ch: payload(pid, ch, tot[ch]) for ch in tot}}
                        out["spawned"] += 1

        def wgot(wn, pid):
            g = {"stdout": b"", "stderr": b""}
            for stream, rpid, name, data in wrecs[wn]:
                if rpid == pid and name in g:
                    g[name] += data
            return g

        me = psutil.Process()

        def running_children():
            res_ = []
            for c in me.children():
                try:
                    if c.status() != psutil.STATUS_ZOMBIE:
                        res_.append(c.pid)
                except psutil.Error:
                    pass
            return res_

        base = [None]

        @gen.coroutine
        def check(after):
            yield gen.sleep(0.05)
            wtrack()
            tracked = {}
            for wn, w in ws.items():
                for pid, p in w.processes.items():
                    tracked[pid] = (wn, p)
            # (1) every running child of the daemon is a worker some watcher manages
            orphans = sorted(set(running_children()) - set(tracked))
            if orphans:
                return ("C17_Watched: after %s the daemon has running worker(s) %s that no watcher tracks: spawned by "
                        "spawn_process, dropped when add_redirections failed; their output is never read "
                        "(handler table %s)" % (after, orphans, sorted(getattr(loop, "handlers", {}))))
            # (2) the pipes of every tracked running worker are watched
            for pid, (wn, p) in tracked.items():
                if gone(pid):
                    continue
                for ch, pipe in (("stdout", p.stdout), ("stderr", p.stderr)):
                    out["watched_checked"] += 1
                    if pipe.fileno() not in getattr(loop, "handlers", {}):
                        return ("C17_Watched: after %s the %s of running worker %d (watcher %s, fd %d) is not "
                                "registered with the loop" % (after, ch, pid, wn, pipe.fileno()))
            # (3) completeness, order, labels -- per watcher
            t0 = time.time()
            live_pids = [pid for pid in tracked if not gone(pid)]

            def done(pid):
                g = wgot(tracked[pid][0], pid)
                return all(len(g[ch]) >= len(winfo[pid]["expect"][ch]) for ch in g)
            while time.time() - t0 < 120 and not all(done(pid) for pid in live_pids):
                yield gen.sleep(0.01)
            for wn in ws:
                for stream, rpid, name, data in wrecs[wn]:
                    if name != stream or rpid not in winfo or winfo[rpid]["w"] != wn:
                        return ("C17_Label: after %s a record labelled pid=%r name=%r arrived at the %s stream of "
                                "watcher %s" % (after, rpid, name, stream, wn))
            for pid in live_pids:
                g = wgot(tracked[pid][0], pid)
                for ch in g:
                    e = winfo[pid]["expect"][ch]
                    if not e.startswith(g[ch]):
                        return "C17_Prefix: after %s worker %d %s: received bytes are not a prefix of the written" % (
                            after, pid, ch)
                    if len(g[ch]) < len(e):
                        return ("C17_Done: after %s running worker %d (watcher %s) wrote %d bytes on %s, %d arrived "
                                "within 120 s" % (after, pid, tracked[pid][0], len(e), ch, len(g[ch])))
                out["complete_checked"] += 1
            # (4) descriptors: two per tracked worker over a constant base
            n = nfds()
            b = n - 2 * len(tracked)
            out["fd_points"].append([after, len(tracked), n])
            if base[0] is None:
                base[0] = b
            elif b > base[0] + 2:
                return ("C17_Fds: after %s %d descriptors are open with %d tracked workers (base was %d, is %d)"
                        % (after, n, len(tracked), base[0], b))
            return None

        @gen.coroutine
        def op(name, wn):
            w = ws[wn]
            before = set(w.processes)
            if name == "decr":
                if w.numprocesses < 1 or w.is_stopped():
                    return False
                yield w.decr(1)
            elif name == "incr":
                if w.numprocesses >= 3 or w.is_stopped():
                    return False
                yield w.incr(1)
            elif name == "reload":
                if w.is_stopped():
                    return False
                yield w.reload()
            elif name == "restart":
                yield w.restart()
            elif name == "stopstart":
                yield w.stop()
                out["removed_by_kill_path"] += len(before)
                yield gen.sleep(0.02)
                yield w.start()
                out["ops"].append("%s %s" % (name, wn))
                return True
            out["removed_by_kill_path"] += len(before - set(w.processes))
            out["ops"].append("%s %s" % (name, wn))
            return True

        try:
            yield ws["A"].start()
            yield ws["B"].start()
            bad = yield check("start")
            # the first history is the plain one: a helper-holding worker goes, the sibling watcher grows
            plans = [[("decr", "A"), ("incr", "B")], [("decr", "A"), ("incr", "A")]]
            menu = [[("decr", "A"), ("incr", "B")], [("decr", "A"), ("incr", "A")], [("reload", "A"), ("incr", "B")],
                    [("decr", "B"), ("incr", "A")], [("restart", "A"), ("incr", "B")], [("stopstart", "A")],
                    [("decr", "A"), ("decr", "A"), ("incr", "B"), ("incr", "B")], [("reload", "B"), ("incr", "A")],
                    [("incr", "A")], [("decr", "B")]]
            while not bad and out["rounds"] < rounds:
                plan = plans.pop(0) if plans else wrng.choice(menu)
                out["rounds"] += 1
                for name, wn in plan:
                    did = yield op(name, wn)
                    if did:
                        bad = yield check("%s on watcher %s (history: %s)" % (name, wn, ", ".join(out["ops"][-6:])))
                        if bad:
                            break
            if bad:
                out["violations"].append(bad)
        finally:
            for w in ws.values():
                try:
                    yield w.stop()
                except Exception:
                    pass
            for c in me.children():
                if c.pid in set(running_children()):
                    try:
                        c.kill()
                        c.wait(5)
                    except psutil.Error:
                        pass
            for name in os.listdir(hdir):
                try:
                    os.kill(int(name), signal.SIGKILL)
                except (OSError, ValueError):
                    pass
        out["ops"] = out["ops"][:40]
        out["fd_points"] = out["fd_points"][:3] + out["fd_points"][-3:]
        return out

    @gen.coroutine
    def scenario_f1():
        import psutil
        out = {"reproduced": False}
        recs_b = []

        def cb(d):
            recs_b.append(d)
        cb.close = lambda: None
        sink = lambda d: None
        sink.close = lambda: None
        gfile = os.path.join(scratch, "grandchild.pid")
        wa = mk_watcher("A", 1, ["-S", "-B", gpath, gfile], sink, sink)
        wa.respawn = False
        wb = mk_watcher("B", 1, ["-S", "-B", wpath, str(seed), "f1-$(circus.wid)"], cb, cb)
        yield wa.start()
        pa = list(wa.processes.values())[0]
        a_fds = sorted([pa.stdout.fileno(), pa.stderr.fileno()])
        yield wb.start()
        b_first = list(wb.processes)[0]
        # A's worker exits, its grandchild keeps the write ends: no EOF.  The arbiter's periodic reap closes A's pipes.
        t0 = time.time()
        while not gone(pa.pid) and time.time() - t0 < 60:
            yield gen.sleep(0.01)
        yield gen.sleep(0.3)
        reap_like_arbiter(wa)
        out["stale_after_reap"] = [fd for fd in a_fds if fd in getattr(loop, "handlers", {})]
        # B's worker dies and is reaped; B respawns: the new worker's pipes get A's old numbers
        os.kill(b_first, signal.SIGKILL)
        t0 = time.time()
        while b_first in wb.processes and time.time() - t0 < 60:
            yield gen.sleep(0.01)
            reap_like_arbiter(wb)
        me = psutil.Process()
        before = set(c.pid for c in me.children())
        yield wb.manage_processes()
        yield gen.sleep(0.5)
        kids = set(c.pid for c in me.children() if c.status() != psutil.STATUS_ZOMBIE) - before
        tracked = set(wb.processes) | set(wa.processes)
        orphans = sorted(kids - tracked)
        out["new_children"] = sorted(kids)
        out["tracked"] = sorted(tracked)
        out["orphans"] = orphans
        if orphans:
            yield gen.sleep(0.5)
            seen = set(d.get("pid") for d in recs_b)
            out["orphan_output_records"] = sum(1 for d in recs_b if d.get("pid") in orphans)
            out["reproduced"] = all(o not in seen for o in orphans)
        for o in orphans:
            try:
                os.kill(o, signal.SIGKILL)
                os.waitpid(o, 0)
            except OSError:
                pass
        yield wb.stop()
        yield wa.stop()
        try:
            with open(gfile) as fh:
                os.kill(int(fh.read()), signal.SIGKILL)
        except (OSError, ValueError):
            pass
        return out

    try:
        loop.run_sync(main, timeout=None)
    finally:
        # no child may survive
        try:
            import psutil
            for c in psutil.Process().children(recursive=True):
                try:
                    c.kill()
                except psutil.Error:
                    pass
        except Exception:
            pass
    return res


# ------------------------------------------------------------------------------------------------------
# bin/check C17 --replay <path>
# ------------------------------------------------------------------------------------------------------
def replay_main(prop, path):
    with open(path) as fh:
        rep = json.load(fh)
    repo = os.environ.get("VERIF_REPO", "/repo")
    if rep.get("kind") == "redirector-replay":
        classes = load_circus(repo)
        redof = dict((int(k), v) for k, v in rep["redof"].items())
        rp = Replay(classes, rep["behaviour"], redof, rep["unit_bytes"], rep["salt"], rep["pidbase"])
        done, mm = rp.run()
        print("replayed %s: %d of %d steps; orphans %s; %s" % (path, done, len(rep["behaviour"]), rp.orphans,
                                                                 mm.what if mm else "no mismatch"))
        if rp.orphans or (mm is not None and mm.kind == "violation"):
            print("VIOLATION property=%s replay=%s" % (prop, path))
            return 1
        return 0
    if rep.get("kind") in ("live", "live-f1"):
        from harness import tlcrun
        with tlcrun.Scratch() as d:
            p = subprocess.run([sys.executable, "-B", os.path.abspath(__file__), "--live", repo,
                                str(rep.get("generations", 20)), str(rep["seed"]), d], stdout=subprocess.PIPE,
                               stderr=subprocess.PIPE, timeout=900, text=True, cwd=d)
        if p.returncode != 0:
            print("MACHINERY-FAILURE: live run failed: " + p.stderr[-1500:])
            return 2
        live = json.loads(p.stdout.strip().splitlines()[-1])
        print(json.dumps({k: live.get(k) for k in ("generations", "violations", "wl", "f1")}, indent=1))
        if live["violations"] or (live.get("wl") or {}).get("violations") or (live.get("f1") or {}).get("reproduced"):
            print("VIOLATION property=%s replay=%s" % (prop, path))
            return 1
        return 0
    print("unknown replay kind %r" % rep.get("kind"))
    return 2


# ------------------------------------------------------------------------------------------------------
# the check
# ------------------------------------------------------------------------------------------------------
def run(prop, tier, seed):
    from harness import checklib, tlcrun
    verdict = checklib.Verdict(prop)
    timer = checklib.Timer()
    repo = os.environ.get("VERIF_REPO", "/repo")
    T = TIERS[tier]
    ev = {"tier": tier, "seed": seed, "level": "model_checking", "coverage": {}, "assumptions": [
        "TLC, the CommunityModules Json module",
        "replay: the loop stub has tornado's add_handler/remove_handler semantics (ValueError on a number already "
        "present) and the kernel drops a closed descriptor from epoll (a stale table entry never fires)",
        "a unit of the model is 1..4096 bytes in the replay with Redirector.buffer = 2 units; os.read on a local pipe "
        "returns min(buffer, available)",
        "live: workers are python children writing with os.write; completeness is demanded of running workers only",
    ]}
    cov = ev["coverage"]
    mc_res, stats_all = [], {}
    live = None
    with tlcrun.Scratch() as d:
        try:
            # ---- launch TLC jobs and the live interpreter side by side
            jobs = {}
            ex = ThreadPoolExecutor(max_workers=16)

            def mc_job(name):
                over, invs = MC[name]
                cfg = os.path.join(d, name + ".cfg")
                with open(cfg, "w") as fh:
                    fh.write(cfg_text(over, invs))
                return tlcrun.run_tlc("Redirector_MC.tla", cfg, d, workers=8 if tier == "quick" else 16,
                                      timeout=1500, heap="8g")

            def sim_job(shard):
                cfg = os.path.join(d, "sim%d.cfg" % shard)
                with open(cfg, "w") as fh:
                    fh.write(cfg_text(SIM, INV_TWO, next_="MCNext", view=False, extra=["ACTION_CONSTRAINT SimBias"]))
                return tlcrun.run_tlc("Redirector_MC.tla", cfg, d, workers=1, timeout=900, heap="2g",
                                      gc=tlcrun.SMALL_JVM,
                                      extra_args=["-simulate", "num=%d" % T["sim_num"], "-depth", str(SIM_DEPTH),
                                                  "-seed", str(1 + seed * 100 + shard)])

            def live_job():
                ldir = os.path.join(d, "live")
                os.makedirs(ldir)
                p = subprocess.run([sys.executable, "-B", os.path.abspath(__file__), "--live", repo,
                                    str(T["live_gens"]), str(seed), ldir], stdout=subprocess.PIPE,
                                   stderr=subprocess.PIPE, timeout=T["live_timeout"], text=True,
                                   cwd=ldir, env=dict(os.environ, PYTHONPATH=""))
                return p

            jobs["live"] = ex.submit(live_job)
            for s in range(T["sim_shards"]):
                jobs["sim%d" % s] = ex.submit(sim_job, s)
            jobs["cex"] = ex.submit(mc_job, "cex")
            for name in T["mc"]:
                jobs[name] = ex.submit(mc_job, name)

            # ---- (b)+(c) behaviours from simulation, replayed
            classes = load_circus(repo)
            behs = []
            sim_states = 0
            for s in range(T["sim_shards"]):
                r = jobs["sim%d" % s].result()
                if "Error:" in r["out"] or r["rc"] != 0:
                    verdict.machinery.append("TLC simulation failed: " + r["out"][-1500:])
                    continue
                m = re.search(r"The number of states generated: (\d+)", r["out"])
                sim_states += int(m.group(1)) if m else 0
                behs += _decode_lines(r["out"], "BEH")
            dumped = len(behs)
            behs = dedupe_prefixes(behs)
            st = new_stats()
            t0 = time.time()
            replay_all(classes, behs, REDOF["sim"], seed, verdict, st, "sim")
            st["fit_cases"] = fit_cases(classes, seed, verdict)
            st["wall_s"] = round(time.time() - t0, 2)
            st["dumped"] = dumped
            stats_all["sim"] = st

            # ---- (cex) the orphan counterexample of the two-watcher configuration
            r = jobs["cex"].result()
            cex = _decode_lines(r["out"], "CEX")
            cst = new_stats()
            cex_info = {"found": bool(cex), "wall_s": round(r["wall"], 1), "stats": tlcrun.parse_stats(r["out"])}
            if cex:
                replay_all(classes, cex[:1], REDOF["two"], seed, verdict, cst, "two")
                cex_info["length"] = len(cex[0])
                cex_info["reproduced_on_real_code"] = cst["orphans"] > 0
                cex_info["behaviour"] = strip_obs(cex[0])
                if cst["orphans"] == 0 and cst["violations"] > 0:
                    verdict.notes.append("the model's NoOrphan counterexample stopped at a violation before the orphan")
                elif cst["orphans"] == 0:
                    verdict.machinery.append("the model's NoOrphan counterexample (Dev_StaleAfterReap) does not "
                                             "reproduce on the real code: " + json.dumps(cst["divergences"])[:600])
            elif "Error:" in r["out"] and "NoOrphanDump" not in r["out"]:
                verdict.machinery.append("TLC (cex) failed: " + r["out"][-1500:])
            else:
                verdict.notes.append("NoOrphan holds in the two-watcher model")
            stats_all["cex"] = cst

            # ---- (a) exhaustive runs
            for name in T["mc"]:
                r = jobs[name].result()
                ps = tlcrun.parse_stats(r["out"])
                complete = "Model checking completed. No error has been found." in r["out"]
                mc_res.append({"name": name, "generated": ps["generated"], "distinct": ps["distinct"],
                               "depth": ps["depth"], "complete": complete, "wall_s": round(r["wall"], 1),
                               "constants": dict(CFG_BASE, **MC[name][0]), "invariants": MC[name][1]})
                if not complete:
                    m = re.search(r"Invariant (\w+) is violated", r["out"])
                    if m:
                        verdict.machinery.append("model-level counterexample to %s in %s (model as coded should satisfy "
                                                 "it; not reproduced on the code): %s" % (m.group(1), name,
                                                                                          r["out"][-800:]))
                    else:
                        verdict.machinery.append("TLC %s did not complete: %s" % (name, r["out"][-1200:]))

            # ---- (d) live
            try:
                p = jobs["live"].result()
                if p.returncode != 0:
                    verdict.machinery.append("live run failed (rc %s): %s" % (p.returncode, p.stderr[-2000:]))
                else:
                    live = json.loads(p.stdout.strip().splitlines()[-1])
            except subprocess.TimeoutExpired:
                if verdict.violations:
                    # the replay has already shown the code to violate the property (e.g. a handler that blocks in
                    # read()): a live daemon on that code standing still is the same thing seen again, not a
                    # failure of the machinery
                    verdict.notes.append("live run exceeded %d s (after a violation had been established)" % T["live_timeout"])
                else:
                    verdict.machinery.append("live run exceeded %d s" % T["live_timeout"])
            if live is not None:
                for v in live["violations"]:
                    verdict.violation("LIVE: " + v, {"kind": "live", "seed": seed, "generations": T["live_gens"],
                                                     "what": v, "samples": live.get("samples")})
                wl = live.get("wl") or {}
                for v in wl.get("violations", []):
                    verdict.violation("WATCHER-LEVEL (kill path only, not the C17-F1 reap path): " + v,
                                      {"kind": "live", "seed": seed, "generations": T["live_gens"], "what": v,
                                       "history": wl.get("ops")})
                if "error" in wl:
                    verdict.machinery.append("watcher-level part failed: " + wl["error"][-1500:])
                f1 = live.get("f1") or {}
                if f1.get("reproduced"):
                    verdict.attributed(FINDING, "LIVE, two real Watchers on one IOLoop: after watcher A's worker was "
                                       "reaped with its pipes still open in a grandchild, watcher B's respawned worker "
                                       "(pid %s) is running, is not in B.processes and none of its output reached B's "
                                       "streams" % (f1.get("orphans"),),
                                       {"kind": "live-f1", "seed": seed, "observed": f1})
                elif "error" in f1:
                    verdict.notes.append("live F1 scenario error: " + f1["error"][-500:])
            ex.shutdown(wait=True)
        except Exception:
            verdict.machinery.append("harness exception: " + traceback.format_exc()[-3000:])

    sim = stats_all.get("sim", new_stats())
    cexs = stats_all.get("cex", new_stats())
    cov["states"] = sum(m["distinct"] for m in mc_res)
    cov["transitions"] = sum(m["generated"] for m in mc_res)
    cov["exhaustive"] = bool(mc_res) and all(m["complete"] for m in mc_res)
    cov["mc_configs"] = mc_res
    cov["traces_validated_against_impl"] = sim["behaviours"] + cexs["behaviours"]
    cov["replay"] = {k: sim[k] for k in ("behaviours", "steps", "reads", "eofs", "bytes", "orphans", "actions")}
    cov["replay"]["violations"] = sim["violations"] + cexs["violations"]
    cov["replay"]["wall_s"] = sim.get("wall_s")
    cov["replay"]["histories_dumped_by_tlc"] = sim.get("dumped")
    cov["replay"]["simulation_states"] = locals().get("sim_states", 0)
    cov["divergences"] = (sim["divergences"] + cexs["divergences"])[:20]
    cov["divergence_count"] = len(sim["divergences"]) + len(cexs["divergences"])
    cov["counterexample_search"] = locals().get("cex_info", {})
    cov["live"] = dict((k, v) for k, v in (live or {}).items() if k not in ("samples", "wl"))
    cov["watcher_level"] = (live or {}).get("wl", {})
    if live and len(cov["live"].get("fd_counts", [])) > 12:
        fc = cov["live"]["fd_counts"]
        cov["live"]["fd_counts"] = fc[:4] + ["..."] + fc[-4:]
    cov["checker_cmd"] = "java -cp tla2tools.jar:CommunityModules-deps.jar tlc2.TLC -config <cfg> Redirector_MC.tla"
    cov["proposed_finding"] = {"id": FINDING, "what": FINDING_WHAT, "occurrences_in_replay": sim["orphans"],
                               "tlc_counterexample_reproduced": cexs["orphans"] > 0,
                               "live_reproduced": bool(live and (live.get("f1") or {}).get("reproduced"))}
    cov["not_asserted"] = [
        "output written by a worker that has exited and is reaped before the loop read it (Process.stop() closes the "
        "pipe with the data in it): the statement speaks of running workers; measured live under "
        "live.exit_mode_tail_lost",
        "output still unread when remove_redirections runs in kill_process (the worker is dead by then)",
        "what the stream classes do with the bytes: FileStream / StdoutStream decode every record on its own with "
        "errors='replace', so a multi-byte character that straddles a read boundary (buffer = 1024) is written as "
        "replacement characters (the bytes do reach the stream callable intact, which is all C17 states)",
        "liveness of the loop itself (fairness of readiness callbacks)",
    ]
    samples = []
    if "behs" in locals() and behs:
        samples.append({"behaviour": strip_obs(behs[0])[:25], "model_state_after_last": behs[0][min(24, len(behs[0]) - 1)]["obs"]})
    if live:
        samples += live.get("samples", [])[:2]
    cov["samples"] = samples or [{"note": "no behaviour obtained"}]
    if verdict.machinery and cov["states"] == 0:
        cov["states"] = 0
    for n in verdict.notes:
        print("NOTE: " + n)
    for dv in cov["divergences"][:5]:
        print("DIVERGENCE: " + json.dumps(dv)[:400])
    ev["wall_s"] = timer.wall()
    print("C17 %s seed=%d: MC %s; %d behaviours replayed (%d steps, %d reads, %d EOFs, %d orphans) in %s s; live: %s"
          % (tier, seed, ", ".join("%s %d states %ss" % (m["name"], m["distinct"], m["wall_s"]) for m in mc_res),
             cov["traces_validated_against_impl"], sim["steps"], sim["reads"], sim["eofs"], sim["orphans"],
             sim.get("wall_s"), ("%d generations, %d records, %d bytes, %d complete, %d prefix, fds %s" % (
                 live["generations"], live["records"], live["bytes"], live["complete_checked"],
                 live["prefix_checked"], [c[2] for c in live["fd_counts"]][:3] + ["..."] +
                 [c[2] for c in live["fd_counts"]][-2:])) if live else "none"))
    return verdict.finish(ev)


if __name__ == "__main__":
    if len(sys.argv) >= 6 and sys.argv[1] == "--live":
        out = live_main(sys.argv[2], int(sys.argv[3]), int(sys.argv[4]), sys.argv[5])
        sys.stdout.write("\n" + json.dumps(out, default=str) + "\n")
        sys.exit(0)
    from harness import checklib
    tier_, seed_ = checklib.tier_seed()
    sys.exit(run("C17", tier_, seed_))

"""Simulated kernel process table + psutil.Popen stand-in (Kernel.tla in Python).

States: run -> zombie -> reaped.  Semantics follow Linux + psutil 7 + subprocess:
  * Popen.poll() reaps (waitpid WNOHANG); after somebody else reaped the child it yields 0 (ECHILD path)
  * psutil send_signal/terminate: os.kill; succeeds silently on a zombie; NoSuchProcess on a reaped pid
  * status(): zombie -> STATUS_ZOMBIE; reaped -> NoSuchProcess
  * children(): NoSuchProcess on a reaped pid; a zombie has no children (they were re-parented)
  * os.waitpid(pid|-1, WNOHANG)

Every operation is reported to `kernel.rec(kind, ...)` (the trace recorder) and every operation is an
interception point: `kernel.before_kcall` is invoked first, which lets the stimulus script place a
worker death exactly before the k-th kernel call of a callback.
"""
import errno
import signal as _signal

import psutil
from psutil import NoSuchProcess, ZombieProcess, STATUS_ZOMBIE

PID_BASE = 10_000_000          # above pid_max: a stray real kill can never hit a real process

# default disposition "terminate" (or core) for these; others (CHLD, WINCH, URG, CONT, 0) do nothing here
_IGNORED_BY_DEFAULT = {0, int(_signal.SIGCHLD), int(_signal.SIGWINCH), int(_signal.SIGURG),
                       int(_signal.SIGCONT)}
_STOPPING = {int(_signal.SIGSTOP), int(_signal.SIGTSTP), int(_signal.SIGTTIN), int(_signal.SIGTTOU)}


class SimProc(object):
    __slots__ = ("pid", "st", "wstatus", "parent", "obeys", "args", "kw", "born", "owner", "wid",
                 "sigs", "stopped", "held")

    def __init__(self, pid, parent, obeys, args=None, kw=None, born=0.0):
        self.pid = pid
        self.st = "run"
        self.wstatus = None
        self.parent = parent      # None = child of the daemon, else pid of the parent worker
        self.obeys = obeys        # True: dies from any fatal signal; False: only SIGKILL kills it
        self.args = args
        self.kw = kw or {}
        self.born = born
        self.owner = None
        self.wid = None
        self.sigs = []
        self.stopped = False      # job control: SIGSTOP / SIGTSTP ... received, no SIGCONT yet
        self.held = []            # signals that arrived while stopped (they act when the process is continued)


class SpawnFault(Exception):
    pass


class Kernel(object):
    def __init__(self, clock):
        self.clock = clock            # callable -> virtual seconds
        self.procs = {}
        self.nextpid = PID_BASE + 1
        self.rec = lambda *a, **k: None
        self.before_kcall = lambda kind, pid: None
        self.obeys_policy = lambda args: True       # per-spawn worker behaviour
        self.spawn_faults = []        # list of exception instances raised by the next spawns ([None] = ok)
        self.bad_spawn = {}           # watcher name -> kind: every spawn of that watcher raises (persistent, non-OSError)
        self.instant_death = False    # True: a fatal signal kills before the daemon's next instruction
        self.dying = {}               # pid -> pending fatal signal (death happens at settle())
        self.siglog = []              # (t, pid, sig, sender) sender in {"sup","ext"}
        self.spawnlog = []            # (t, pid)
        self.kcalls = 0

    # ---- helpers
    def short(self, pid):
        return pid - PID_BASE if pid is not None and pid >= PID_BASE else pid

    def get(self, pid):
        return self.procs.get(pid)

    def table(self):
        return {self.short(p): s.st for p, s in self.procs.items()}

    def _k(self, kind, pid):
        self.kcalls += 1
        self.before_kcall(kind, pid)

    # ---- environment actions
    def die(self, pid, wstatus):
        p = self.procs[pid]
        if p.st != "run":
            return False
        self.dying.pop(pid, None)
        self._exit(p, wstatus)      # orphans are re-parented to init; grandchildren are reaped by init
        self.rec("die", p=pid, a=wstatus)
        return True

    def fork_child(self, parent_pid, obeys=True):
        p = self.procs[parent_pid]
        if p.st != "run":
            return None
        pid = self.nextpid
        self.nextpid += 1
        c = SimProc(pid, parent_pid, obeys, born=self.clock())
        self.procs[pid] = c
        self.rec("fork", p=pid, a=self.short(parent_pid))
        return pid

    def deliver(self, pid, sig, sender):
        """Signal semantics on a live/zombie process (caller handled 'reaped')."""
        p = self.procs[pid]
        sig = int(sig)
        p.sigs.append(sig)
        self.siglog.append((self.clock(), pid, sig, sender))
        if p.st != "run":
            return
        if sig in _STOPPING:
            p.stopped = True          # (a stopped process is still a live child: psutil says STATUS_STOPPED)
            return
        if sig == int(_signal.SIGCONT):
            held, p.held, p.stopped = p.held, [], False
            for h in held:
                self._act(p, pid, h)
            return
        if p.stopped and sig != int(_signal.SIGKILL):
            if sig != 0:
                p.held.append(sig)
            return
        self._act(p, pid, sig)

    def _act(self, p, pid, sig):
        if p.st != "run":
            return
        if sig == int(_signal.SIGKILL) or (p.obeys and sig not in _IGNORED_BY_DEFAULT
                                           and sig not in _STOPPING):
            if self.instant_death:
                self._exit(p, sig)
                self.rec("sigdeath", p=pid, a=sig)
            elif pid not in self.dying:
                self.dying[pid] = sig

    def _exit(self, p, wstatus):
        p.st = "zombie" if p.parent is None else "reaped"
        p.wstatus = wstatus
        for c in self.procs.values():
            if c.parent == p.pid:
                c.parent = -1

    def settle(self, only=None):
        """The environment lets pending fatal signals take effect (a signalled process exits
        'shortly after', not necessarily before the daemon's next system call)."""
        n = 0
        for pid in sorted(self.dying):
            if only is not None and pid != only:
                continue
            sig = self.dying.pop(pid)
            p = self.procs[pid]
            if p.st == "run":
                self._exit(p, sig)
                self.rec("sigdeath", p=pid, a=sig)
                n += 1
        return n

    def ext_kill(self, pid, sig=int(_signal.SIGKILL)):
        p = self.procs[pid]
        if p.st != "run":
            return False
        self.rec("extkill", p=pid, a=sig)
        self.deliver(pid, sig, "ext")
        return True

    # ---- supervisor-side system calls
    def spawn(self, args, kw):
        self._k("spawn", None)
        if self.spawn_faults:
            f = self.spawn_faults.pop(0)
            if f is not None:
                self.rec("spawnfail", r="OSError" if isinstance(f, OSError) else type(f).__name__)
                raise f
        if isinstance(args, (list, tuple)) and len(args) >= 2 and args[0] == "simworker" and str(args[1]) in self.bad_spawn:
            # a watcher whose every spawn fails with something spawn_process does not catch (not a stimulus: it
            # happens at every attempt, by itself)
            self.rec("spawnbad", w=str(args[1]), r=self.bad_spawn[str(args[1])])
            raise RuntimeError("scripted persistent spawn failure of %s" % args[1])
        pid = self.nextpid
        self.nextpid += 1
        sp = SimProc(pid, None, self.obeys_policy(args), args, kw, born=self.clock())
        self.procs[pid] = sp
        self.spawnlog.append((self.clock(), pid))
        owner = ""
        if isinstance(args, (list, tuple)) and len(args) >= 2 and args[0] == "simworker":
            owner = str(args[1])
        sp.owner = owner
        self.rec("spawn", w=owner, x=owner.lower(), p=pid, a=1 if sp.obeys else 0)
        return sp

    def waitpid(self, pid, options):
        if pid == -1:
            self._k("waitpid", None)
            kids = [p for p in self.procs.values() if p.parent is None and p.st != "reaped"]
            if not kids:
                self.rec("waitany", r="echild")
                raise OSError(errno.ECHILD, "No child processes")
            z = sorted((p for p in kids if p.st == "zombie"), key=lambda p: p.pid)
            if not z:
                self.rec("waitany", r="none")
                return (0, 0)
            p = z[0]
            p.st = "reaped"
            self.rec("waitany", p=p.pid, r="pid", a=p.wstatus)
            return (p.pid, p.wstatus)
        self._k("waitpid", pid)
        p = self.procs.get(pid)
        if p is None or p.parent is not None or p.st == "reaped":
            self.rec("waitpid", p=pid, r="echild")
            raise OSError(errno.ECHILD, "No child processes")
        if p.st == "run":
            self.rec("waitpid", p=pid, r="none")
            return (0, 0)
        p.st = "reaped"
        self.rec("waitpid", p=pid, r="pid", a=p.wstatus)
        return (pid, p.wstatus)

    def kill(self, pid, sig):
        """os.kill semantics; used by FakePopen and by the os proxy."""
        p = self.procs.get(pid)
        if p is None:
            raise ProcessLookupError(errno.ESRCH, "No such process")
        if p.st == "reaped":
            raise ProcessLookupError(errno.ESRCH, "No such process")
        self.deliver(pid, sig, "sup")


def _decode(wstatus):
    if wstatus is None:
        return None
    if wstatus & 0x7f:
        return -(wstatus & 0x7f)
    return (wstatus >> 8) & 0xff


class FakeChild(object):
    """psutil.Process stand-in for a worker's child (returned by children())."""

    def __init__(self, kernel, pid):
        self.k = kernel
        self.pid = pid

    def send_signal(self, sig):
        self.k._k("signal", self.pid)
        p = self.k.procs[self.pid]
        if p.st == "reaped":
            self.k.rec("csignal", p=self.pid, a=int(sig), r="nsp")
            raise NoSuchProcess(self.pid)
        self.k.rec("csignal", p=self.pid, a=int(sig), r="ok")
        self.k.deliver(self.pid, sig, "sup")

    # enough of the psutil API for util.get_info()
    def memory_info(self):
        return (1024, 2048)

    def cpu_percent(self, interval=None):
        return 0.0

    def memory_percent(self):
        return 0.0

    def cpu_times(self):
        return (0.0, 0.0)

    def nice(self):
        return 0

    def cmdline(self):
        return ["simchild"]

    def create_time(self):
        return self.k.procs[self.pid].born

    def username(self):
        return "sim"

    def children(self, recursive=False):
        return []


class FakePopen(object):
    """Stand-in for psutil.Popen bound to a Kernel (set FakePopen.kernel before use)."""
    kernel = None

    def __init__(self, args, **kw):
        k = self.kernel
        self._k = k
        self._sp = k.spawn(args, kw)
        self.pid = self._sp.pid
        self.args = args
        self.returncode = None
        self.stdin = None
        self.stdout = None
        self.stderr = None
        hook = getattr(k, "on_popen", None)
        if hook is not None:
            hook(self, args, kw)

    # -- subprocess.Popen part
    def poll(self):
        if self.returncode is not None:
            return self.returncode          # cached: no system call, not an effect
        self._k._k("poll", self.pid)
        sp = self._sp
        if sp.st == "run":
            self._k.rec("poll", p=self.pid, r="alive")
            return None
        if sp.st == "zombie":
            sp.st = "reaped"
            self.returncode = _decode(sp.wstatus)
            self._k.rec("poll", p=self.pid, r="dead", a=sp.wstatus)
            return self.returncode
        # reaped by somebody else: ECHILD path of subprocess -> returncode 0
        self.returncode = 0
        self._k.rec("poll", p=self.pid, r="lost")
        return 0

    def wait(self, timeout=None):
        r = self.poll()
        if r is None:
            raise psutil.TimeoutExpired(timeout, pid=self.pid)
        return r

    # -- psutil.Process part (takes precedence in psutil.Popen)
    def send_signal(self, sig):
        self._k._k("signal", self.pid)
        sp = self._sp
        if sp.st == "reaped":
            self._k.rec("signal", p=self.pid, a=int(sig), r="nsp")
            raise NoSuchProcess(self.pid)
        self._k.rec("signal", p=self.pid, a=int(sig), r="ok" if sp.st == "run" else "zombie")
        self._k.deliver(self.pid, sig, "sup")

    def terminate(self):
        self.send_signal(_signal.SIGTERM)

    def kill(self):
        self.send_signal(_signal.SIGKILL)

    def status(self):
        self._k._k("status", self.pid)
        sp = self._sp
        if sp.st == "reaped":
            self._k.rec("status", p=self.pid, r="gone")
            raise NoSuchProcess(self.pid)
        if sp.st == "zombie":
            self._k.rec("status", p=self.pid, r="zombie")
            return STATUS_ZOMBIE
        self._k.rec("status", p=self.pid, r="run")
        return psutil.STATUS_STOPPED if sp.stopped else psutil.STATUS_SLEEPING

    def is_running(self):
        return self._sp.st != "reaped"

    def children(self, recursive=False):
        self._k._k("children", self.pid)
        sp = self._sp
        if sp.st == "reaped":
            self._k.rec("children", p=self.pid, r="nsp")
            raise NoSuchProcess(self.pid)
        out = []
        if sp.st == "run":
            stack = [self.pid]
            while stack:
                cur = stack.pop()
                for c in sorted(self._k.procs.values(), key=lambda c: c.pid):
                    if c.parent == cur and c.st == "run":
                        out.append(FakeChild(self._k, c.pid))
                        if recursive:
                            stack.append(c.pid)
        self._k.rec("children", p=self.pid, r="ok", a=len(out))
        return out

    def _zombie_guard(self):
        sp = self._sp
        if sp.st == "reaped":
            raise NoSuchProcess(self.pid)
        if sp.st == "zombie":
            raise ZombieProcess(self.pid)

    def memory_info(self):
        self._zombie_guard()
        return (1024, 2048)

    def cpu_percent(self, interval=None):
        self._zombie_guard()
        return 0.0

    def memory_percent(self):
        self._zombie_guard()
        return 0.0

    def cpu_times(self):
        self._zombie_guard()
        return (0.0, 0.0)

    def nice(self):
        self._zombie_guard()
        return 0

    def cmdline(self):
        self._zombie_guard()
        return list(self.args) if isinstance(self.args, (list, tuple)) else [self.args]

    def create_time(self):
        if self._sp.st == "reaped":
            raise NoSuchProcess(self.pid)
        return self._sp.born

    def username(self):
        if self._sp.st == "reaped":
            raise NoSuchProcess(self.pid)
        return "sim"

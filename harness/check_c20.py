"""C20 -- log rotation loses and reorders nothing (circus.stream.file_stream.FileStream).

  (a) TLC checks spec/FileStream.tla exhaustively on the small configurations of spec/FileStream_MC.tla
      (C20_Size, C20_Count, C20_Tail, C20_Plain as invariants);
  (b) TLC -simulate produces behaviours of the same spec (history variable `hist`, outside the VIEW, printed as
      JSON by the CONSTRAINT Emit): parameters, initial directory, and after every step the file layout the
      model expects (active file and numbered backups as intervals [lo,hi) of the global offset);
  (c) every behaviour is replayed on the REAL FileStream in a scratch directory.  The payload byte at global
      offset g is a function of g, so a file's content says which interval of "everything written" it holds.
      After every step the directory (names, sizes, contents) is compared with the model state, and the C20
      formulas are evaluated on the real directory itself.  Any difference is a VIOLATION whose replay object
      (kind "c20-behaviour") carries parameters, write sequence and rendering seed; `replay_one(obj)` re-runs it.
  (d) the time_format clause (every line carries "<timestamp> [pid] | ") is checked on the real object
      directly with seeded multi-line payloads, with and without rotation (kind "c20-prefix").
  (e) thorough tier: Apalache discharges Size /\\ Count /\\ Tail as an inductive invariant for unbounded
      max_bytes and write sizes, N <= 3 (spec/FileStreamApa.tla); dropped from the claim if it stalls.

Rendering modes of a model write Write(n, x)  (n = len(data['data']) seen by _should_rollover, n + x = bytes
that write_data appends):
   ascii  x = 0      n ASCII characters, passed as str or as bytes
   utf8   x >= 0     n characters / bytes whose UTF-8 rendering by write_data has n + x bytes
   tf     x = 10     time_format "%M", pid 7: "MM [7] | " + n ASCII characters + "\\n"
"""
import json
import locale
import os
import random
import re
import shutil
import subprocess
import sys
import time
import traceback
from concurrent.futures import ThreadPoolExecutor
from datetime import datetime

from harness import checklib, tlcrun

REPO = os.environ.get("VERIF_REPO", "/repo")
FINDING = "C20-RAWLEN"
NAME = "app.log"

# config -> (rendering mode, exhaustive?, behaviours quick, behaviours thorough)
CONFIGS = [
    ("small", "ascii", True, 200, 12000),
    ("utf8", "utf8", True, 64, 3000),
    ("tf", "tf", True, 64, 3000),
    ("big", "ascii", False, 48, 2000),
]

TF_FORMAT = "%M"
TF_PID = 7
TF_NOW = datetime(2020, 1, 2, 3, 7, 5)
TF_EXTRA = 10

# characters that do not occur in the time_format prefix, so a payload byte never looks like a prefix byte
ALPH = "abcdefghijklmnopqrstuvwxyzABCDEFGHIJKLMNOPQRSTUVWXYZ!#$%&()*+,./;<=>?@^_`{}~"
K = len(ALPH)


def _filestream():
    if REPO not in sys.path:
        sys.path.insert(0, REPO)
    from circus.stream import file_stream
    return file_stream.FileStream


# -----------------------------------------------------------------------------------------------
# payloads
# -----------------------------------------------------------------------------------------------
def _ch(g):
    """ASCII payload character for global offset g (aperiodic enough: block k is the alphabet rotated by k)."""
    return ALPH[(g + g // K) % K]


def _wide(g, width):
    if width == 2:
        return chr(0xC0 + g % 64)
    if width == 3:
        return chr(0x4E00 + g % 2000)
    return chr(0x1F600 + g % 64)


def render(mode, g0, n, x, rng):
    """-> (data to hand to the stream, bytes that a FileStream honouring write_data appends)."""
    if mode == "ascii":
        if x != 0:
            raise ValueError("ascii mode renders x = 0 only")
        s = "".join(_ch(g0 + k) for k in range(n))
        return (s.encode() if rng.random() < 0.5 else s), s.encode()
    if mode == "tf":
        if x != TF_EXTRA:
            raise ValueError("tf mode renders x = %d only" % TF_EXTRA)
        s = "".join(_ch(g0 + k) for k in range(n))
        prefix = "%s [%d] | " % (TF_NOW.strftime(TF_FORMAT), TF_PID)
        return (s.encode() if rng.random() < 0.5 else s), (prefix + s + "\n").encode()
    if mode == "utf8":
        if x == 0:
            s = "".join(_ch(g0 + k) for k in range(n))
            return (s.encode() if rng.random() < 0.5 else s), s.encode()
        if x % 2 == 0 and x // 2 <= n and rng.random() < 0.4:
            # undecodable bytes: to_str(..., errors='replace') turns each into U+FFFD (3 bytes)
            k = x // 2
            bad = set(rng.sample(range(n), k))
            raw = b"".join(b"\xff" if i in bad else _ch(g0 + i).encode() for i in range(n))
            return raw, raw.decode("utf8", errors="replace").encode("utf8")
        if x > 3 * n:
            raise ValueError("cannot render n=%d x=%d" % (n, x))
        widths = [1] * n
        left = x
        while left:
            i = rng.randrange(n)
            if widths[i] < 4:
                widths[i] += 1
                left -= 1
        s = "".join(_ch(g0 + i) if w == 1 else _wide(g0 + i, w) for i, w in enumerate(widths))
        return s, s.encode("utf8")
    raise ValueError(mode)


def prefill(lo, hi):
    """content of a pre-existing file holding [lo,hi)"""
    return "".join(_ch(g) for g in range(lo, hi)).encode()


# -----------------------------------------------------------------------------------------------
# the real directory
# -----------------------------------------------------------------------------------------------
def read_dir(d):
    out = {}
    for fn in os.listdir(d):
        with open(os.path.join(d, fn), "rb") as fh:
            out[fn] = fh.read()
    return out


def expected_dir(layout, G):
    alo, ahi, backs = layout
    exp = {NAME: bytes(G[alo:ahi])}
    for i, (ex, lo, hi) in enumerate(backs, 1):
        if ex:
            exp["%s.%d" % (NAME, i)] = bytes(G[lo:hi])
    return exp


def expected_intervals(layout):
    alo, ahi, backs = layout
    out = {NAME: {"size": ahi - alo, "holds": [[alo, ahi]] if ahi > alo else "empty"}}
    for i, (ex, lo, hi) in enumerate(backs, 1):
        if ex:
            out["%s.%d" % (NAME, i)] = {"size": hi - lo, "holds": [[lo, hi]] if hi > lo else "empty"}
    return out


def locate(content, G):
    """where does this content occur in everything written: list of [lo,hi) (diagnostics)"""
    if not content:
        return "empty"
    res, p = [], bytes(G).find(content)
    while p >= 0 and len(res) < 3:
        res.append([p, p + len(content)])
        p = bytes(G).find(content, p + 1)
    return res or "not a contiguous piece of what was written (%d bytes)" % len(content)


_BK = re.compile(r"^" + re.escape(NAME) + r"\.(\d+)$")


def formulas(real, G, M, N, base, small):
    """the C20 clauses evaluated on the real directory; -> list of clause names that are FALSE"""
    bad = []
    act = real.get(NAME)
    backs = sorted(((int(m.group(1)), c) for fn, c in real.items() for m in [_BK.match(fn)] if m), reverse=True)
    if act is None:
        return ["C20_Tail(no active file)"]
    if M > 0 and N >= 1 and small and not len(act) < M:
        bad.append("C20_Size")
    if len(backs) > N:
        bad.append("C20_Count")
    if not bytes(G).endswith(b"".join(c for _, c in backs) + act):
        bad.append("C20_Tail")
    if M == 0 and act != bytes(G[base:]):
        bad.append("C20_Plain")
    return bad


def make_stream(FS, path, M, N, mode):
    kw = {"filename": path, "max_bytes": M, "backup_count": N}
    if mode == "tf":
        kw["time_format"] = TF_FORMAT
    s = FS(**kw)
    if mode == "tf":
        s.now = lambda: TF_NOW          # instance attribute shadows _FileStreamBase.now (a documented hook)
    return s


def replay_one(obj, workdir=None, FS=None):
    """Replays one behaviour on the real FileStream.  -> (failure, kf_hits): failure is None if everything
    agrees, else a dict describing the first disagreement {"step", "false", "layout_ok", ...}; kf_hits are the
    steps at which C20_Size alone is FALSE in exactly the way the finding signature KF_RawLen describes (the
    layout equals the model's); the replay continues past those."""
    FS = FS or _filestream()
    own = workdir is None
    if own:
        import tempfile
        workdir = tempfile.mkdtemp(prefix="c20-replay-")
    d = os.path.join(workdir, "b")
    os.makedirs(d)
    stream = None
    try:
        M, N, base, mode = obj["M"], obj["N"], obj["base"], obj["mode"]
        rng = random.Random(obj["render_seed"])
        steps = obj["steps"]
        lay0 = steps[0][4]
        tot0 = lay0[1]
        G = bytearray(prefill(0, tot0))
        for fn, c in expected_dir(lay0, G).items():
            if fn != NAME or c:
                with open(os.path.join(d, fn), "wb") as fh:
                    fh.write(c)
        path = os.path.join(d, NAME)
        stream = make_stream(FS, path, M, N, mode)
        small, last_extra, payloads, kf_hits = True, 0, [], []
        for k, (op, n, x, rolled, layout) in enumerate(steps):
            if op == 1:
                data, appended = render(mode, len(G), n, x, rng)
                if len(data) != n or len(appended) != n + x:
                    raise RuntimeError("rendering of Write(%d,%d) in mode %s is off: len %d, %d bytes" % (
                        n, x, mode, len(data), len(appended)))
                payloads.append(repr(data))
                G += appended
                small = small and (n + x < M)
                last_extra = x
                msg = {"data": data, "pid": TF_PID, "name": "stdout"}
                if mode == "tf" and rng.random() < 0.5:
                    msg["timestamp"] = time.mktime(TF_NOW.timetuple())
                stream(msg)
            elif op == 2:
                stream.close()
                if rng.random() < 0.5:
                    stream.open()
                else:
                    stream = make_stream(FS, path, M, N, mode)
            real = read_dir(d)
            exp = expected_dir(layout, G)
            false = formulas(real, G, M, N, base, small)
            layout_ok = real == exp
            if false or not layout_ok:
                act = real.get(NAME, b"")
                kf = (false == ["C20_Size"] and layout_ok and last_extra > 0 and len(act) - last_extra < M)
                res = {
                    "step": k, "false": false, "layout_ok": layout_ok, "kf": kf,
                    "op": ["init", "write", "close/reopen"][op], "n": n, "x": x,
                    "model_rolled_over": bool(rolled), "total_written": len(G),
                    "observed": {fn: {"size": len(c), "holds": locate(c, G)} for fn, c in sorted(real.items())},
                    "expected": expected_intervals(layout),
                    "payloads": list(payloads),
                }
                if not kf:
                    return res, kf_hits
                kf_hits.append(res)         # explained by the finding signature: go on, later steps still count
        return None, kf_hits
    finally:
        try:
            if stream is not None and stream._file is not None:
                stream.close()
        except Exception:
            pass
        shutil.rmtree(workdir if own else d, ignore_errors=True)


def describe(r):
    if r["false"]:
        head = " and ".join(r["false"]) + " FALSE on the real directory"
    else:
        head = "directory differs from the state of FileStream.tla (retention/layout), C20 formulas still TRUE"
    return "%s after step %d (%s n=%d x=%d): observed %s; model expects %s" % (
        head, r["step"], r["op"], r["n"], r["x"],
        {k: v["holds"] for k, v in r["observed"].items()}, {k: v["holds"] for k, v in r["expected"].items()})


# -----------------------------------------------------------------------------------------------
# TLC
# -----------------------------------------------------------------------------------------------
def cfg_variant(name, scratch, emit=False, size_inv=None, max_writes=None):
    with open(os.path.join(tlcrun.SPEC, "FileStream_%s.cfg" % name)) as fh:
        txt = fh.read()
    if max_writes is not None:
        txt = re.sub(r"MaxWrites = \d+", "MaxWrites = %d" % max_writes, txt)
    if emit:
        txt = txt.replace("EmitHist = FALSE", "EmitHist = TRUE")
        if "EmitHist = TRUE" not in txt:
            raise RuntimeError("cfg %s has no EmitHist line" % name)
    if size_inv:
        txt = re.sub(r"INVARIANT C20_Size\w*", "INVARIANT " + size_inv, txt)
    path = os.path.join(scratch, "FileStream_%s_%s%s.cfg" % (name, "sim" if emit else "mc", size_inv or ""))
    with open(path, "w") as fh:
        fh.write(txt)
    return path


# exhaustive runs of the quick tier stop one write earlier than the cfg files say (the machine is shared)
QUICK_MAX_WRITES = {"small": 7, "utf8": 5, "tf": 6}


def model_check(scratch, verdict, tier):
    cov = {"states": 0, "transitions": 0, "mc_configs": []}
    for name, mode, exhaustive, _q, _t in CONFIGS:
        if not exhaustive:
            continue
        mw = QUICK_MAX_WRITES[name] if tier == "quick" else None
        cfg = cfg_variant(name, scratch, max_writes=mw)
        with open(cfg) as fh:
            bound = int(re.search(r"MaxWrites = (\d+)", fh.read()).group(1))
        r = tlcrun.run_tlc("FileStream_MC.tla", cfg, scratch, workers=16, timeout=600, heap="8g")
        st = tlcrun.parse_stats(r["out"])
        ok = r["rc"] == 0 and "No error has been found" in r["out"]
        cov["mc_configs"].append({"name": name, "distinct": st["distinct"], "generated": st["generated"],
                                  "depth": st["depth"], "complete": ok, "max_writes": bound,
                                  "wall_s": round(r["wall"], 1)})
        cov["states"] += st["distinct"]
        cov["transitions"] += st["generated"]
        cov["checker_cmd"] = re.sub(r"-metadir \S+ ", "", r["cmd"])
        if not ok:
            verdict.machinery.append("TLC on FileStream_%s.cfg: rc=%s (the spec with Dev_ constants TRUE must satisfy "
                                     "its invariants; a counterexample here is a modelling problem)\n%s" % (
                                         name, r["rc"], r["out"][-2500:]))
    return cov


def finding_witness(scratch):
    """The strict C20_Size (without the finding signature) on the tf configuration: TLC's counterexample."""
    r = tlcrun.run_tlc("FileStream_MC.tla", cfg_variant("tf", scratch, size_inv="C20_Size"), scratch, workers=4,
                       timeout=300, heap="4g")
    if "Invariant C20_Size is violated" not in r["out"]:
        return {"violated": False, "rc": r["rc"]}
    states = re.findall(r"State \d+:.*?\n(.*?)(?=\n\n|\nState|\Z)", r["out"], re.S)
    return {"violated": True, "trace_states": len(states), "last_state": states[-1].split("\n") if states else []}


_BEH = re.compile(r'^"BEH (\[.*\])"\s*$', re.M)


def simulate(name, want, seed, scratch):
    per_worker = max(1, (want + 15) // 16)
    r = tlcrun.run_tlc("FileStream_MC.tla", cfg_variant(name, scratch, emit=True), scratch, workers=16,
                       timeout=900, heap="4g",
                       extra_args=["-simulate", "num=%d" % per_worker, "-depth", "100", "-seed", str(seed)])
    behs = [json.loads(m.group(1)) for m in _BEH.finditer(r["out"])]
    err = None
    if r["rc"] != 0 or "Error:" in r["out"] or not behs:
        err = "TLC -simulate on FileStream_%s.cfg: rc=%s, %d behaviours\n%s" % (name, r["rc"], len(behs),
                                                                               r["out"][-2000:])
    return behs[:max(want, 1)], r, err


# -----------------------------------------------------------------------------------------------
# C20_Prefix on the real object
# -----------------------------------------------------------------------------------------------
PFX_FORMATS = ["%Y-%m-%d %H:%M:%S", "%H:%M:%S", "[%d/%b/%Y:%H:%M:%S]", "%Y%m%dT%H%M%S"]


def replay_prefix(case, workdir=None, FS=None):
    """Re-run one recorded time_format case (kind "c20-prefix") on the real FileStream -> failure text or None."""
    import tempfile
    FS = FS or _filestream()
    own = workdir is None
    if own:
        workdir = tempfile.mkdtemp(prefix="c20-replay-")
    d = os.path.join(workdir, "p")
    os.makedirs(d, exist_ok=True)
    try:
        fmt, M, N = case["time_format"], case["max_bytes"], case["backup_count"]
        now = datetime.fromisoformat(case["now"])
        pids = case.get("pids") or [case["pid"]]
        s = FS(filename=os.path.join(d, NAME), max_bytes=M, backup_count=N, time_format=fmt)
        s.now = lambda: now
        allowed = set([now.strftime(fmt)])
        for w in case["writes"]:
            if w == "reopen":
                s.close()
                s.open()
                continue
            data = w["data"].encode() if w.get("bytes") else w["data"]
            msg = {"data": data, "pid": w.get("pid", case["pid"]), "name": "stdout"}
            if w.get("timestamp") is not None:
                msg["timestamp"] = w["timestamp"]
                allowed.add(datetime.fromtimestamp(w["timestamp"]).strftime(fmt))
            s(msg)
        s.close()
        tagged = "pids" in case
        for fn, content in sorted(read_dir(d).items()):
            if content and not content.endswith(b"\n"):
                return "%s does not end with a newline under time_format" % fn
            for ln, line in enumerate(content.decode("utf8").split("\n")[:-1]):
                ok = any(line.startswith(("%s [%d] | P%d:" % (ts, p_, p_)) if tagged else ("%s [%d] | " % (ts, p_)))
                         for ts in allowed for p_ in pids)
                if not ok:
                    return "line %d of %s does not carry the '<timestamp> [pid] | ' prefix of its write: %r" % (ln + 1, fn, line)
        return None
    finally:
        if own:
            shutil.rmtree(workdir, ignore_errors=True)
        else:
            shutil.rmtree(d, ignore_errors=True)


def prefix_case(FS, rng, workdir):
    """One seeded case: multi-line payloads through a FileStream with time_format; every line of every file
    must start with '<timestamp> [pid] | '.  -> None or (what, replay)"""
    d = os.path.join(workdir, "p")
    os.makedirs(d)
    try:
        fmt = rng.choice(PFX_FORMATS)
        rotate = rng.random() < 0.6
        M = rng.choice([60, 100, 257, 1000]) if rotate else 0
        N = rng.randint(1, 3) if rotate else 0
        now = datetime(2021, rng.randint(1, 12), rng.randint(1, 28), rng.randint(0, 23), rng.randint(0, 59),
                       rng.randint(0, 59))
        # several workers write through one stream: every line is labelled with the pid of ITS write (each payload
        # line starts with "P<pid>:" so that the label can be checked against the content)
        pids = rng.sample([1, 42, 31337, 4194304], rng.choice([1, 2, 3]))
        pid = pids[0]
        case = {"kind": "c20-prefix", "time_format": fmt, "max_bytes": M, "backup_count": N, "pid": pid, "pids": pids,
                "now": now.isoformat(), "writes": []}
        s = FS(filename=os.path.join(d, NAME), max_bytes=M, backup_count=N, time_format=fmt)
        s.now = lambda: now
        ts_now = now.strftime(fmt)
        allowed = set()
        for _ in range(rng.randint(1, 12)):
            if rng.random() < 0.1:
                s.close()
                s.open()
                case["writes"].append("reopen")
                continue
            nl = rng.randint(0, 4)
            wpid = rng.choice(pids)
            parts = ["P%d:" % wpid + "".join(rng.choice(ALPH + "  ") for _ in range(rng.choice([0, 1, 3, 17, 40])))
                     for _ in range(nl + 1)]
            text = "\n".join(parts) + "\n"
            data = text.encode() if rng.random() < 0.5 else text
            msg = {"data": data, "pid": wpid, "name": "stdout"}
            stamp = None
            if rng.random() < 0.4:
                t = now.replace(second=rng.randint(0, 59))
                stamp = time.mktime(t.timetuple())
                msg["timestamp"] = stamp
                allowed.add(datetime.fromtimestamp(stamp).strftime(fmt))
            else:
                allowed.add(ts_now)
            case["writes"].append({"data": text, "bytes": isinstance(data, bytes), "timestamp": stamp, "pid": wpid})
            s(msg)
        s.close()
        for fn, content in sorted(read_dir(d).items()):
            if content and not content.endswith(b"\n"):
                return "%s does not end with a newline under time_format" % fn, case
            for ln, line in enumerate(content.decode("utf8").split("\n")[:-1]):
                if not any(line.startswith("%s [%d] | P%d:" % (ts, p_, p_)) for ts in allowed for p_ in pids):
                    return ("line %d of %s does not carry the '<timestamp> [pid] | ' prefix of the write it comes from: %r"
                            % (ln + 1, fn, line)), case
        return None
    finally:
        shutil.rmtree(d, ignore_errors=True)


# -----------------------------------------------------------------------------------------------
# Apalache (thorough tier extra)
# -----------------------------------------------------------------------------------------------
def apalache(scratch):
    spec = os.path.join(tlcrun.SPEC, "FileStreamApa.tla")
    if not os.path.exists(spec) or shutil.which("apalache-mc") is None:
        return {"status": "not available"}
    res = {"obligations": []}
    env = dict(os.environ, JVM_ARGS="-Xmx4g -Djava.io.tmpdir=" + scratch, TMPDIR=scratch)
    for label, args in (("Init => IndInv", ["--init=Init", "--inv=IndInv", "--length=0"]),
                        ("IndInv /\\ Next => IndInv'", ["--init=IndInit", "--inv=IndInv", "--length=1"]),
                        ("IndInv => C20", ["--init=IndInit", "--inv=C20_All", "--length=0"])):
        cmd = ["timeout", "300", "apalache-mc", "check", "--out-dir=" + os.path.join(scratch, "apa"),
               "--run-dir=" + os.path.join(scratch, "apa-run")] + args + [spec]
        t0 = time.time()
        try:
            p = subprocess.run(cmd, cwd=scratch, env=env, stdout=subprocess.PIPE, stderr=subprocess.STDOUT,
                               text=True, timeout=330)
            out, rc = p.stdout, p.returncode
        except subprocess.TimeoutExpired:
            out, rc = "", 124
        ok = rc == 0 and "The outcome is: NoError" in out
        res["obligations"].append({"obligation": label, "ok": ok, "rc": rc, "wall_s": round(time.time() - t0, 1),
                                   "tail": "" if ok else out[-600:]})
    res["status"] = "discharged" if all(o["ok"] for o in res["obligations"]) else "dropped from the claim"
    res["cmd"] = "apalache-mc check --init=IndInit --inv=IndInv --length=1 spec/FileStreamApa.tla (and base case, and IndInv => C20_All)"
    return res


# -----------------------------------------------------------------------------------------------
def run(prop, tier, seed):
    timer = checklib.Timer()
    verdict = checklib.Verdict(prop)
    cov = {"states": 0, "transitions": 0, "traces_validated_against_impl": 0, "samples": [], "exhaustive": True}
    recorded = {"viol": 0, "kf": 0, "suppressed": 0}

    def report(kind, what, rep, finding=None):
        if finding is not None:
            known = finding in verdict.known and prop in verdict.known[finding].get("properties", [])
            if known or recorded["kf"] < 5:
                verdict.attributed(finding, what, rep)
            else:
                recorded["suppressed"] += 1
            recorded["kf"] += 1
            return
        if recorded["viol"] < 10:
            verdict.violation(what, rep)
        else:
            recorded["suppressed"] += 1
        recorded["viol"] += 1

    with tlcrun.Scratch() as scratch:
        try:
            FS = _filestream()
            enc = locale.getpreferredencoding(False).lower().replace("-", "")
            cov["impl"] = {"repo": REPO, "file": sys.modules[FS.__module__].__file__, "file_encoding": enc}

            # (a) exhaustive
            cov.update(model_check(scratch, verdict, tier))
            cov["finding_witness_in_model"] = finding_witness(scratch)

            # (b) + (c)
            t_sim = t_rep = 0.0
            per_cfg = {}
            divergent = 0
            for ci, (name, mode, _ex, nq, nt) in enumerate(CONFIGS):
                want = nq if tier == "quick" else nt
                if mode == "utf8" and enc not in ("utf8", "utf_8"):
                    verdict.notes.append("utf8 mode skipped: files are opened with encoding " + enc)
                    continue
                behs, r, err = simulate(name, want, seed * 7919 + ci + 1, scratch)
                t_sim += r["wall"]
                if err:
                    verdict.machinery.append(err)
                    continue
                t0 = time.time()
                stats = {"behaviours": len(behs), "steps": 0, "writes": 0, "rollovers": 0, "reopens": 0,
                         "with_preexisting": 0, "size_known_finding": 0, "disagreements": 0}
                for bi, (M, N, base, hist) in enumerate(behs):
                    obj = {"kind": "c20-behaviour", "config": name, "mode": mode, "M": M, "N": N, "base": base,
                           "steps": hist, "render_seed": (seed * 1000003 + ci * 100003 + bi) & 0x7FFFFFFF,
                           "tlc_seed": seed * 7919 + ci + 1,
                           "legend": "steps: [op(0 init,1 write,2 close/reopen), n=len(data), x=bytes appended-n, "
                                     "model rolled over, [active.lo, active.hi, [[exists,lo,hi] for .1 .. .MaxN]]]"}
                    stats["steps"] += len(hist) - 1
                    stats["writes"] += sum(1 for h in hist if h[0] == 1)
                    stats["rollovers"] += sum(1 for h in hist if h[0] == 1 and h[3])
                    stats["reopens"] += sum(1 for h in hist if h[0] == 2)
                    stats["with_preexisting"] += 1 if hist[0][4][1] > 0 else 0
                    res, kf_hits = replay_one(obj, workdir=scratch, FS=FS)
                    if bi < 2 and len(cov["samples"]) < 6:
                        cov["samples"].append({k: obj[k] for k in ("config", "mode", "M", "N", "base", "steps")})
                    if kf_hits:
                        stats["size_known_finding"] += 1
                        kobj = dict(obj, failure=kf_hits[0])
                        report("kf", "C20_Size FALSE on the real directory, layout exactly as FileStream.tla predicts "
                               "with Dev_RawLenTest (bytes appended > len(data)): " + describe(kf_hits[0]), kobj,
                               finding=FINDING)
                    if res is not None:
                        stats["disagreements"] += 1
                        report("viol", describe(res), dict(obj, failure=res))
                t_rep += time.time() - t0
                per_cfg[name] = stats
                cov["traces_validated_against_impl"] += len(behs)
            cov["replay"] = per_cfg
            cov["simulate_wall_s"] = round(t_sim, 1)
            cov["replay_wall_s"] = round(t_rep, 1)

            # (d) prefix clause
            rng = random.Random(seed * 31 + 5)
            ncases = 300 if tier == "quick" else 5000
            bad = 0
            for i in range(ncases):
                out = prefix_case(FS, rng, scratch)
                if out is not None:
                    bad += 1
                    what, case = out
                    report("viol", "C20_Prefix: " + what, case)
            cov["prefix_cases"] = ncases
            cov["prefix_failures"] = bad

            # (e) Apalache
            if tier == "thorough":
                cov["apalache"] = apalache(scratch)
        except Exception:
            verdict.machinery.append("check_c20 raised:\n" + traceback.format_exc())

    cov["violations_beyond_recorded"] = recorded["suppressed"]
    cov["notes"] = verdict.notes
    evidence = {
        "tier": tier, "seed": seed, "level": "model_checking", "coverage": cov, "wall_s": timer.wall(),
        "assumptions": [
            "TLC and the CommunityModules Json module",
            "pre-existing backups have indices within 1..backup_count and hold consecutive earlier output",
            "one writer, no crash in the middle of a rollover, Linux (os.linesep = '\\n'), UTF-8 file encoding",
            "model bounds as listed under mc_configs; larger parameters only by simulation (config big)",
        ],
    }
    return verdict.finish(evidence)


if __name__ == "__main__":
    t, s = checklib.tier_seed(sys.argv[1] if len(sys.argv) > 1 else None)
    sys.exit(run("C20", t, s))

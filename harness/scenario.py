"""Scenario = daemon configuration + stimulus script (requests, deaths at kernel-call boundaries, timer
choices, time, daemon signals).  `run_scenario` executes it against the real circus code on the sim
binding and returns the recorded trace.  Scripts come from TLC (-simulate behaviours of Core), from the
seeded random generator below, or from replay files.
"""
import json
import random
import signal as _signal

SIGTERM, SIGKILL, SIGINT, SIGQUIT, SIGHUP, SIGUSR1, SIGSEGV = (
    int(_signal.SIGTERM), int(_signal.SIGKILL), int(_signal.SIGINT), int(_signal.SIGQUIT),
    int(_signal.SIGHUP), int(_signal.SIGUSR1), int(_signal.SIGSEGV))


def run_scenario(sc, record_state=True):
    from harness.simdaemon import Sim
    import random as _random
    _random.seed(sc.get("seed", 0))       # circus draws max_age_variance from the global generator: replays draw the same
    sim = Sim(sc["watchers"], check_delay=sc.get("check_delay", 1.0),
              warmup_delay=sc.get("warmup_delay", 0.0), record_state=record_state,
              file_mode=bool(sc.get("file_mode", False)), endpoint_owner=sc.get("endpoint_owner"))
    try:
        obeys = list(sc.get("obeys", []))
        stubborn = set(sc.get("stubborn", []))

        def policy(args):
            if isinstance(args, (list, tuple)) and len(args) >= 2 and args[1] in stubborn:
                return False
            if obeys:
                v = obeys.pop(0)
                obeys.append(v)
                return bool(v)
            return True
        sim.kernel.obeys_policy = policy
        sim.kernel.instant_death = bool(sc.get("instant_death", False))
        for op in sc["script"]:
            _exec(sim, op)
        meta = {"exceptions": sim.exceptions, "lines": len(sim.trace), "blocked_s": sim.blocked_total,
                "handles": sim.loop.handles_run}
        return sim.trace, meta
    finally:
        sim.close()


def _resolve_pid(sim, op):
    if "sel" in op:
        w, i = op["sel"]
        return sim.sel(w, i, live_only=op.get("live", True))
    if "pid" in op:
        from harness.simkernel import PID_BASE
        pid = op["pid"] + PID_BASE
        return pid if pid in sim.kernel.procs else None
    if "untracked" in op:
        # a running child of the daemon that no watcher tracks any more (released by rm nostop, forgotten after a
        # failing after_spawn hook ...): it is still the daemon's child and its zombie is the daemon's to reap
        tracked = set()
        for w in list(getattr(sim.arb, "watchers", [])):       # (the watchers the arbiter HAS: a removed one tracks nothing)
            tracked.update(w.processes.keys())
        cands = sorted(pid for pid, sp in sim.kernel.procs.items() if sp.st == "run" and sp.parent is None and pid not in tracked)
        return cands[op["untracked"] % len(cands)] if cands else None
    return None


def _fault(kind):
    if kind == "OSError":
        return OSError(2, "No such file or directory (scripted)")
    if kind == "ValueError":
        return ValueError("scripted")
    if kind == "RuntimeError":
        return RuntimeError("scripted non-OSError spawn fault")
    return None


def _exec(sim, op):
    o = op["op"]
    if o == "boot":
        sim.boot()
        if op.get("drain", True):
            sim.drain()
    elif o == "drain":
        sim.drain()
    elif o == "run":
        for _ in range(op.get("n", 1)):
            if not sim.loop.ready_len():
                break
            sim.run_handle()
    elif o == "tick":
        for _ in range(op.get("n", 1)):
            if not sim.tick(op.get("order")):
                break
    elif o == "advance":
        sim.advance(op["dt"], op.get("order"))
    elif o == "req":
        props = dict(op.get("props") or {})
        if "pidsel" in props:
            i = props.pop("pidsel")
            pid = sim.sel(str(props.get("name", "")), i, live_only=False)
            if pid is not None:
                props["pid"] = pid
        if "pid_short" in props:
            from harness.simkernel import PID_BASE
            props["pid"] = props.pop("pid_short") + PID_BASE
        if "pidany" in props:
            i = props.pop("pidany")
            allp = sorted(sim.kernel.procs) + [4242]
            props["pid"] = allp[i % len(allp)]
        if "childany" in props:
            i = props.pop("childany")
            allp = sorted(sim.kernel.procs) + [4242]
            props["childpid"] = allp[i % len(allp)]
        if "childsel" in props:
            i = props.pop("childsel")
            kids = sorted(c.pid for c in sim.kernel.procs.values()
                          if c.parent == props.get("pid") and c.st == "run")
            if kids:
                props["childpid"] = kids[i % len(kids)]
        sim.request(op["cmd"], props, mid=op.get("mid"), cast=op.get("cast", False),
                    raw=op["raw"].encode("latin1") if "raw" in op else None)
        if op.get("drain", True):
            sim.drain()
    elif o == "sockev":
        sim.socket_event(bool(op.get("ready", True)))
    elif o == "reloadcfg":
        # the configuration file is rewritten, then the real `reloadconfig` request
        sim.write_file(op["watchers"], check_delay=op.get("file_check_delay"))
        sim.request("reloadconfig", {"waiting": bool(op.get("waiting", False))})
        if op.get("drain", True):
            sim.drain()
    elif o == "die":
        pid = _resolve_pid(sim, op)
        if pid is None:
            return
        status = op.get("status", 256)
        if "k" in op:
            sim.inject_before_kcall(op["k"], lambda: sim.kernel.die(pid, status))
        else:
            sim.kernel.die(pid, status)
    elif o == "extkill":
        pid = _resolve_pid(sim, op)
        if pid is not None:
            sim.kernel.ext_kill(pid, op.get("sig", SIGKILL))
            if op.get("settle", True):
                sim.kernel.settle(pid)
    elif o == "fork":
        pid = _resolve_pid(sim, op)
        if pid is not None:
            if op.get("deep"):       # a grandchild: the child of a child of the worker, if it has one
                kids = sorted(c.pid for c in sim.kernel.procs.values() if c.parent == pid and c.st == "run")
                if kids:
                    pid = kids[0]
            sim.kernel.fork_child(pid, obeys=op.get("obeys", True))
    elif o == "dsig":
        sim.daemon_signal(op["sig"])
        if op.get("drain", True):
            sim.drain()
    elif o == "spawnfault":
        for k in op["kinds"]:
            sim.kernel.spawn_faults.append(_fault(k))
            sim.rec("spawnfault", r=k if k else "ok")
    elif o == "badspawn":
        sim.kernel.bad_spawn[op["w"]] = op.get("kind", "RuntimeError")
        sim.rec("badspawn", w=op["w"].lower(), r=op.get("kind", "RuntimeError"))
    elif o == "hookset":
        sim.hook_outcomes[(op["w"], op["h"])] = op["o"]
    elif o == "probe":
        sim.probe()
    elif o == "settle":
        sim.kernel.settle()
    elif o == "end":
        _quiesce(sim, op.get("budget", 60.0), op.get("passes", 3))
        if not op.get("noprobe"):
            sim.probe()
        if op.get("xprobe") and sim.quiescent():      # (a daemon that is legitimately busy may refuse)
            # C10: a harmless exclusive request must be accepted once everything is idle
            for w in list(sim.arb.watchers)[:1]:
                sim.request("set", {"name": w.name, "options": {"numprocesses": w.numprocesses},
                                    "waiting": True}, mid="xprobe")
                sim.drain()
                _quiesce(sim, 20.0, 1)
        sim.rec("end")
    else:
        raise ValueError("unknown op %r" % (op,))


def _quiesce(sim, budget, passes):
    """Let virtual time pass until the daemon is idle for `passes` periodic checks (or budget)."""
    end = sim.loop.vnow + budget
    calm = 0
    while sim.loop.vnow < end:
        sim.drain()
        if not sim.tick():
            break
        if sim.quiescent():
            calm += 1
            if calm >= passes * 2 + 1 and sim.check_delay > 0:
                break
            if sim.check_delay <= 0:
                break
        else:
            calm = 0
    if sim.check_delay > 0:
        # (two check delays more than the passes asked for: a periodic check that is not there at all shows here)
        sim.advance((passes + 2) * sim.check_delay + 0.15)
    sim.drain()


# ------------------------------------------------------------------------------------------------
# seeded random scenarios (profiles select which part of the behaviour is exercised)
# ------------------------------------------------------------------------------------------------

EXIT_STATUSES = [0, 256, 255 << 8, SIGTERM, SIGKILL, SIGSEGV]


def gen_watchers(rng, n, profile):
    ws = []
    for i in range(n):
        w = {"name": "w%d" % (i + 1), "np": rng.choice([0, 1, 1, 2, 2, 3]),
             "G": rng.choice(profile.get("Gs", [0.0, 0.1, 0.2, 0.3, 0.5])), "W": rng.choice(profile.get("Ws", [0.0, 0.0, 0.1, 0.2])),
             "singleton": False, "respawn": True, "priority": rng.choice([0, 0, 1, 2])}
        if profile.get("singleton") and rng.random() < 0.3:
            w["singleton"] = True
            w["np"] = rng.choice([0, 1])
        if profile.get("norespawn") and rng.random() < 0.25:
            w["respawn"] = False
        if profile.get("autostart") and rng.random() < 0.3:
            w["autostart"] = False
        if profile.get("stop_children") and rng.random() < 0.5:
            w["stop_children"] = True
        if profile.get("max_age") and rng.random() < profile["max_age"]:
            w["max_age"] = rng.choice([1, 2])             # seconds; expiry is one of C03's termination causes
            w["max_age_variance"] = rng.choice(profile.get("mage_vars", [0]))
        if profile.get("stop_signal") and rng.random() < 0.4:
            w["stop_signal"] = rng.choice([SIGINT, SIGQUIT, SIGUSR1, SIGHUP])
        if profile.get("hooks"):
            hooks = {}
            names = profile["hooks"]
            for h in rng.sample(sorted(set(names)), rng.choice([0, 1, 1, 2])) + (
                    ["before_signal"] if "before_signal" in names and rng.random() < profile.get("sighook", 0.0) else []):
                hooks[h] = (rng.choice(["true", "false", "raise"]), rng.random() < 0.5)
                if rng.random() < profile.get("slowhooks", 0.0):
                    hooks[h] = ("true+slow", False)
            if hooks:
                w["hooks"] = hooks
        ws.append(w)
    return ws


def gen_scenario(seed, profile=None):
    """A random history.  profile keys: watchers (max), steps, cmds (list), deaths, stubborn, kcall_deaths,
    partial (run callbacks one at a time), dsig, hooks, faults, fork."""
    p = dict(watchers=2, steps=25, deaths=True, stubborn=0.3, kcall_deaths=0.3, partial=0.2,
             cmds=["incr", "decr", "set_np", "restart", "reload", "kill", "signal", "stop", "start",
                   "status", "list", "numprocesses"],
             dsig=0.0, faults=0.0, fork=0.0)
    p.update(profile or {})
    rng = random.Random(seed)
    nw = rng.randint(1, p["watchers"])
    ws = gen_watchers(rng, nw, p)
    sc = {"seed": seed, "watchers": ws,
          "check_delay": rng.choice(p.get("check_delays", [0.3, 0.5, 1.0])),
          "warmup_delay": rng.choice(p.get("wgs", [0.0, 0.0, 0.1])),
          "stubborn": [w["name"] for w in ws if rng.random() < p["stubborn"]],
          "obeys": [rng.random() < 0.8 for _ in range(7)],
          "instant_death": rng.random() < p.get("instant", 0.0),
          "script": []}
    s = sc["script"]
    s.append({"op": "boot"})
    if rng.random() < 0.8:
        s.append({"op": "tick", "n": rng.randint(1, 12)})
    names = [w["name"] for w in ws]
    for _ in range(rng.randint(3, p["steps"])):
        r = rng.random()
        w = rng.choice(names)
        if r < 0.35:
            s.append(gen_request(rng, w, p, names))
            if rng.random() < p["partial"]:
                s[-1]["drain"] = False
                s.append({"op": "run", "n": rng.randint(1, 4)})
        elif r < 0.55 and p["deaths"] and rng.random() < p.get("die_untracked", 0.0):
            s.append({"op": "die", "untracked": rng.randint(0, 3), "status": rng.choice(EXIT_STATUSES)})
        elif r < 0.55 and p["deaths"]:
            d = {"op": "die", "sel": [w, rng.randint(0, 3)], "status": rng.choice(EXIT_STATUSES)}
            if rng.random() < p["kcall_deaths"]:
                d["k"] = rng.randint(1, 8)
            if rng.random() < 0.3:
                d = {"op": "extkill", "sel": [w, rng.randint(0, 3)]}
            s.append(d)
        elif r < 0.55 + p["fork"]:
            s.append({"op": "fork", "sel": [w, rng.randint(0, 3)], "obeys": rng.random() < 0.7, "deep": rng.random() < 0.4})
        elif r < 0.6 + p["fork"] and p["faults"]:
            s.append({"op": "spawnfault", "kinds": [rng.choice(["OSError", "OSError", "ValueError", None])
                                                     for _ in range(rng.randint(1, 3))]})
        elif r < 0.62 + p["fork"] and p["dsig"]:
            s.append({"op": "dsig", "sig": rng.choice([SIGTERM, SIGINT, SIGQUIT, SIGHUP])})
        elif r < 0.9:
            s.append({"op": "tick", "n": rng.randint(1, 6)})
        else:
            s.append({"op": "advance", "dt": rng.choice([0.05, 0.1, 0.35, 1.0, 2.5])})
        if rng.random() < 0.1:
            s.append({"op": "probe"})
    s.append({"op": "end", "xprobe": bool(p.get("xprobe", True))})
    return sc


def gen_request(rng, w, p, names):
    cmd = rng.choice(p["cmds"])
    waiting = rng.random() < 0.5
    name = w if rng.random() < 0.85 else w.upper()
    if cmd == "incr" or cmd == "decr":
        props = {"name": name, "nb": rng.choice([1, 1, 2, 3]), "waiting": waiting}
        if rng.random() < p.get("negnb", 0.1):
            props["nb"] = rng.choice([-1, -2, -5, 0])      # an integer is an integer: accepted (incr -n, decr -n)
        if rng.random() < p.get("badnb", 0.0):
            props["nb"] = 1.5          # an ill-typed property that the daemon accepts (D16)
    elif cmd == "set_np":
        return {"op": "req", "cmd": "set", "props": {"name": name, "waiting": waiting,
                                                     "options": {"numprocesses": rng.choice([0, 1, 2, 3, -1])}}}
    elif cmd == "set_multi":
        import shlex
        pool = {"numprocesses": [0, 1, 2, 3], "graceful_timeout": [0.1, 0.2, 0.3, 0], "warmup_delay": [0, 0.1, 0.2],
                "stop_signal": [SIGINT, SIGTERM, SIGQUIT, SIGUSR1], "stop_children": [True, False],
                "send_hup": [True, False], "cmd": ["simworker " + shlex.quote(w)], "env": [{"A": "1"}, {"B": "2"}],
                "working_dir": ["/tmp"], "max_retry": [1, 3], "respawn": [True], "max_age": [0]}
        keys = rng.sample(sorted(pool), rng.choice([1, 1, 2, 2, 3]))
        if rng.random() < 0.3:      # an option that asks for a reload, THEN numprocesses (every option must be applied)
            keys = [rng.choice(["cmd", "env", "working_dir", "max_age"]), "numprocesses"]
        return {"op": "req", "cmd": "set", "props": {"name": name, "waiting": waiting,
                                                     "options": {k: rng.choice(pool[k]) for k in keys}}}
    elif cmd == "set_opt":
        import shlex
        key = rng.choice(["cmd", "env", "working_dir", "max_age", "graceful_timeout", "warmup_delay", "stop_children",
                          "send_hup", "max_retry"])
        val = {"cmd": "simworker " + shlex.quote(w), "env": {"A": str(rng.randint(1, 3))}, "working_dir": "/tmp",
               "max_age": 0, "graceful_timeout": rng.choice([0.1, 0.2, 0.3]), "warmup_delay": rng.choice([0, 0.1]),
               "stop_children": rng.random() < 0.5, "send_hup": False, "max_retry": rng.choice([1, 3, 5])}[key]
        return {"op": "req", "cmd": "set", "props": {"name": name, "waiting": waiting, "options": {key: val}}}
    elif cmd == "reload":
        props = {"name": name, "waiting": waiting, "graceful": rng.random() < 0.75,
                 "sequential": rng.random() < 0.4}
        if rng.random() < 0.15:
            props.pop("name")
    elif cmd in ("restart", "stop", "start"):
        props = {"name": name, "waiting": waiting}
        if rng.random() < p.get("patterns", 0.0):
            props["name"] = rng.choice(["w*", "w[12]", "w[23]", "*"])       # several watchers started / stopped together
        if rng.random() < 0.2:
            props.pop("name")
            props.pop("waiting")
    elif cmd == "kill":
        props = {"name": name, "waiting": waiting}
        if rng.random() < max(0.5, p.get("killover", 0.0)):
            props["graceful_timeout"] = rng.choice([0, 0, 0.1, 0.2, 0.4, 0.15, 0.35] if p.get("killover") else [0, 0.1, 0.2, 0.4])
        if rng.random() < 0.4:
            props["signum"] = rng.choice([SIGINT, "quit", "SIGUSR1", SIGTERM, 0])      # (0: the null signal is a signal)
        if rng.random() < 0.5:
            props["pidsel"] = rng.randint(0, 3)
    elif cmd == "signal":
        props = {"name": name, "signum": rng.choice([SIGHUP, SIGUSR1, "usr2", SIGTERM, SIGKILL, "int"])}
        if rng.random() < p.get("sigkill", 0.0):
            props["signum"] = rng.choice([SIGKILL, "kill", "SIGKILL", "9"])
        elif rng.random() < p.get("sigstop", 0.0):
            props["signum"] = rng.choice([int(_signal.SIGSTOP), "stop", "SIGTSTP", "tstp", "SIGSTOP", "cont"])   # job control
        elif rng.random() < p.get("sigsoft", 0.0):
            props["signum"] = rng.choice([0, int(_signal.SIGWINCH), "chld", "SIGURG"])   # nobody dies of these
        if rng.random() < 0.5:
            props["pidsel"] = rng.randint(0, 3)
        elif rng.random() < p.get("anypid", 0.0):
            props["pidany"] = rng.randint(0, 9)      # some other watcher's worker, a child, a dead or unrelated pid
        if rng.random() < 0.3:
            props["children"] = True
        if rng.random() < p.get("sigrec", 0.3):
            props["recursive"] = True
        if rng.random() < p.get("childsel", 0.0):
            props["childsel"] = rng.randint(0, 2)       # one child of the addressed worker (needs pid; without: refused)
        elif rng.random() < p.get("childany", 0.0):
            props["childany"] = rng.randint(0, 9)       # a "child" that is somebody else's: another worker, a stranger
    elif cmd == "add":
        # a new watcher (or, sometimes, a name that is taken: refused), started by the request itself or left stopped
        n = rng.choice(["n1", "n2", "n3", "N1"] if rng.random() < 0.85 else list(names))
        props = {"name": n, "cmd": "simworker " + n.lower(), "start": rng.random() < 0.7, "waiting": waiting,
                 "options": {"numprocesses": rng.choice([1, 2]), "graceful_timeout": rng.choice([0.1, 0.2]),
                             "warmup_delay": rng.choice([0, 0.1, 0.2])}}
    elif cmd == "rm":
        props = {"name": name, "waiting": waiting, "nostop": rng.random() < 0.3}
    elif cmd == "quit":
        props = {"waiting": waiting}
    elif cmd == "get":
        props = {"name": name, "keys": rng.sample(["numprocesses", "graceful_timeout", "cmd", "stop_signal", "warmup_delay",
                                                   "priority", "nosuchkey"], rng.choice([1, 2, 3]))}
    elif cmd == "globaloptions":
        props = rng.choice([{}, {"option": "check_delay"}, {"option": "endpoint"}, {"option": "nosuch"}])
    elif cmd == "listsockets":
        props = {}
    elif cmd in ("status", "list", "numprocesses", "stats", "options"):
        props = {"name": name} if (rng.random() < 0.6 or cmd == "options") else {}
    else:
        props = {"name": name}
    return {"op": "req", "cmd": cmd, "props": props}


def dumps(sc):
    return json.dumps(sc, sort_keys=True)

"""Checks of the properties decided on Core (the supervisor model): C01-C05, C09, C10, C13(b), C14, C15, C18(a),
C19, C08(sim), C06(daemon half, sim).

For property P:
  (A) TLC model-checks P's invariant (Monitors clauses of P, modulo recorded findings) on the Core
      configurations registered for P  -> design-level result, exhaustive in the stated bounds;
  (B,C) seeded scenarios of P's stimulus profiles are run against the REAL circus code on the sim binding;
  (D1) strict pass: TraceCore -- are the recorded behaviours behaviours of Core (conformance, reported);
  (D2) monitor pass: TraceMon -- every clause of P evaluated by TLC on every recorded step -> VERDICT.
"""
import os
import re

from harness import batch, checklib, tlcrun

CLAUSES = {
    "C01": ["C01_range", "C01_converge", "C01_fixpoint", "C01_fresh", "C01_period", "C01_set", "C01_young"],
    "C02": ["C02_complete", "C02_opdone", "C02_stays"],
    "C03": ["C03_first", "C03_notearly", "C03_notdead", "C03_prompt", "C03_kids", "C03_stopsig"],
    "C04": ["C04_list", "C04_count", "C04_owned", "C04_status", "C04_zombie"],
    "C05": ["C05_noblock", "C05_readnow", "C05_bound"],
    "C09": ["C09_spawn", "C09_reap", "C09_live", "C09_killev", "C09_startstop", "C09_status"],
    "C10": ["C10_wedge", "C10_refuse", "C10_accept", "C10_held"],
    "C13": ["C13_wid"],
    "C14": ["C14_startgate", "C14_siggate", "C14_events", "C14_killsent", "C14_own"],
    "C15": ["C15_dir", "C15_views", "C15_addrm", "C15_reach"],
    "C18": ["C18_confine", "C18_exact", "C18_killsig", "C18_stopsig"],
    "C19": ["C19_order", "C19_pace", "C19_auto"],
    "C08": ["C08_done"],
    "C11": ["C11_unchanged", "C10_refuse"],
}

BASE_CONST = {
    "MaxFrames": "16", "Dev_PruneWithoutReap": "FALSE", "Dev_AfterSpawnKillDetached": "TRUE",
    "Dev_BuiltinIgnoreList": "TRUE", "Dev_AddEmptyNameReturns": "FALSE", "MaxExt": "0", "MaxFork": "0", "MaxSig": "0", "MaxSock": "0", "MaxNow": "9",
    "MaxPid": "6", "Reduce": "TRUE", "ReqUntil": "4", "DieUntil": "5", "MaxReq": "1", "MaxDie": "1",
}
BASE_SUBST = {"DieStatuses": "st_one", "ObeyChoices": "both", "FaultSeqs": "nofault"}

# model-checking configurations: name -> (constants, substitutions); tiers pick from them
MC = {
    "c01": ({}, {"Configs": "c01_Configs", "Requests": "c01_Requests"}),
    "c01_deep": ({"MaxReq": "2", "MaxDie": "1", "ReqUntil": "3"}, {"Configs": "c01a_Configs",
                                                                    "Requests": "c01_Requests"}),
    "c02": ({"MaxDie": "1"}, {"Configs": "c02_Configs", "Requests": "c02_Requests"}),
    "c02_deep": ({"MaxReq": "2", "MaxDie": "2", "ReqUntil": "3"}, {"Configs": "c02a_Configs",
                                                                    "Requests": "c02_Requests"}),
}

MC.update({
    "c03": ({"MaxFork": "1", "MaxPid": "5", "MaxNow": "8"}, {"Configs": "c03_Configs", "Requests": "c03_Requests"}),
    "c04": ({"MaxPid": "7"}, {"Configs": "c04_Configs", "Requests": "c04_Requests", "FaultSeqs": "c04_Faults"}),
    "c05": ({"MaxReq": "2", "MaxDie": "1", "ReqUntil": "3", "MaxNow": "8"},
            {"Configs": "c05_Configs", "Requests": "c05_Requests"}),
    "c09": ({"MaxDie": "2", "MaxPid": "6"}, {"Configs": "c09_Configs", "Requests": "c09_Requests",
                                             "DieStatuses": "st_all"}),
    "c10": ({"MaxReq": "2", "MaxDie": "0", "ReqUntil": "3", "MaxNow": "8"},
            {"Configs": "c10_Configs", "Requests": "c10_Requests"}),
    "c14": ({"MaxDie": "0", "MaxNow": "8"}, {"Configs": "c14_Configs", "Requests": "c14_Requests"}),
    "c18": ({"MaxFork": "1", "MaxDie": "0", "MaxPid": "6", "MaxNow": "7"},
            {"Configs": "c18_Configs", "Requests": "c18_Requests"}),
    "c19": ({"MaxDie": "1", "MaxPid": "7", "MaxNow": "10", "DieUntil": "4"},
            {"Configs": "c19_Configs", "Requests": "c19_Requests"}),
    "c08": ({"MaxSig": "1", "MaxReq": "1", "MaxDie": "1", "MaxNow": "8"},
            {"Configs": "c08_Configs", "Requests": "c08_Requests"}),
})

MC.update({
    "c02q": ({}, {"Configs": "c02q_Configs", "Requests": "c02_Requests"}),
    "c03q": ({"MaxFork": "1", "MaxPid": "5", "MaxNow": "8"}, {"Configs": "c03q_Configs", "Requests": "c03_Requests"}),
    "c05q": ({"MaxReq": "2", "MaxDie": "1", "ReqUntil": "2", "DieUntil": "3", "MaxNow": "8"},
             {"Configs": "c05q_Configs", "Requests": "c05q_Requests"}),
    "c09q": ({"MaxDie": "1", "MaxPid": "6"}, {"Configs": "c09_Configs", "Requests": "c09_Requests",
                                              "DieStatuses": "st_all"}),
    "c09t": ({"MaxDie": "2", "MaxPid": "6", "DieUntil": "4"}, {"Configs": "c09_Configs", "Requests": "c09_Requests",
                                                               "DieStatuses": "st_three"}),
    "c19q": ({"MaxDie": "1", "MaxPid": "7", "MaxNow": "10", "DieUntil": "4"},
             {"Configs": "c19q_Configs", "Requests": "c19_Requests"}),
    "c08q": ({"MaxSig": "1", "MaxReq": "1", "MaxDie": "0", "MaxNow": "8"},
             {"Configs": "c08_Configs", "Requests": "c08_Requests"}),
})
del MC["c09"]
MC.update({
    "c15": ({"MaxReq": "2", "MaxDie": "0", "ReqUntil": "3", "MaxNow": "7", "MaxPid": "6"},
            {"Configs": "c15_Configs", "Requests": "c15_Requests"}),
    "c15t": ({"MaxReq": "3", "MaxDie": "0", "ReqUntil": "2", "MaxNow": "6", "MaxPid": "6"},
             {"Configs": "c15_Configs", "Requests": "c15_Requests"}),
    # random walks (tlc -simulate) through a model far too big to exhaust: 4 requests of any kind, 3 deaths with any
    # status, an external kill, a fork, a daemon signal, 2 s of model time; third element = extra TLC arguments
    "deep": ({"MaxReq": "4", "MaxDie": "3", "MaxExt": "1", "MaxFork": "1", "MaxSig": "1", "ReqUntil": "12", "DieUntil": "14",
              "MaxNow": "20", "MaxPid": "9", "MaxFrames": "24"},
             {"Configs": "deep_Configs", "Requests": "deep_Requests", "DieStatuses": "st_three"},
             ["-simulate", "num=%(num)d", "-depth", "400"]),
    # max_age: two expiries, one request, one death
    "c03age": ({"MaxReq": "1", "MaxDie": "1", "ReqUntil": "10", "DieUntil": "10", "MaxNow": "18", "MaxPid": "7"},
               {"Configs": "c03age_Configs", "Requests": "c03age_Requests"}),
    # on_demand: socket events (arrival, acceptance, arrival), one request, one death
    "c02od": ({"MaxSock": "3", "MaxReq": "1", "MaxDie": "1", "ReqUntil": "6", "DieUntil": "7", "MaxNow": "10", "MaxPid": "6"},
              {"Configs": "c02od_Configs", "Requests": "c02od_Requests"}),
    # reloadconfig: two reloads / one reload and one read-only request, a worker death anywhere
    "c12": ({"MaxReq": "2", "MaxDie": "1", "ReqUntil": "6", "MaxNow": "9", "MaxPid": "7"},
            {"Configs": "c12_Configs", "Requests": "c12_Requests"}),
    "c12q": ({"MaxReq": "1", "MaxDie": "1", "ReqUntil": "6", "MaxNow": "9", "MaxPid": "7"},
             {"Configs": "c12_Configs", "Requests": "c12_Requests"}),
})

PROPS = {
    "C01": {"mc_quick": ["c01"], "mc_thorough": ["c01", "c01_deep", "c12q", "deep"],
            "profiles": {"default": (100, 2000), "count": (100, 3000), "isolate": (40, 800)}, "conf": {"conf_full": (60, 800)}},
    "C02": {"mc_quick": ["c02q", "c02od"], "mc_thorough": ["c02", "c02od", "c02_deep", "deep"],
            "profiles": {"default": (80, 2000), "stop": (120, 3000), "ondemand": (50, 1200)}, "conf": {"conf_full": (40, 600), "conf_pat": (30, 400), "conf_od": (20, 300)}},
    "C03": {"mc_quick": ["c03q"], "mc_thorough": ["c03", "c03age", "deep"],
            "profiles": {"default": (60, 1500), "term": (140, 3500)}, "conf": {"conf_full": (40, 600), "conf_kids": (30, 400), "conf_age": (20, 300)}},
    "C04": {"mc_quick": ["c04"], "mc_thorough": ["c04", "c02", "deep"],
            "profiles": {"default": (80, 2000), "acct": (120, 3000)}, "conf": {"conf_full": (60, 800)}},
    "C05": {"mc_quick": ["c05q"], "mc_thorough": ["c05", "deep"],
            "profiles": {"default": (80, 2000), "overlap": (120, 3000), "ondemand": (40, 1000)}, "conf": {"conf_full": (60, 800)}},
    "C09": {"mc_quick": ["c09q"], "mc_thorough": ["c09q", "c09t", "deep"],
            "profiles": {"default": (80, 2000), "events": (120, 3000), "ondemand": (40, 1000)}, "conf": {"conf_full": (60, 800)}},
    "C10": {"mc_quick": ["c10"], "mc_thorough": ["c10", "c02od", "c05", "deep"],
            "profiles": {"default": (80, 2000), "excl": (120, 3000), "ondemand": (40, 1000), "reloadarb": (40, 1000)}, "conf": {"conf_full": (40, 600), "conf_sig": (30, 400)}},
    "C14": {"mc_quick": ["c14"], "mc_thorough": ["c14", "c04", "deep"],
            "profiles": {"hooks": (200, 5000), "hooksfile": (40, 1000)}, "conf": {"conf_full": (60, 800)}},
    "C11": {"mc_quick": ["c10", "c15"], "mc_thorough": ["c10", "c15t", "c05", "deep"],
            "profiles": {"refusal": (250, 6000)}, "conf": {"conf_dir": (40, 500)}},
    "C13": {"mc_quick": ["c01"], "mc_thorough": ["c01", "c01_deep", "deep"],
            "profiles": {"default": (80, 2000), "count": (120, 3000)}, "conf": {"conf_full": (60, 800)}},
    "C15": {"mc_quick": ["c15", "c12q"], "mc_thorough": ["c15", "c15t", "c12q", "c12", "deep"],
            "profiles": {"directory": (200, 5000)}, "conf": {"conf_dir": (80, 1000)}},
    "C08": {"mc_quick": ["c08q"], "mc_thorough": ["c08", "deep"],
            "profiles": {"shutdown": (200, 5000)}, "conf": {"conf_sig": (60, 800)}},
    "C18": {"mc_quick": ["c18"], "mc_thorough": ["c18", "c03", "deep"],
            "profiles": {"signals": (200, 5000)}, "conf": {"conf_full": (30, 500), "conf_kids": (40, 600)}},
    "C19": {"mc_quick": ["c19q"], "mc_thorough": ["c19", "deep"],
            "profiles": {"boot": (200, 5000)}, "conf": {"conf_full": (30, 400), "conf_pat": (40, 600)}},
}

def cfg_text(mcname, prop):
    from harness import devs
    consts = dict(BASE_CONST)
    consts.update(devs.devs())
    subst = dict(BASE_SUBST)
    c, s = MC[mcname][:2]
    consts.update(c)
    subst.update(s)
    lines = ["CONSTANTS"]
    for k, v in sorted(consts.items()):
        lines.append("  %s = %s" % (k, v))
    for k, v in sorted(subst.items()):
        lines.append("  %s <- %s" % (k, v))
    lines += ["INIT Init", "NEXT Next", "CONSTRAINT PidBound", "VIEW View", "CHECK_DEADLOCK FALSE",
              "ALIAS Alias", "INVARIANT Inv_%s" % prop]
    if prop == "C10":
        lines.append("INVARIANT Inv_C10_mutex")
    return "\n".join(lines) + "\n"


def model_check(prop, names, scratch, verdict, timeout):
    """Returns coverage dict.  A counterexample is a violation of P in the model of the code."""
    tot = {"states": 0, "transitions": 0, "configs": []}
    for name in names:
        cfg = os.path.join(scratch, "mc_%s_%s.cfg" % (name, prop))
        with open(cfg, "w") as fh:
            fh.write(cfg_text(name, prop))
        extra = list(MC[name][2]) if len(MC[name]) > 2 else []
        sim = bool(extra)
        if sim:      # random walks: as many as fit into a fixed share of the budget
            extra = [a % {"num": 10 ** 9} for a in extra]
        r = tlcrun.run_tlc("MC_core.tla", cfg, scratch, workers=16, timeout=(min(timeout, 120 if timeout <= 600 else 900)
                                                                              if sim else timeout),
                           heap="12g", extra_args=extra)
        st = tlcrun.parse_stats(r["out"])
        if sim:
            m = re.findall(r"Progress: (\d[\d,]*) states checked, (\d[\d,]*) traces generated", r["out"])
            if m:
                st["generated"] = int(m[-1][0].replace(",", ""))
                st["traces"] = int(m[-1][1].replace(",", ""))
        done = "Model checking completed. No error has been found." in r["out"] or (
            sim and r.get("timed_out") and "Error:" not in r["out"] and st["generated"] > 0)
        tot["states"] += st["distinct"]
        tot["transitions"] += st["generated"]
        tot["configs"].append({"name": name, "distinct": st["distinct"], "generated": st["generated"],
                               "depth": st["depth"], "complete": done and not sim, "wall_s": round(r["wall"], 1)})
        if sim:
            tot["configs"][-1].update({"mode": "simulate (random walks, depth <= 400)", "traces": st.get("traces", 0)})
        if "is violated" in r["out"]:
            m = re.search(r"Invariant (\w+) is violated", r["out"])
            verdict.violation("model counterexample: %s violated in Core configuration %s" % (
                m.group(1) if m else "?", name), {"kind": "tlc-counterexample", "config": name,
                                                 "cfg": cfg_text(name, prop), "tlc_output": r["out"][-20000:]})
        elif not done and r.get("timed_out") and st["distinct"] > 0 and "Error:" not in r["out"]:
            # the budget ran out (a loaded machine): the invariant held on every state reached so far; the
            # evidence records the configuration as incomplete
            tot["configs"][-1]["timed_out_after_s"] = timeout
            verdict.notes.append("MC configuration %s stopped after %d s with %d distinct states, no violation" % (
                name, timeout, st["distinct"]))
        elif not done:
            verdict.machinery.append("TLC did not complete on %s: %s" % (name, r["out"][-600:]))
    return tot


EXTRAS = {}     # property -> callable(verdict, tier, seed, scratch) -> coverage dict (oracle halves, see registry)


def run(prop, tier, seed):
    spec = PROPS[prop]
    t = checklib.Timer()
    verdict = checklib.Verdict(prop)
    quick = tier == "quick"
    cov = {}
    with tlcrun.Scratch() as scratch:
        mc = model_check(prop, spec["mc_quick" if quick else "mc_thorough"], scratch, verdict,
                         timeout=600 if quick else 3600)
        # ---- real code, monitor pass
        jobs = []
        for prof, (nq, nt) in sorted(spec["profiles"].items()):
            n = nq if quick else nt
            jobs += [(prof, seed * 1000003 + i) for i in range(n)]
        # ---- stimuli derived from behaviours of the specification itself (tlc -simulate on SimCore.tla)
        model_scs = []
        if spec.get("model_stim", True):
            try:
                from harness import modelstim
                mcname = spec["mc_quick"][0]
                recs, mr = modelstim.simulate(mcname, 12 if quick else 200, seed + 1, scratch,
                                              timeout=240 if quick else 1200)
                want = 60 if quick else 1500
                step = max(1, len(recs) // want)
                model_scs = [modelstim.to_scenario(r, i) for i, r in enumerate(recs[::step][:want])]
                if not recs:
                    verdict.machinery.append("tlc -simulate produced no behaviour: " + mr["out"][-500:])
            except Exception as e:
                verdict.machinery.append("model-derived stimuli failed: %r" % (e,))
        runs, st = batch.batch(jobs, scratch)
        # (model-derived scenarios: monitor pass and strict pass, a chunk at a time)
        mruns, mok_n, model_conf = [], 0, 0
        for a in range(0, len(model_scs), batch.CHUNK):
            part = batch.run_many(model_scs[a:a + batch.CHUNK])
            for i, r in enumerate(part):
                r["profile"] = "model:" + spec["mc_quick"][0]
                r["seed"] = a + i
            mok = [r for r in part if r.get("trace") is not None]
            if mok:
                mv, mst = tlcrun.monitor_traces([r["trace"] for r in mok], scratch)
                for r, v in zip(mok, mv):
                    r["verdict"] = v
                mres, mcst = tlcrun.conform_traces([r["trace"] for r in mok], scratch)
                st["lines"] += sum(len(r["trace"]) for r in mok)
                st["states"] += mst["states"]
                st["errors"] += mst["errors"]
                model_conf += sum(1 for c in mres if c is not None and c[0] >= c[1])
                mok_n += len(mok)
            mruns += [batch._slim(r) for r in part]
        runs = runs + mruns
        nviol = 0
        samples = []
        clauses = set(CLAUSES[prop])
        hits = {}
        for r in runs:
            if r.get("trace") is None:
                verdict.machinery.append("harness error on %s/%s: %s" % (r.get("profile"), r.get("seed"),
                                                                         r.get("error")))
                continue
            if r.get("verdict") is None:
                verdict.machinery.append("no TLC verdict for %s/%s" % (r["profile"], r["seed"]))
                continue
            for c, line, kf in r["verdict"]["bad"]:
                if c not in clauses:
                    continue
                hits[c] = hits.get(c, 0) + 1
                rep = {"kind": "sim-scenario", "profile": r["profile"], "seed": r["seed"], "clause": c,
                       "line": line, "scenario": r["scenario"],
                       "context": r.get("ctx", {}).get(line) or checklib.short_trace(r["trace"], line - 1)}
                what = "%s false at line %d of the trace of %s/%d" % (c, line, r["profile"], r["seed"])
                if kf:
                    verdict.attributed(kf, what, rep)
                else:
                    verdict.violation(what, rep)
                    nviol += 1
            if len(samples) < 2:
                samples.append({"profile": r["profile"], "seed": r["seed"],
                                "script": r["scenario"]["script"][:12],
                                "trace_head": checklib.short_trace(r["trace"][:25])})
        if st["errors"]:
            verdict.machinery.append("TraceMon: " + st["errors"][0][-800:])
        # ---- real code, strict pass (conformance to Core)
        cjobs = []
        for prof, (nq, nt) in sorted(spec["conf"].items()):
            n = nq if quick else nt
            cjobs += [(prof, seed * 1000003 + i) for i in range(n)]
        cpairs, cst = batch.conform(cjobs, scratch)
        ctr = [r for r, c in cpairs]
        cres = [c for r, c in cpairs]
        conf_ok = sum(1 for c in cres if c is not None and c[0] >= c[1])
        divergences = [{"profile": r["profile"], "seed": r["seed"], "matched": c[0], "of": c[1]}
                       for r, c in cpairs if c is not None and c[0] < c[1]]
        for d in divergences[:5]:
            print("DIVERGENCE (no property verdict): %s/%d matches Core up to line %d of %d" % (
                d["profile"], d["seed"], d["matched"], d["of"]))
        if any(c is None for c in cres):
            verdict.machinery.append("TraceCore gave no result for some traces: " +
                                     (cst["errors"][0][-600:] if cst["errors"] else ""))
        extra_cov = {}
        if prop in EXTRAS:
            try:
                extra_cov = EXTRAS[prop](verdict, tier, seed, scratch) or {}
            except Exception as e:       # never a verdict
                import traceback
                verdict.machinery.append("extra part of %s failed: %r %s" % (prop, e, traceback.format_exc()[-600:]))
        mc["states"] += int(extra_cov.get("states", 0))
        mc["transitions"] += int(extra_cov.get("transitions", 0))
        cov = {"states": mc["states"], "transitions": mc["transitions"], "mc_configs": mc["configs"],
               "second_module": extra_cov,
               "traces_validated_against_impl": len([r for r in runs if r.get("verdict")]) + len(ctr)
               + int(extra_cov.get("traces_validated_against_impl", 0)),
               "monitor_traces": len(runs), "monitor_lines": st["lines"], "monitor_states": st["states"],
               "conformance_traces": len(ctr), "conformance_full": conf_ok,
               "model_derived_scenarios": mok_n, "model_derived_conform_to_core": model_conf,
               "conformance_divergences": divergences[:20], "conformance_states": cst["states"],
               "clause_hits": hits, "samples": samples,
               "exhaustive": all(c["complete"] for c in mc["configs"]),
               "checker_cmd": "java -cp tla2tools.jar tlc2.TLC MC_core.tla / TraceMon.tla / TraceCore.tla"}
    ev = {"tier": tier, "seed": seed, "level": "model_checking", "coverage": cov, "wall_s": t.wall(),
          "assumptions": ["sim binding: the simulated kernel and the virtual-time loop are faithful to "
                          "Linux/psutil/asyncio (DESIGN.md 3.4, 10)",
                          "TLC and the CommunityModules Json module",
                          "model-checking bounds as listed under mc_configs"]}
    return verdict.finish(ev)

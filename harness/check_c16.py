"""C16 -- configuration files mean what the documentation says  (shape O, spec/ConfigEnv.tla).

TLC enumerates every abstract ini file of two families within the bounds of the tier
  E  env structure : watcher / [env] / [env:PATTERN] / socket / plugin sections in every order
  R  references    : one watcher option of each documented type holds $(circus.env.X) / ((circus.env.X))
checks the oracle's invariants on every one of them (Inv_Precedence, Inv_Expand, Inv_Confined) and writes
(abstract file, documented expectation, prediction for the code as it is, deviations the case depends on)
as JSON.  This harness renders the abstract files as concrete ini text (spellings drawn from
random.Random(seed)), runs the REAL circus.config.get_config and Watcher.load_from_config (as
Arbiter.load_from_config does) under a controlled os.environ, and compares:

  observed == documented expectation                      -> fine
  observed == prediction with the Dev_ branches           -> the deviations of the case are findings
                                                             (verdict.attributed, one id per Dev_ branch)
  anything else, a literal / default of the option table wrong, two parses unequal -> VIOLATION

What is sampled and not enumerated (said plainly): the lexical layer -- delimiters, blanks, comments, option
order inside a section, key case of references, bool / signal / hook-flag spellings, which literal options
decorate a watcher, the optional [circus] section and the include split.
"""
import copy
import json
import os
import random
import re
import sys
import time
import warnings
from concurrent.futures import ThreadPoolExecutor
from multiprocessing import get_context

from harness import checklib, tlcrun

REPO = os.environ.get("VERIF_REPO", "/repo")
MODULE = "ConfigEnv_MC.tla"
NSHARDS = 8              # TLC processes per family (set per tier in run(); VERIF_C16_SHARDS overrides)

# finding ids proposed for the Dev_ branches of ConfigEnv.tla
FINDING = {"nameleak": "CFG-NAME-LEAK", "dupmerge": "CFG-DUP-SECTION",
           "earlyexpand": "CFG-EARLY-EXPAND", "noexpand": "CFG-NO-EXPAND"}
DEV_CONST = {"nameleak": "Dev_NameLeak", "dupmerge": "Dev_DupMerge", "earlyexpand": "Dev_EarlyExpand",
             "noexpand": "Dev_NoExpand"}

BASE = {"GlobMatch": "mc_GlobMatch", "Spellings": "mc_Spellings", "LowerOf": "mc_LowerOf",
        "DaemonAtoms": "mc_DaemonAtoms", "ValStr": "mc_ValStr"}

# bounds per tier: family -> (substitutions, constants)
FAMILIES = {
    "quick": {
        "E": ({"WatcherSyms": "E_WatcherSyms", "EnvSyms": "E_EnvSyms", "NoiseSyms": "E_NoiseSyms"},
              {"MaxLen": 4, "MaxEnv": 3, "MaxNoise": 1, "MaxRefs": 0}),
        "R": ({"WatcherSyms": "R_WatcherSymsQ", "EnvSyms": "R_EnvSyms", "NoiseSyms": "R_NoiseSyms"},
              {"MaxLen": 3, "MaxEnv": 2, "MaxNoise": 0, "MaxRefs": 1}),
    },
    "thorough": {
        "E": ({"WatcherSyms": "E_WatcherSyms", "EnvSyms": "E_EnvSyms", "NoiseSyms": "E_NoiseSyms"},
              {"MaxLen": 5, "MaxEnv": 3, "MaxNoise": 0, "MaxRefs": 0}),
        "E1": ({"WatcherSyms": "E_WatcherSyms", "EnvSyms": "E_EnvSyms", "NoiseSyms": "E_NoiseSyms"},
               {"MaxLen": 4, "MaxEnv": 3, "MaxNoise": 1, "MaxRefs": 0}),
        "R": ({"WatcherSyms": "R_WatcherSyms", "EnvSyms": "R_EnvSyms", "NoiseSyms": "R_NoiseSyms"},
              {"MaxLen": 4, "MaxEnv": 2, "MaxNoise": 0, "MaxRefs": 1}),
    },
}
# rendered files per family (None = every case), spellings per sampled case
SAMPLES = {"quick": {"E": (4000, 1), "R": (4000, 1)},
           "thorough": {"E": (None, 1), "E1": (None, 2), "R": (None, 2)}}


def active_devs():
    """Dev_ constants: all TRUE (= the code as it is) unless VERIF_C16_FIXED names the repaired ones."""
    fixed = set(x for x in os.environ.get("VERIF_C16_FIXED", "nameleak").split(",") if x)   # nameleak: repaired by 720c179
    return {d: (d not in fixed) for d in DEV_CONST}


def cfg_text(family, tier):
    subst, consts = FAMILIES[tier][family]
    lines = ["CONSTANTS"]
    for k, v in sorted(dict(BASE, **subst).items()):
        lines.append("  %s <- %s" % (k, v))
    for k, v in sorted(consts.items()):
        lines.append("  %s = %d" % (k, v))
    lines.append("  AllowDup = %s" % ("FALSE" if os.environ.get("VERIF_C16_NODUP") else "TRUE"))
    for d, on in sorted(active_devs().items()):
        lines.append("  %s = %s" % (DEV_CONST[d], "TRUE" if on else "FALSE"))
    lines += ["INIT ShardInit", "NEXT ShardNext", "CHECK_DEADLOCK FALSE",
              "INVARIANT Inv_Precedence", "INVARIANT Inv_Expand", "INVARIANT Inv_Confined",
              "INVARIANT Collect", "POSTCONDITION Emit"]
    return "\n".join(lines) + "\n"


# -------------------------------------------------------------------------------------------------
# TLC: the state space of a family (= its abstract files) is explored by NSHARDS processes side by side,
# each checking the oracle's invariants on its part and writing its cases out
# -------------------------------------------------------------------------------------------------
def run_tlc_all(tier, scratch, verdict):
    fams = sorted(FAMILIES[tier])
    jobs = []
    for fam in fams:
        cfg = os.path.join(scratch, "c16_%s.cfg" % fam)
        with open(cfg, "w") as fh:
            fh.write(cfg_text(fam, tier))
        for k in range(NSHARDS):
            jobs.append((fam, k, cfg))
    timeout = 900 if tier == "quick" else 3000

    def one(job):
        fam, k, cfg = job
        out = os.path.join(scratch, "c16_%s_%02d.json" % (fam, k))
        r = tlcrun.run_tlc(MODULE, cfg, scratch, workers=1, timeout=timeout, heap="3g",
                           env={"OUT_FILE": out, "C16_SHARD": str(k), "C16_SHARDS": str(NSHARDS)},
                           java_props=("-Xss64m",), gc=tlcrun.SMALL_JVM)
        r["file"] = out
        return job, r

    with ThreadPoolExecutor(max_workers=16) as ex:
        results = list(ex.map(one, jobs))
    info = {}
    for (fam, k, cfg), r in results:
        fi = info.setdefault(fam, {"shards": {}, "wall": 0.0, "distinct": 0, "generated": 0, "depth": 0,
                                   "complete": True})
        st = tlcrun.parse_stats(r["out"])
        done = "Model checking completed. No error has been found." in r["out"]
        m = re.search(r'<<"C16_EMIT", (\d+), (\d+), (\d+), (\d+)>>', r["out"])
        if not done or not m or not os.path.exists(r["file"]):
            fi["complete"] = False
            iv = re.search(r"Invariant (\w+) is violated", r["out"])
            verdict.machinery.append("ConfigEnv family %s shard %d: %s" % (
                fam, k, ("the oracle contradicts itself: %s violated (a defect of the spec, not of circus)"
                         % iv.group(1)) if iv else "TLC did not complete: " + r["out"][-700:]))
            continue
        fi["distinct"] += st["distinct"]
        fi["generated"] += st["generated"]
        fi["depth"] = max(fi["depth"], st["depth"])
        fi["wall"] = max(fi["wall"], round(r["wall"], 1))
        fi["shards"][k] = {"file": r["file"], "files": int(m.group(3)), "cases": int(m.group(4))}
        if int(m.group(3)) != st["distinct"]:
            verdict.machinery.append("ConfigEnv family %s shard %d: %s files written, %d states" % (
                fam, k, m.group(3), st["distinct"]))
    for fam, fi in info.items():
        fi["cases"] = sum(s["cases"] for s in fi["shards"].values())
    return info


# -------------------------------------------------------------------------------------------------
# rendering an abstract file as ini text
# -------------------------------------------------------------------------------------------------
TRUE_SP = ["true", "True", "TRUE", "yes", "Yes", "on", "ON", "1"]
FALSE_SP = ["false", "False", "FALSE", "no", "No", "off", "OFF", "0"]
PREFIX_SP = ["circus.env.", "CIRCUS.ENV.", "Circus.Env.", "circus.ENV."]


def spell_bool(rng, canon):
    return rng.choice(TRUE_SP if canon == "true" else FALSE_SP)


def spell_case(rng, s):
    return rng.choice([s, s.upper(), s.lower(), s.capitalize()])


def kv(rng, k, v):
    if v == "":
        return rng.choice(["%s =", "%s = ", "%s:"]) % k
    return rng.choice(["%s = %s", "%s=%s", "%s: %s", "%s : %s", "%s =   %s  ", "%s\t=\t%s"]) % (k, v)


class Rendering(object):
    """ini text of one abstract case + everything needed to interpret the expectation."""

    def __init__(self, case, tables, rng):
        self.case = case
        self.headers = {}         # section index (1-based) -> header text
        self.reftext = {}         # section index -> text of the reference it holds
        self.written = {}         # watcher -> {option: typed expectation}  (literals of the option table)
        self.main = ""
        self.extra = None         # (file name, text) of the included file
        self._render(tables, rng)

    def _ref(self, rng, r, spellings):
        key = rng.choice(spellings[r["x"]])
        pre = rng.choice(PREFIX_SP)
        return ("$(%s%s)" if r["y"] == "dollar" else "((%s%s))") % (pre, key)

    def _render(self, tables, rng):
        f = self.case["f"]
        spellings = tables["spellings"]
        hdrstyle = {}
        blocks = []
        for i, s in enumerate(f, 1):
            lines = []
            if s["k"] == "watcher":
                hdr = "watcher:" + s["n"]
                opts = [("cmd", "sleep 60")]
                taken = {"cmd", "copy_env"}
                if s["c"]:
                    opts.append(("copy_env", spell_bool(rng, "true")))
                elif rng.random() < 0.4:
                    opts.append(("copy_env", spell_bool(rng, "false")))
                if s["r"]["o"]:
                    o = s["r"]["o"]
                    ref = self._ref(rng, s["r"], spellings)
                    self.reftext[i] = ref
                    pre, post = tables["template"].get(o, ("", ""))
                    if o == "cmd":
                        opts[0] = ("cmd", pre + ref + post)
                    else:
                        opts.append((o, pre + ref + post))
                    taken.add(o)
                    if o.startswith("stdout_stream."):
                        opts.append(("stdout_stream.class", "QueueStream"))
                        taken.update(["stdout_stream.class", "stdout_stream.x"])
                written = {}
                nlit = rng.choice([0, 1, 2, 3, 5])
                rows = rng.sample(tables["literals"], min(nlit, len(tables["literals"])))
                for row in rows:
                    o = row["o"]
                    if o in taken:
                        continue
                    if o == "copy_path" and row["raw"] == "true":
                        continue              # documented only together with copy_env; not asserted
                    if o.startswith("hooks.") and s["r"]["o"].startswith("hooks."):
                        continue
                    taken.add(o)
                    written[o] = row
                # consistency the documentation itself asks for
                if written.get("singleton", {}).get("raw") == "true":
                    np_ = written.get("numprocesses")
                    if (np_ and np_["raw"] not in ("0", "1")) or s["r"]["o"] == "numprocesses":
                        del written["singleton"]
                for stream in ("stdout_stream", "stderr_stream"):
                    has = [o for o in written if o.startswith(stream + ".")]
                    if has and (stream + ".class") not in written and (stream + ".class") not in taken:
                        row = [r for r in tables["literals"] if r["o"] == stream + ".class"][0]
                        written[stream + ".class"] = row
                for o, row in written.items():
                    opts.append((o, self._spell_literal(rng, o, row["raw"], tables)))
                self.written[s["n"]] = dict((o, row["val"]) for o, row in written.items())
                rng.shuffle(opts)
                lines = [kv(rng, k, v) for k, v in opts]
            elif s["k"] == "env":
                hdr = "env"
            elif s["k"] == "envpat":
                key = tuple(s["g"])
                if key not in hdrstyle:         # the same abstract header is the same text everywhere
                    hdrstyle[key] = rng.choice([",", ", ", " ,", " , "])
                hdr = "env:" + hdrstyle[key].join(s["g"])
            elif s["k"] == "socket":
                hdr = "socket:" + s["n"]
                ref = self._ref(rng, s["r"], spellings)
                self.reftext[i] = ref
                pre, post = tables["template"].get(s["r"]["o"], ("", ""))
                o2 = [("host", pre + ref + post), ("port", "8080")]
                rng.shuffle(o2)
                lines = [kv(rng, k, v) for k, v in o2]
            else:
                hdr = "plugin:" + s["n"]
                ref = self._ref(rng, s["r"], spellings)
                self.reftext[i] = ref
                pre, post = tables["template"].get(s["r"]["o"], ("", ""))
                o2 = [("use", "circus.plugins.statsd.StatsdEmitter"), ("param", pre + ref + post)]
                rng.shuffle(o2)
                lines = [kv(rng, k, v) for k, v in o2]
            if s["k"] in ("env", "envpat"):
                items = list(as_dict(s["a"]).items())
                rng.shuffle(items)
                lines = [kv(rng, k, v) for k, v in items]
            self.headers[i] = hdr
            out = []
            if rng.random() < 0.2:
                out.append(rng.choice(["# a comment", "; another = comment", ""]))
            out.append("[%s]" % hdr)
            for ln in lines:
                out.append(ln)
                if rng.random() < 0.08:
                    out.append(rng.choice(["", "# x = y"]))
            out.append("")
            blocks.append("\n".join(out))
        # include split: a suffix of the sections goes to an included file (same order of appearance);
        # only for files without repeated headers
        hdrs = [self.headers[i] for i in sorted(self.headers)]
        circus = None
        split = None
        if len(set(hdrs)) == len(hdrs) and len(blocks) >= 2 and rng.random() < 0.12:
            split = rng.randrange(1, len(blocks))
            circus = ["[circus]", kv(rng, "include", "part.ini"), ""]
        elif rng.random() < 0.4:
            circus = ["[circus]", kv(rng, "check_delay", rng.choice(["5", "1", "0.5"])), ""]
        main_blocks = blocks if split is None else blocks[:split]
        if circus is not None:
            main_blocks = list(main_blocks)
            main_blocks.insert(rng.randrange(0, len(main_blocks) + 1), "\n".join(circus))
        self.main = "\n".join(main_blocks) + "\n"
        if split is not None:
            self.extra = ("part.ini", "\n".join(blocks[split:]) + "\n")

    def _spell_literal(self, rng, o, raw, tables):
        ty = tables["types"].get(o, "str")
        if ty == "bool":
            return spell_bool(rng, raw)
        if ty == "sig":
            return spell_case(rng, raw)
        if ty == "hook" and "," in raw:
            name, flag = raw.split(",", 1)
            flag = spell_bool(rng, "true" if flag in ("true", "yes") else "false")
            return name + rng.choice([",", ", ", " , "]) + flag
        return raw

    def subst(self, x):
        """@hdrN / @ref tags of the expectation -> the rendered text."""
        if isinstance(x, str):
            if x.startswith("@hdr") and x[4:].isdigit():
                return self.headers[int(x[4:])]
            return x
        return x


def as_dict(x):
    return {} if x == [] else x


# -------------------------------------------------------------------------------------------------
# the real code
# -------------------------------------------------------------------------------------------------
_circus = {}


def real_modules():
    if not _circus:
        if sys.path[0] != REPO:
            sys.path.insert(0, REPO)
        warnings.simplefilter("ignore")
        import logging
        import circus
        from circus import config as cconfig
        from circus import watcher as cwatcher
        logging.getLogger("circus").setLevel(logging.CRITICAL)
        if not os.path.abspath(circus.__file__).startswith(os.path.abspath(REPO) + os.sep):
            raise RuntimeError("circus imported from %s, not from %s" % (circus.__file__, REPO))
        _circus["get_config"] = cconfig.get_config
        _circus["Watcher"] = cwatcher.Watcher
    return _circus


def load_once(path):
    """What circusd does with a configuration file: get_config, then one Watcher per entry exactly as
    Arbiter.load_from_config builds them (a watcher whose construction raises is dropped there)."""
    m = real_modules()
    cfg = m["get_config"](path)
    snap = copy.deepcopy(cfg)
    ws = {}
    for w in cfg.get("watchers", []):
        name = w.get("name")
        try:
            ws[name] = m["Watcher"].load_from_config(dict(w))
        except Exception as e:                     # noqa -- exactly what the arbiter catches
            ws[name] = e
    return snap, ws


def run_real(rend, den, workdir):
    """-> observed dict {load, error, cfg, watchers, cfg2, envs2}; os.environ controlled and restored."""
    path = os.path.join(workdir, "circus.ini")
    with open(path, "w") as fh:
        fh.write(rend.main)
    extra = os.path.join(workdir, "part.ini")
    if rend.extra:
        with open(extra, "w") as fh:
            fh.write(rend.extra[1])
    elif os.path.exists(extra):
        os.unlink(extra)
    saved = dict(os.environ)
    obs = {}
    try:
        os.environ.clear()
        os.environ.update(den)
        try:
            cfg, ws = load_once(path)
            obs = {"load": True, "cfg": cfg, "ws": ws}
        except Exception as e:                      # noqa
            obs = {"load": False, "error": "%s: %s" % (type(e).__name__, e)}
        try:
            cfg2, ws2 = load_once(path)
            obs["second"] = {"load": True, "cfg": cfg2, "ws": ws2}
        except Exception as e:                      # noqa
            obs["second"] = {"load": False, "error": "%s: %s" % (type(e).__name__, e)}
    finally:
        os.environ.clear()
        os.environ.update(saved)
    return obs


# -------------------------------------------------------------------------------------------------
# comparing
# -------------------------------------------------------------------------------------------------
def rlim_inf():
    import resource
    return resource.RLIM_INFINITY


def same_typed(exp, got):
    """exp: {t, v} of the spec; got: python value of the real code."""
    t, v = exp["t"], exp["v"]
    if t == "str":
        return isinstance(got, str) and got == v
    if t == "int":
        return isinstance(got, int) and not isinstance(got, bool) and got == v
    if t == "tenths":
        return isinstance(got, (int, float)) and not isinstance(got, bool) and abs(got - v / 10.0) < 1e-9
    if t == "bool":
        return isinstance(got, bool) and got == v
    if t == "none":
        return got is None
    if t == "inf":
        return got == rlim_inf()
    if t == "hook":
        return isinstance(got, (list, tuple)) and len(got) == 2 and got[0] == v[0] and \
            isinstance(got[1], bool) and got[1] == v[1]
    return False


MISSING = object()


def dict_value(w, o):
    """value of option o in a watcher dict of get_config (MISSING if the key is not there)."""
    if o.startswith("stdout_stream.") or o.startswith("stderr_stream."):
        a, b = o.split(".", 1)
        return w.get(a, {}).get(b, MISSING)
    if o.startswith("rlimit_"):
        return w.get("rlimits", {}).get(o[7:], MISSING)
    if o.startswith("hooks."):
        return w.get("hooks", {}).get(o[6:], MISSING)
    return w.get(o, MISSING)


def attr_value(W, o):
    """what the Watcher object holds for option o (MISSING when there is no such attribute)."""
    if o in ("stdout_stream.class", "stderr_stream.class", "working_dir"):
        return MISSING
    if o.startswith("stdout_stream."):
        return (W.stdout_stream_conf or {}).get(o.split(".", 1)[1], MISSING)
    if o.startswith("stderr_stream."):
        return (W.stderr_stream_conf or {}).get(o.split(".", 1)[1], MISSING)
    if o.startswith("rlimit_"):
        return (W.rlimits or {}).get(o[7:], MISSING)
    if o.startswith("hooks."):
        return MISSING              # the parsed [name, flag] pair is compared on get_config's dict
    if o == "foo":
        return W._options.get("foo", MISSING)
    return getattr(W, o, MISSING)


NO_DICT_COMPARE = ("max_age", "max_age_variance")      # freeform strings in get_config, typed by Watcher


def observed_result(rend, obs):
    """Project the real outcome onto the shape of ConfigEnv!Result (python values in place of typed records)."""
    case = rend.case
    if not obs["load"]:
        return {"load": False, "w": {}, "noise": {}}
    cfg = obs["cfg"]
    by_name = dict((w["name"], w) for w in cfg["watchers"])
    res = {"load": True, "w": {}, "noise": {}}
    for i, s in enumerate(case["f"], 1):
        if s["k"] == "watcher":
            n = s["n"]
            W = obs["ws"].get(n, MISSING)
            ok = W is not MISSING and not isinstance(W, Exception)
            wd = by_name.get(n)
            entry = {"ok": ok, "present": wd is not None}
            if ok:
                entry["env"] = dict(W.env) if W.env is not None else None
            elif wd is not None:
                entry["env"] = "unbuilt"
            if s["r"]["o"] and wd is not None:
                entry["ref"] = dict_value(wd, s["r"]["o"])
                entry["ref_attr"] = attr_value(W, s["r"]["o"]) if ok else MISSING
            res["w"][n] = entry
        elif s["k"] == "socket":
            sk = [x for x in cfg["sockets"] if x.get("name") == s["n"]]
            res["noise"][s["n"]] = sk[0].get(s["r"]["o"], MISSING) if sk else MISSING
        elif s["k"] == "plugin":
            pl = [x for x in cfg["plugins"] if x.get("name") == "plugin:" + s["n"]]
            res["noise"][s["n"]] = pl[0].get(s["r"]["o"], MISSING) if pl else MISSING
    return res


def expand_tags(rend, sec_index, text):
    return text.replace("@ref", rend.reftext.get(sec_index, "@ref"))


def matches(rend, exp, got):
    """Does the observed projection equal expectation exp (doc or code of the case)?  -> list of differences."""
    diffs = []
    if exp["load"] != got["load"]:
        return ["load: expected %s, observed %s" % (exp["load"], got["load"])]
    if not exp["load"]:
        return diffs
    widx = dict((s["n"], i) for i, s in enumerate(rend.case["f"], 1) if s["k"] == "watcher")
    nidx = dict((s["n"], i) for i, s in enumerate(rend.case["f"], 1) if s["k"] in ("socket", "plugin"))
    for n, e in as_dict(exp["w"]).items():
        g = got["w"].get(n)
        if g is None or not g["present"]:
            diffs.append("watcher %s missing from get_config" % n)
            continue
        if e["ok"] != g["ok"]:
            diffs.append("watcher %s: construction %s, expected %s" % (
                n, "succeeded" if g["ok"] else "failed", "success" if e["ok"] else "failure"))
        if e["ok"] and g["ok"]:
            want = dict((k, rend.subst(v)) for k, v in as_dict(e["env"]).items())
            if g["env"] != want:
                diffs.append("watcher %s env: expected %r, observed %r" % (n, want, g["env"]))
        if e["ref"]["t"] != "none":
            ev = copy.deepcopy(e["ref"])
            if ev["t"] == "hook":
                ev["v"] = [expand_tags(rend, widx[n], ev["v"][0]), ev["v"][1]]
            elif ev["t"] == "str":
                ev["v"] = expand_tags(rend, widx[n], ev["v"])
            if not same_typed(ev, g.get("ref", MISSING)):
                diffs.append("watcher %s option %s: expected %r, get_config gives %r" % (
                    n, rend.case["f"][widx[n] - 1]["r"]["o"], ev, g.get("ref", MISSING)))
            elif e["ok"] and g["ok"] and g.get("ref_attr", MISSING) is not MISSING \
                    and not same_typed(ev, g["ref_attr"]):
                diffs.append("watcher %s option %s: expected %r, the Watcher holds %r" % (
                    n, rend.case["f"][widx[n] - 1]["r"]["o"], ev, g["ref_attr"]))
    for n, e in as_dict(exp["noise"]).items():
        ev = {"t": "str", "v": expand_tags(rend, nidx[n], e["v"])}
        if not same_typed(ev, got["noise"].get(n, MISSING)):
            diffs.append("section %s: expected %r, observed %r" % (n, ev["v"], got["noise"].get(n, MISSING)))
    return diffs


def literal_diffs(rend, obs, tables):
    """Options written as literals of the option table, and documented defaults of the unwritten ones."""
    diffs = []
    if not obs["load"]:
        return diffs
    by_name = dict((w["name"], w) for w in obs["cfg"]["watchers"])
    for s in rend.case["f"]:
        if s["k"] != "watcher":
            continue
        n = s["n"]
        wd = by_name.get(n)
        W = obs["ws"].get(n)
        if wd is None:
            continue
        written = rend.written.get(n, {})
        for o, default in tables["defaults"].items():
            if o == "copy_env":
                exp = {"t": "bool", "v": bool(s["c"])}
            elif o == s["r"]["o"]:
                continue
            elif o == "cmd":
                exp = {"t": "str", "v": "sleep 60"}
            elif o in written:
                exp = written[o]
            else:
                exp = default
                if o.endswith(".class") and any(k.startswith(o.split(".")[0] + ".") for k in written):
                    continue
                if o == "stdout_stream.class" and s["r"]["o"].startswith("stdout_stream."):
                    continue
            if exp["t"] == "unasserted":
                continue
            dv = dict_value(wd, o)
            if dv is not MISSING and o not in NO_DICT_COMPARE and not same_typed(exp, dv):
                diffs.append("watcher %s option %s (%s): documented %r, get_config gives %r" % (
                    n, o, "written" if o in written or o == "copy_env" else "default", exp, dv))
            if W is not None and not isinstance(W, Exception):
                av = attr_value(W, o)
                if av is not MISSING and not same_typed(exp, av):
                    diffs.append("watcher %s option %s (%s): documented %r, the Watcher holds %r" % (
                        n, o, "written" if o in written or o == "copy_env" else "default", exp, av))
            elif isinstance(W, Exception) and not s["r"]["o"].startswith("hooks."):
                diffs.append("watcher %s could not be built: %r" % (n, W))
                break
    return diffs


def second_parse_diffs(obs):
    a, b = obs, obs.get("second", {})
    if a["load"] != b.get("load"):
        return ["first parse load=%s, second parse load=%s" % (a["load"], b.get("load"))]
    if not a["load"]:
        return []
    out = []
    if a["cfg"] != b["cfg"]:
        out.append("get_config returned unequal configurations on two parses of the same file")
    for n, W in a["ws"].items():
        W2 = b["ws"].get(n)
        e1 = None if isinstance(W, Exception) else W.env
        e2 = None if isinstance(W2, Exception) or W2 is None else W2.env
        if e1 != e2:
            out.append("watcher %s: environments of two parses differ: %r / %r" % (n, e1, e2))
    return out


def jsonable(x):
    if x is MISSING:
        return "<missing>"
    if isinstance(x, dict):
        return dict((str(k), jsonable(v)) for k, v in x.items())
    if isinstance(x, (list, tuple)):
        return [jsonable(v) for v in x]
    if isinstance(x, (str, int, float, bool)) or x is None:
        return x
    return repr(x)


def check_case(case, tables, rng, workdir, family, ident):
    """-> record {status: ok|dev|violation, devs, what, replay}"""
    rend = Rendering(case, tables, rng)
    den = as_dict(case["den"])
    obs = run_real(rend, den, workdir)
    got = observed_result(rend, obs)
    d_doc = matches(rend, case["doc"], got)
    lit = literal_diffs(rend, obs, tables)
    twice = second_parse_diffs(obs)
    rec = {"status": "ok", "ident": ident, "family": family}

    def replay(what, diffs):
        return {"kind": "c16-file", "family": family, "case": ident, "what": what, "differences": diffs,
                "ini": rend.main, "include": rend.extra, "daemon_env": den, "abstract_file": case["f"],
                "documented": case["doc"], "predicted_for_code": case["code"], "devs": case["devs"],
                "headers": rend.headers, "references": rend.reftext,
                "observed": jsonable(got), "error": obs.get("error"),
                "how": "write `ini` to a file (and `include` next to it), set os.environ to daemon_env, call "
                       "circus.config.get_config(path) and Watcher.load_from_config(dict(w)) for each watcher; "
                       "or harness.check_c16.replay(<this file>)"}
    if twice:
        rec.update(status="violation", what="parsing the same file twice: " + twice[0], replay=replay(
            "two parses differ", twice))
        return rec, rend
    if lit:
        rec.update(status="violation", what="option table: " + lit[0], replay=replay("option table", lit))
        return rec, rend
    if not d_doc:
        return rec, rend
    d_code = matches(rend, case["code"], got)
    if not d_code and case["devs"]:
        rec.update(status="dev", devs=list(case["devs"]),
                   what=d_doc[0] + ((" [get_config raised %s]" % obs["error"]) if obs.get("error") else ""),
                   replay=replay("the real result is the one predicted with %s; the documentation says "
                                 "otherwise" % "+".join(case["devs"]), d_doc))
        return rec, rend
    rec.update(status="violation",
               what="neither the documented result nor the known deviations: " + (d_code or d_doc)[0] +
                    ((" [load error: %s]" % obs["error"]) if obs.get("error") else ""),
               replay=replay("unexplained difference", {"vs_documented": d_doc, "vs_code_model": d_code}))
    return rec, rend


# -------------------------------------------------------------------------------------------------
# pool workers: one task = (family, shard file, indices, seed, spellings)
# -------------------------------------------------------------------------------------------------
def load_tables(fam_shards):
    """literals / defaults / template come from shard 0 of a family (the spec writes them there)."""
    with open(fam_shards[0]["file"]) as fh:
        d = json.load(fh)
    template = dict((o, tuple(v)) for o, v in d["template"].items())
    return {"literals": list(d["literals"]), "types": d["types"],
            "defaults": dict((r["o"], r["val"]) for r in d["defaults"]),
            "template": template, "spellings": d["meta"]["spellings"]}


def work(task):
    family, path, idxs, seed, nspell, tables, want_samples = task
    t0 = time.time()
    with open(path) as fh:
        cases = json.load(fh)["cases"]
    if idxs is None:
        idxs = range(len(cases))
    out = {"family": family, "n": 0, "ok": 0, "dev": {}, "problems": [], "samples": [], "errors": [],
           "dev_examples": {}}
    with tlcrun.Scratch() as wd:
        for j in idxs:
            case = cases[j]
            for sp in range(nspell):
                ident = "%s/%s/%d/%d" % (family, os.path.basename(path), j, sp)
                rng = random.Random("%d:%s" % (seed, ident))
                try:
                    rec, rend = check_case(case, tables, rng, wd, family, ident)
                except Exception:                  # noqa -- machinery, never a verdict
                    import traceback
                    out["errors"].append("%s: %s" % (ident, traceback.format_exc()[-1500:]))
                    continue
                out["n"] += 1
                if rec["status"] == "ok":
                    out["ok"] += 1
                elif rec["status"] == "dev":
                    for d in rec["devs"]:
                        out["dev"][d] = out["dev"].get(d, 0) + 1
                        exs = out["dev_examples"].setdefault(d, [])
                        if len(exs) < 2:
                            exs.append(rec)
                        elif len(rec["devs"]) < max(len(x["devs"]) for x in exs):
                            # prefer the examples that depend on the fewest other deviations
                            exs.sort(key=lambda x: len(x["devs"]))
                            exs[-1] = rec
                else:
                    if len(out["problems"]) < 10:
                        out["problems"].append(rec)
                    else:
                        out["problems"].append({"status": "violation", "what": rec["what"], "ident": ident})
                if want_samples and len(out["samples"]) < 1:
                    out["samples"].append({"family": family, "abstract_file": case["f"], "ini": rend.main,
                                           "daemon_env": case["den"], "documented": case["doc"],
                                           "predicted_for_code": case["code"], "devs": case["devs"],
                                           "status": rec["status"]})
    out["wall"] = time.time() - t0
    return out


def plan_tasks(info, tier, seed, tables_by_fam):
    tasks = []
    for fam in sorted(info):
        n, nspell = SAMPLES[tier][fam]
        shards = info[fam]["shards"]
        if n is None:
            for k in sorted(shards):
                tasks.append((fam, shards[k]["file"], None, seed, nspell, tables_by_fam[fam], k == 0))
            continue
        rng = random.Random("%d:plan:%s" % (seed, fam))
        allidx = [(k, j) for k in sorted(shards) for j in range(shards[k]["cases"])]
        pick = rng.sample(allidx, min(n, len(allidx)))
        by = {}
        for k, j in pick:
            by.setdefault(k, []).append(j)
        for k in sorted(by):
            tasks.append((fam, shards[k]["file"], sorted(by[k]), seed, nspell, tables_by_fam[fam], k == min(by)))
    return tasks


def run(prop, tier, seed):
    global NSHARDS
    NSHARDS = int(os.environ.get("VERIF_C16_SHARDS", "8" if tier == "quick" else "16"))
    t = checklib.Timer()
    verdict = checklib.Verdict(prop)
    cov = {"states": 0, "transitions": 0, "traces_validated_against_impl": 0, "samples": []}
    with tlcrun.Scratch() as scratch:
        t1 = time.time()
        info = run_tlc_all(tier, scratch, verdict)
        tlc_wall = round(time.time() - t1, 1)
        usable = dict((f, fi) for f, fi in info.items() if len(fi["shards"]) == NSHARDS)
        tables_by_fam = {}
        for fam, fi in usable.items():
            try:
                tables_by_fam[fam] = load_tables(fi["shards"])
            except Exception as e:                   # noqa
                verdict.machinery.append("cannot read the cases of family %s: %r" % (fam, e))
        usable = dict((f, fi) for f, fi in usable.items() if f in tables_by_fam)
        t2 = time.time()
        results = []
        if usable and not verdict.machinery:
            tasks = plan_tasks(usable, tier, seed, tables_by_fam)
            ctx = get_context("fork")
            with ctx.Pool(16) as pool:
                results = pool.map(work, tasks, chunksize=1)
        impl_wall = round(time.time() - t2, 1)
        rendered = sum(r["n"] for r in results)
        devcount = {}
        nviol = 0
        dev_calls = {}
        for r in results:
            for e in r["errors"][:3]:
                verdict.machinery.append("harness exception on " + e)
            for d, c in r["dev"].items():
                devcount[d] = devcount.get(d, 0) + c
            for d, exs in r["dev_examples"].items():
                fid = FINDING[d]
                listed = fid in verdict.known and prop in verdict.known[fid].get("properties", [])
                for rec in exs:
                    # an unlisted signature is a VIOLATION: a few replays per finding are enough
                    if listed or dev_calls.get(d, 0) < 3:
                        dev_calls[d] = dev_calls.get(d, 0) + 1
                        verdict.attributed(fid, "%s: %s" % (rec["ident"], rec["what"]), rec["replay"])
            for p in r["problems"]:
                nviol += 1
                if "replay" in p and len(verdict.violations) < 25:
                    verdict.violation("%s: %s" % (p["ident"], p["what"]), p["replay"])
            cov["samples"] += r["samples"]
        # occurrences of listed findings beyond the examples passed through attributed()
        for d, c in devcount.items():
            fid = FINDING[d]
            if fid in verdict.known_hits:
                verdict.known_hits[fid] = c
        if nviol and not verdict.violations:
            verdict.machinery.append("violations counted but none recorded")
        cov["samples"] = cov["samples"][:4]
        if not cov["samples"]:
            cov["samples"] = [{"note": "no case was run (machinery failure)"}]
        cov.update({
            "states": sum(fi.get("distinct", 0) for fi in info.values()),
            "transitions": sum(fi.get("generated", 0) for fi in info.values()),
            "traces_validated_against_impl": rendered,
            "cases": sum(fi.get("cases", 0) for fi in info.values()),
            "concretizations": rendered,
            "families": dict((f, {"bounds": FAMILIES[tier][f][1], "files": fi.get("distinct"),
                                  "cases_emitted": fi.get("cases"), "complete": fi.get("complete"),
                                  "tlc_wall_s": fi.get("wall"), "shards": NSHARDS,
                                  "rendered": sum(r["n"] for r in results if r["family"] == f)})
                             for f, fi in info.items()),
            "exhaustive": bool(info) and all(fi.get("complete") for fi in info.values()),
            "every_case_rendered": all(SAMPLES[tier][f][0] is None for f in info),
            "agree_with_documentation": sum(r["ok"] for r in results),
            "explained_by_dev_branch": devcount,
            "unexplained": nviol,
            "dev_constants": dict((DEV_CONST[d], v) for d, v in active_devs().items()),
            "tlc_wall_s": tlc_wall, "impl_wall_s": impl_wall, "repo": REPO,
            "checker_cmd": "java -cp tla2tools.jar:CommunityModules-deps.jar tlc2.TLC -config <family>.cfg "
                           "ConfigEnv_MC.tla  (%d processes per family, each exploring its part of the files)" % NSHARDS,
        })
    ev = {"tier": tier, "seed": seed, "level": "model_checking", "coverage": cov, "wall_s": t.wall(),
          "assumptions": [
              "TLC, the CommunityModules Json/IOUtils/SequencesExt modules",
              "the option table, the signal numbers (Linux) and the literals of ConfigEnv.tla are a faithful "
              "transcription of docs/source/for-ops/configuration.rst",
              "the lexical layer (ini syntax, spellings, numerals) is sampled by the concretizer, not enumerated",
              "bounds: see coverage.families"]}
    return verdict.finish(ev)


def replay(path):
    """Re-run the ini text of one recorded case on the real code and print what it gives."""
    rep = json.load(open(path))
    with tlcrun.Scratch() as wd:
        class R(object):
            main = rep["ini"]
            extra = tuple(rep["include"]) if rep.get("include") else None
        obs = run_real(R, rep["daemon_env"], wd)
    if not obs["load"]:
        print("get_config raised: %s" % obs["error"])
    else:
        for w in obs["cfg"]["watchers"]:
            W = obs["ws"][w["name"]]
            print("watcher %s: env=%r" % (w["name"], W if isinstance(W, Exception) else W.env))
            print("   options: %s" % json.dumps(jsonable(w), sort_keys=True))
    print("documented: %s" % json.dumps(rep["documented"], sort_keys=True))
    print("recorded differences: %s" % json.dumps(rep["differences"]))
    return 1

"""C08, last sentence: the pid file -- spec/Pidfile.tla bound to circus/pidfile.py and to circusd.main().

  "At startup it refuses to run when the pid file names another live process, and takes over a stale, empty
   or garbled one."   (+ first sentence: the daemon "removes ... the pid file it created")

Shape (O).  TLC enumerates content class x operation sequence (create/unlink, up to MaxOps) and writes, for each
step, what the statement demands (`dem`), what the code is modelled to do (`cod`, Dev_ branches TRUE) and the
deciding Dev_ branch (`dev`).  This harness makes the classes real -- a sleeping child (live), a reaped child
(dead), a root-owned process seen from an unprivileged child (EPERM), numbers above pid_max and above 2^31 --
in several seeded spellings, runs the steps on a real circus.pidfile.Pidfile and compares after every step:

  real satisfies dem                        -> fine (real != cod is reported as DIVERGENCE, exit 0)
  real violates dem, dev = HugeOverflow,
       real == cod exactly                  -> verdict.attributed(FINDING_HUGE, ...)
  anything else                             -> verdict.violation(...)

and (live part) starts the real `python -m circus.circusd --pidfile F` on files of the classes: it must exit
non-zero without running for a live foreign pid, otherwise come up with F naming the daemon, and after an accepted
`quit` exit 0 with F gone.

`run_pidfile(verdict, tier, seed, scratch)` is the helper for the C08 check; `run(prop, tier, seed)` is a
stand-alone check writing evidence under the id it is given (C08).
"""
import errno
import json
import os
import random
import subprocess
import sys
import time
from concurrent.futures import ThreadPoolExecutor

ROOT = os.path.dirname(os.path.dirname(os.path.abspath(__file__)))
if ROOT not in sys.path:
    sys.path.insert(0, ROOT)

from harness import checklib, tlcrun  # noqa: E402

REPO = os.environ.get("VERIF_REPO", "/repo")
PYTHON = "/venv/bin/python" if os.path.exists("/venv/bin/python") else sys.executable

FINDING_HUGE = "D15"        # proposed id: Pidfile.validate lets OverflowError escape (number >= 2^31 in the file)
MAX_REPORTS = 40
NOBODY = 65534


def _pid_max():
    try:
        with open("/proc/sys/kernel/pid_max") as fh:
            return int(fh.read())
    except (OSError, ValueError):
        return 4194304


# ------------------------------------------------------------------------------------------------
# TLC
# ------------------------------------------------------------------------------------------------
# the code as it is: (Dev_HugeOverflow, Dev_EpermOSError); flip to "FALSE" when the code is repaired
AS_CODED = ("FALSE", "TRUE")      # Dev_HugeOverflow repaired by 420ac1b

CFG = """CONSTANTS
  MaxOps = %d
  Dev_HugeOverflow = %s
  Dev_EpermOSError = %s
INIT Init
NEXT Next
CHECK_DEADLOCK FALSE
INVARIANT Inv_RefuseIffLive
INVARIANT Inv_DevsExplain
INVARIANT Inv_EpermHarmless
INVARIANT Inv_Fixed
INVARIANT Inv_CreateUnlink
"""


def enumerate_cases(scratch, verdict, maxops):
    """spec/Pidfile.cfg and Pidfile_fixed.cfg with MaxOps chosen by the tier."""
    out = os.path.join(scratch, "pidfile_cases.json")
    stats = {"states": 0, "transitions": 0, "tlc": [], "maxops": maxops}
    cfgs = []
    for name, devs in (("Pidfile.cfg", AS_CODED), ("Pidfile_fixed.cfg", ("FALSE", "FALSE"))):
        path = os.path.join(scratch, name)
        with open(path, "w") as fh:
            fh.write(CFG % ((maxops,) + tuple(devs)))
        cfgs.append(path)
    runs = ((cfgs[0], {"OUT_FILE": out}), (cfgs[1], {}))

    def one(ce):
        try:
            return tlcrun.run_tlc("Pidfile.tla", ce[0], scratch, workers=4, env=ce[1], timeout=300, heap="2g",
                                  gc=tlcrun.SMALL_JVM)
        except Exception as e:
            return {"rc": -1, "out": "exception: %r" % (e,), "wall": 0.0}
    with ThreadPoolExecutor(max_workers=2) as ex:
        results = list(ex.map(one, runs))
    failed = False
    for (cfg, _), r in zip(runs, results):
        st = tlcrun.parse_stats(r["out"])
        ok = "Model checking completed. No error has been found." in r["out"]
        stats["states"] += st["distinct"]
        stats["transitions"] += st["generated"]
        stats["tlc"].append({"cfg": os.path.basename(cfg), "distinct": st["distinct"], "generated": st["generated"],
                             "complete": ok, "wall_s": round(r["wall"], 1)})
        if not ok:
            failed = True
            verdict.machinery.append("TLC did not complete on Pidfile.tla/%s: %s" % (cfg, r["out"][-1500:]))
    if failed:
        return None, stats
    try:
        with open(out) as fh:
            data = json.load(fh)
    except (OSError, ValueError) as e:
        verdict.machinery.append("Pidfile.tla wrote no readable case file: %r" % (e,))
        return None, stats
    if len(data["cases"]) != stats["tlc"][0]["distinct"]:
        verdict.machinery.append("Pidfile.tla: %d cases written, %d states" % (len(data["cases"]),
                                                                             stats["tlc"][0]["distinct"]))
    return data, stats


# ------------------------------------------------------------------------------------------------
# making the classes real
# ------------------------------------------------------------------------------------------------
class World(object):
    """The processes the content classes talk about."""

    def __init__(self):
        self.sleeper = subprocess.Popen(["sleep", "3600"], stdin=subprocess.DEVNULL, stdout=subprocess.DEVNULL,
                                        stderr=subprocess.DEVNULL, close_fds=True)
        self.live = self.sleeper.pid
        self.dead = None
        self.pid_max = _pid_max()
        self.fresh_dead()

    def fresh_dead(self):
        for _ in range(50):
            p = subprocess.Popen(["true"], stdin=subprocess.DEVNULL, stdout=subprocess.DEVNULL,
                                 stderr=subprocess.DEVNULL, close_fds=True)
            p.wait()
            if not _exists(p.pid):
                self.dead = p.pid
                return
        raise RuntimeError("cannot obtain a dead pid")

    def check(self):
        """Preconditions of the classes (pids can be recycled under our feet)."""
        if self.sleeper.poll() is not None:
            raise RuntimeError("the sleeping child died")
        if _exists(self.dead):
            self.fresh_dead()

    def close(self):
        try:
            self.sleeper.kill()
            self.sleeper.wait()
        except OSError:
            pass


def _exists(pid):
    try:
        os.kill(pid, 0)
        return True
    except OSError as e:
        return e.errno != errno.ESRCH


PAD = ["  %s  ", " %s \n", "\n%s\n\n", "\t%s", "%s\r\n", "0%s", "+%s", "%s \n", "000%s\n"]
GARBAGE = ["abc", "12ab", "1 2", "12.0", "0x10", "--5", "\x00", "pid", "1e3", "9,9", "seven\n", "12-", "- 12", "1."]


def content(cls, w, own, rng, live=None):
    """One concrete file content (None = no file) for the class."""
    live = w.live if live is None else live
    if cls == "absent":
        return None
    if cls == "empty":
        return ""
    if cls == "whitespace":
        return rng.choice([" ", "\n", " \n\t ", "\r\n", "\n\n\n", "\t"])
    if cls == "garbage":
        return rng.choice(GARBAGE)
    if cls == "garbage_livepid":
        return rng.choice(["%d x", "pid=%d", "%d\n%d", "%d.0", "%d;", "[%d]", "%d\n#"]).replace("%d", str(live))
    if cls in ("own", "live", "dead", "live_eperm"):
        n = {"own": own, "live": live, "dead": w.dead, "live_eperm": live}[cls]
        return "%d" % n if cls != "live_eperm" else rng.choice(["%d", "%d\n", " %d "]) % n
    if cls in ("own_nl", "live_nl", "dead_nl"):
        return "%d\n" % {"own_nl": own, "live_nl": live, "dead_nl": w.dead}[cls]
    if cls in ("own_padded", "live_padded", "dead_padded"):
        return rng.choice(PAD) % {"own_padded": own, "live_padded": live, "dead_padded": w.dead}[cls]
    if cls == "zero":
        return rng.choice(["0", "0\n", "00", "-0", " 0 "])
    if cls == "negative":
        return rng.choice(["-1", "-5\n", "-%d" % live, " -%d\n" % own, "-2147483648"])
    if cls == "big":
        lo = w.pid_max + 1
        return str(rng.choice([lo, lo + rng.randrange(1, 10 ** 6), 2 ** 31 - 1, 2 ** 30])) + rng.choice(["", "\n"])
    if cls == "huge":
        return str(rng.choice([2 ** 31, 2 ** 31 + rng.randrange(1, 10 ** 6), 2 ** 32 + 5, 2 ** 63, 2 ** 64 + 1,
                               10 ** 30])) + rng.choice(["", "\n"])
    raise KeyError(cls)


def names(text):
    """The pid a content names, None when it names none."""
    if text is None:
        return None
    try:
        return int(text)
    except ValueError:
        return None


def read(path):
    try:
        with open(path, "r", newline="") as fh:
            return fh.read()
    except FileNotFoundError:
        return None
    except UnicodeDecodeError:
        with open(path, "rb") as fh:
            return repr(fh.read())


def write(path, text):
    if os.path.exists(path):
        os.unlink(path)
    if text is not None:
        with open(path, "w", newline="") as fh:
            fh.write(text)


# ------------------------------------------------------------------------------------------------
# running a case on the real Pidfile
# ------------------------------------------------------------------------------------------------
def run_steps(Pidfile, path, initial, steps, own):
    """-> list of observations {res, after}, one per step, stopping where the real state leaves the model."""
    write(path, initial)
    pf = Pidfile(path)            # circusd.main(): one object, create() at start-up, unlink() on the way out
    obs = []
    cur = initial
    for st in steps:
        try:
            if st["op"] == "create":
                pf.create(own)
            else:
                pf.unlink()
            res = "ok"
        except Exception as e:
            res = type(e).__name__
        after = read(path)
        cf = st["cod"]["file"]
        modelled_after = None if cf == "absent" else ("%d\n" % own if cf == "ours" else cur)
        obs.append({"op": st["op"], "before": cur, "res": res, "after": after, "modelled_res": st["cod"]["res"],
                    "modelled_after": modelled_after})
        if res != st["cod"]["res"] or after != modelled_after:
            break                   # the demands of later steps are stated for the modelled state only
        cur = after
    return obs


def sat(o, dem, own):
    if dem["res"] == "ok" and o["res"] != "ok":
        return False
    if dem["res"] == "refuse" and o["res"] == "ok":
        return False
    if dem["file"] == "own" and names(o["after"]) != own:
        return False
    if dem["file"] == "absent" and o["after"] is not None:
        return False
    return True


def show_dem(dem):
    r = {"ok": "success", "refuse": "a refusal", "any": "anything"}[dem["res"]]
    f = {"own": ", the file naming exactly our pid afterwards", "absent": ", the file gone afterwards",
         "any": ""}[dem["file"]]
    return r + f


def judge_case(verdict, case, initial, obs, own, seed, counters, divs, where):
    for st, o in zip(case["steps"], obs):
        ok = sat(o, st["dem"], own)
        coded = o["res"] == o["modelled_res"] and o["after"] == o["modelled_after"]
        if ok and coded:
            continue
        rep = {"kind": "pidfile-case", "class": case["cls"], "initial_content": initial,
               "ops": [s["op"] for s in case["steps"]], "observed": obs, "steps": case["steps"], "own_pid": own,
               "seed": seed, "repo": REPO, "where": where}
        if ok:
            counters["divergences"] += 1
            if len(divs) < 10:
                divs.append({"class": case["cls"], "content": initial, "step": o})
            return
        what = "%s on a pid file of class %s (content %r before the step): %s, file afterwards %r; the statement " \
               "demands %s" % (st["op"], case["cls"], o["before"], "ok" if o["res"] == "ok" else
                               "raised " + o["res"], o["after"], show_dem(st["dem"]))
        if st["dev"] == "HugeOverflow" and coded:
            counters["huge"] += 1
            if counters["huge"] == 1:
                verdict.attributed(FINDING_HUGE, what + " [Dev_HugeOverflow]", rep)
        else:
            counters["violations"] += 1
            if counters["violations"] <= MAX_REPORTS:
                verdict.violation(what, rep)
        return


def _import_pidfile():
    if REPO not in sys.path:
        sys.path.insert(0, REPO)
    from circus.pidfile import Pidfile
    import circus.pidfile
    return Pidfile, circus.pidfile.__file__


def eperm_worker(cases, scratch, seed, nvar):
    """EPERM needs a live process we may not signal: fork, drop to `nobody`, and look at our root-owned parent.
    Returns (list of (case, initial, obs, own) or None when the class cannot be realized here, reason)."""
    if os.geteuid() != 0:
        # unprivileged already: pid 1 is root's
        try:
            os.kill(1, 0)
            return None, "pid 1 can be signalled by this user; no EPERM process at hand"
        except PermissionError:
            target, drop = 1, False
        except OSError as e:
            return None, "kill(1, 0): %r" % (e,)
    else:
        target, drop = os.getpid(), True
    d = os.path.join(scratch, "eperm")
    os.makedirs(d, exist_ok=True)
    os.chmod(d, 0o777)
    os.chmod(scratch, os.stat(scratch).st_mode | 0o011)
    rfd, wfd = os.pipe()
    pid = os.fork()
    if pid == 0:
        code = 0
        try:
            os.close(rfd)
            if drop:
                os.setgroups([])
                os.setgid(NOBODY)
                os.setuid(NOBODY)
            try:
                os.kill(target, 0)
                out = {"skip": "kill(%d, 0) is permitted after dropping privileges" % target}
            except PermissionError:
                Pidfile, _ = _import_pidfile()
                own = os.getpid()
                rng = random.Random(seed * 31 + 7)
                w = type("W", (), {"live": target, "dead": 0, "pid_max": _pid_max()})()
                res = []
                for i, case in enumerate(cases):
                    for k in range(nvar):
                        initial = content(case["cls"], w, own, rng)
                        path = os.path.join(d, "e%d_%d.pid" % (i, k))
                        obs = run_steps(Pidfile, path, initial, case["steps"], own)
                        res.append([i, initial, obs, own])
                out = {"results": res}
            os.write(wfd, json.dumps(out).encode())
        except BaseException as e:       # noqa
            try:
                os.write(wfd, json.dumps({"skip": "worker failed: %r" % (e,), "machinery": True}).encode())
            except OSError:
                pass
            code = 1
        os._exit(code)
    os.close(wfd)
    buf = b""
    while True:
        chunk = os.read(rfd, 1 << 16)
        if not chunk:
            break
        buf += chunk
    os.close(rfd)
    os.waitpid(pid, 0)
    try:
        out = json.loads(buf.decode())
    except ValueError:
        return None, "MACHINERY: unprivileged worker returned nothing readable"
    if "results" not in out:
        return None, ("MACHINERY: " if out.get("machinery") else "") + out.get("skip", "?")
    return [(cases[i], initial, obs, own) for i, initial, obs, own in out["results"]], ""


# ------------------------------------------------------------------------------------------------
# live part: the real circusd
# ------------------------------------------------------------------------------------------------
def circusd_once(d, cls, initial, timeout=25.0):
    """Start `python -m circus.circusd --pidfile F cfg.ini` on a pid file with the given content.
    -> dict(phase reached, exit status, file contents at the checkpoints, output tail)"""
    os.makedirs(d, exist_ok=True)
    pidf = os.path.join(d, "circusd.pid")
    ini = os.path.join(d, "c.ini")
    with open(ini, "w") as fh:
        fh.write("[circus]\nendpoint = ipc://%s/ctl.sock\npubsub_endpoint = ipc://%s/pub.sock\n"
                 "check_delay = 1\nstatsd = False\nhttpd = False\n" % (d, d))
    write(pidf, initial)
    env = dict(os.environ)
    env["PYTHONPATH"] = REPO
    env["PYTHONDONTWRITEBYTECODE"] = "1"
    logf = open(os.path.join(d, "out.log"), "wb")
    p = subprocess.Popen([PYTHON, "-B", "-m", "circus.circusd", "--pidfile", pidf, "--log-level", "error", ini],
                         cwd=d, env=env, stdin=subprocess.DEVNULL, stdout=logf, stderr=subprocess.STDOUT,
                         close_fds=True)
    r = {"class": cls, "initial_content": initial, "daemon_pid": p.pid, "phase": "started", "exit": None,
         "file_when_up": None, "file_after_exit": None}
    t0 = time.time()
    try:
        # phase 1: either it exits (refusal / crash) or the pid file comes to name it
        while time.time() - t0 < timeout:
            if p.poll() is not None:
                r["phase"], r["exit"] = "exited_at_startup", p.returncode
                break
            if names(read(pidf)) == p.pid and os.path.exists(os.path.join(d, "ctl.sock")):
                r["phase"] = "up"
                r["file_when_up"] = read(pidf)
                break
            time.sleep(0.05)
        else:
            r["phase"] = "neither_up_nor_exited"
        if r["phase"] == "up":
            # phase 2: an accepted quit (retried while the arbiter is busy), then the exit
            r["quit"] = _quit("ipc://%s/ctl.sock" % d, p, t0 + timeout)
            try:
                p.wait(timeout=max(1.0, t0 + timeout + 10 - time.time()))
                r["phase"], r["exit"] = "exited_after_quit", p.returncode
            except subprocess.TimeoutExpired:
                r["phase"] = "running_after_quit"
    finally:
        if p.poll() is None:
            p.kill()
            p.wait()
        logf.close()
    r["file_after_exit"] = read(pidf)
    with open(os.path.join(d, "out.log"), "rb") as fh:
        r["output_tail"] = fh.read()[-1500:].decode("utf8", "replace")
    r["wall_s"] = round(time.time() - t0, 2)
    return r


def _quit(endpoint, p, deadline):
    import zmq
    ctx = zmq.Context()
    last = "no reply"
    try:
        while time.time() < deadline and p.poll() is None:
            s = ctx.socket(zmq.DEALER)
            s.setsockopt(zmq.LINGER, 0)
            s.connect(endpoint)
            try:
                s.send(json.dumps({"id": "q", "command": "quit", "properties": {}}).encode())
                if s.poll(2000):
                    rep = json.loads(s.recv().decode())
                    last = rep.get("status", "?") + ":" + str(rep.get("reason", ""))[:80]
                    if rep.get("status") == "ok":
                        return "accepted"
                else:
                    last = "no reply in 2 s"
            finally:
                s.close()
            time.sleep(0.2)
    finally:
        ctx.term()
    return last


def judge_live(verdict, r, expect, counters, seed):
    """expect: 'refuse' | 'takeover'.  Only what the statement says is judged; everything else is a note or
    a machinery failure."""
    rep = {"kind": "pidfile-live", "run": r, "expect": expect, "seed": seed, "repo": REPO}
    cls = r["class"]
    if expect == "refuse":
        if r["phase"] == "exited_at_startup" and r["exit"] != 0:
            return "ok"
        if r["phase"] in ("up", "exited_after_quit", "running_after_quit"):
            counters["violations"] += 1
            verdict.violation("circusd started although the pid file (class %s, %r) names a live process that is "
                              "not it: pid file then %r" % (cls, r["initial_content"], r["file_when_up"]), rep)
            return "violation"
        if r["phase"] == "exited_at_startup":       # exit status 0 without running
            counters["violations"] += 1
            verdict.violation("circusd refused a pid file naming a live process (class %s) but exited with status "
                              "0" % cls, rep)
            return "violation"
        verdict.machinery.append("live pidfile run (%s): %s: %s" % (cls, r["phase"], r["output_tail"][-300:]))
        return "machinery"
    # take over
    if r["phase"] == "exited_at_startup":
        what = "circusd did not take over a pid file of class %s (%r): exit status %s: %s" % (
            cls, r["initial_content"], r["exit"], r["output_tail"].strip().splitlines()[-1:] or "")
        if cls == "huge" and "OverflowError" in r["output_tail"]:
            counters["huge"] += 1
            if counters["huge"] == 1:
                verdict.attributed(FINDING_HUGE, what + " [Dev_HugeOverflow, live]", rep)
            return "huge"
        if cls == "absent":     # the control run: if even this does not come up, the environment is at fault
            verdict.machinery.append("circusd does not start in the sandbox: " + r["output_tail"][-400:])
            return "machinery"
        counters["violations"] += 1
        verdict.violation(what, rep)
        return "violation"
    if r["phase"] == "exited_after_quit":
        if r["exit"] == 0 and r["file_after_exit"] is None:
            return "ok"
        counters["violations"] += 1
        verdict.violation("after an accepted quit circusd (pid file class %s) exited with status %s and left the pid "
                          "file %r" % (cls, r["exit"], r["file_after_exit"]), rep)
        return "violation"
    if r["phase"] == "running_after_quit" and r.get("quit") == "accepted":
        counters["violations"] += 1
        verdict.violation("circusd still runs 10 s after an accepted quit (pid file class %s)" % cls, rep)
        return "violation"
    verdict.machinery.append("live pidfile run (%s): %s quit=%s: %s" % (cls, r["phase"], r.get("quit"),
                                                                      r["output_tail"][-300:]))
    return "machinery"


LIVE_EXPECT = {"live": "refuse", "live_nl": "refuse", "live_padded": "refuse"}   # every other class: take over
LIVE_QUICK = ["absent", "live_nl", "garbage", "dead_nl"]
LIVE_THOROUGH = ["absent", "empty", "whitespace", "garbage", "garbage_livepid", "live", "live_nl", "live_padded",
                 "dead", "dead_nl", "dead_padded", "zero", "negative", "big", "huge"]


def live_part(verdict, tier, seed, scratch, w, counters):
    rng = random.Random(seed * 131 + 5)
    classes = LIVE_QUICK if tier == "quick" else LIVE_THOROUGH * 4
    jobs = []
    for i, cls in enumerate(classes):
        w.check()
        jobs.append((os.path.join(scratch, "lv%d" % i), cls, content(cls, w, 0, rng)))
    with ThreadPoolExecutor(max_workers=min(8, len(jobs))) as ex:
        runs = list(ex.map(lambda j: circusd_once(*j), jobs))
    outcome = {}
    for r in runs:
        o = judge_live(verdict, r, LIVE_EXPECT.get(r["class"], "takeover"), counters, seed)
        outcome[o] = outcome.get(o, 0) + 1
    return runs, outcome


# ------------------------------------------------------------------------------------------------
def run_pidfile(verdict, tier, seed, scratch, live=True):
    """TLC enumeration + replay on the real Pidfile (+ the real circusd).  Returns a coverage dict."""
    t = checklib.Timer()
    data, stats = enumerate_cases(scratch, verdict, 3 if tier == "quick" else 5)
    cov = {"max_ops": stats["maxops"], "states": stats["states"], "transitions": stats["transitions"], "tlc_runs": stats["tlc"],
           "exhaustive": bool(stats["tlc"]) and all(x["complete"] for x in stats["tlc"]),
           "traces_validated_against_impl": 0, "samples": [], "cases": 0, "concretizations": 0}
    if data is None:
        return cov
    cases = data["cases"]
    Pidfile, pfile = _import_pidfile()
    own = os.getpid()
    rng = random.Random(seed * 104729 + 8)
    nvar = 3 if tier == "quick" else 25
    counters = {"violations": 0, "divergences": 0, "huge": 0}
    divs, samples = [], []
    by_class, seen = {}, set()
    w = World()
    notes = []
    try:
        d = os.path.join(scratch, "pf")
        os.makedirs(d, exist_ok=True)
        path = os.path.join(d, "x.pid")
        n = 0
        for case in cases:
            if case["cls"] == "live_eperm":
                continue
            for _ in range(nvar):
                w.check()
                initial = content(case["cls"], w, own, rng)
                obs = run_steps(Pidfile, path, initial, case["steps"], own)
                judge_case(verdict, case, initial, obs, own, seed, counters, divs, "in-process")
                n += 1
                by_class[case["cls"]] = by_class.get(case["cls"], 0) + 1
                if len(samples) < 8 and case["cls"] not in seen and rng.random() < 0.2:
                    seen.add(case["cls"])
                    samples.append({"class": case["cls"], "content": initial, "observed": obs})
        ecases = [c for c in cases if c["cls"] == "live_eperm"]
        eres, why = eperm_worker(ecases, scratch, seed, nvar)
        if eres is None:
            if why.startswith("MACHINERY"):
                verdict.machinery.append("EPERM worker: " + why)
            notes.append("class live_eperm not realized: " + why)
        else:
            for case, initial, obs, eown in eres:
                judge_case(verdict, case, initial, obs, eown, seed, counters, divs, "unprivileged child")
                n += 1
                by_class["live_eperm"] = by_class.get("live_eperm", 0) + 1
            if eres:
                samples.append({"class": "live_eperm", "content": eres[0][1], "observed": eres[0][2]})
        live_runs, live_outcome = [], {}
        if live:
            live_runs, live_outcome = live_part(verdict, tier, seed, scratch, w, counters)
            for r in live_runs[:3]:
                samples.append({"live_circusd": {k: r[k] for k in ("class", "initial_content", "phase", "exit",
                                                                   "file_when_up", "file_after_exit", "wall_s")}})
    finally:
        w.close()
    for dv in divs[:5]:
        print("DIVERGENCE (no property verdict): pid file class %s content %r: %s gives %s / %r, modelled %s / %r" % (
            dv["class"], dv["content"], dv["step"]["op"], dv["step"]["res"], dv["step"]["after"],
            dv["step"]["modelled_res"], dv["step"]["modelled_after"]))
    cov.update({"cases": len(cases), "concretizations": n, "traces_validated_against_impl": n + len(live_runs),
                "by_class": by_class, "samples": samples, "divergences": counters["divergences"],
                "divergence_samples": divs, "huge_overflow_hits": counters["huge"],
                "unexplained_disagreements": counters["violations"], "live_circusd_runs": len(live_runs),
                "live_outcomes": live_outcome, "notes": notes, "circus": pfile, "wall_pidfile_s": t.wall(),
                "checker_cmd": "java -cp tla2tools.jar:CommunityModules-deps.jar tlc2.TLC -config Pidfile.cfg "
                               "Pidfile.tla (+ Pidfile_fixed.cfg)"})
    return cov


def replay_case(rep):
    """Re-run one recorded disagreement (in-process cases: same class, same operations, fresh processes).
    Returns 1 if a step still violates what the statement demands."""
    if rep.get("kind") == "pidfile-live":
        with tlcrun.Scratch() as scratch:
            w = World()
            try:
                cls = rep["run"]["class"]
                r = circusd_once(os.path.join(scratch, "lv"), cls, content(cls, w, 0, random.Random(rep["seed"])))
            finally:
                w.close()
        v = checklib.Verdict("replay")
        v.violation = lambda what, obj: v.violations.append((what, "-"))
        o = judge_live(v, r, rep["expect"], {"violations": 0, "huge": 0}, rep["seed"])
        print("replayed live run, class %s: %s (%s, exit %s)" % (cls, o, r["phase"], r["exit"]))
        return 0 if o == "ok" else 1
    Pidfile, _ = _import_pidfile()
    own = os.getpid()
    bad = 0
    with tlcrun.Scratch() as scratch:
        w = World()
        try:
            initial = content(rep["class"], w, own, random.Random(rep["seed"]))
            obs = run_steps(Pidfile, os.path.join(scratch, "x.pid"), initial, rep["steps"], own)
        finally:
            w.close()
    for st, o in zip(rep["steps"], obs):
        ok = sat(o, st["dem"], own)
        print("replayed %s on class %s (%r): %s, file %r; demanded %s -> %s" % (
            st["op"], rep["class"], o["before"], o["res"], o["after"], show_dem(st["dem"]), "ok" if ok else "VIOLATED"))
        bad += 0 if ok else 1
    return 1 if bad else 0


def run(prop, tier, seed):
    t = checklib.Timer()
    verdict = checklib.Verdict(prop)
    with tlcrun.Scratch() as scratch:
        try:
            cov = run_pidfile(verdict, tier, seed, scratch)
        except Exception:
            import traceback
            verdict.machinery.append("check_pidfile: " + traceback.format_exc()[-1500:])
            cov = {}
    ev = {"tier": tier, "seed": seed, "level": "model_checking", "coverage": cov, "wall_s": t.wall(),
          "assumptions": ["'live' is what kill(pid, 0) says; a zombie counts as live and is not exercised",
                          "a refusal is any exception out of Pidfile.create (circusd.main turns RuntimeError into "
                          "a message + exit 1, anything else into a traceback + exit 1)",
                          "pid recycling between the creation of a dead pid and its use is checked for, not excluded",
                          "TLC and the CommunityModules Json module"]}
    return verdict.finish(ev)


if __name__ == "__main__":
    _tier, _seed = checklib.tier_seed()
    sys.exit(run(sys.argv[1] if len(sys.argv) > 1 else "C08", _tier, _seed))

"""property id -> check function(prop, tier, seed) -> exit status"""


def lookup(prop):
    from harness import checks_core
    if prop == "C18":
        from harness import check_c18b
        checks_core.EXTRAS["C18"] = check_c18b.run_signum
    def _chain(first, prefixes, nq, nt):
        def run(verdict, tier, seed, scratch):
            from harness import check_reload
            cov = dict(first(verdict, tier, seed, scratch) or {})
            sched = check_reload.run_reload_sched(verdict, tier, seed, scratch, prefixes, n_quick=nq, n_thorough=nt,
                                                  conf_quick=30, conf_thorough=400)
            cov["reload_schedules"] = sched
            for k in ("traces_validated_against_impl", "states", "transitions"):
                cov[k] = int(cov.get(k, 0)) + int(sched.get(k, 0))
            return cov
        return run
    if prop == "C01":
        from harness import check_c15reload
        checks_core.EXTRAS["C01"] = _chain(check_c15reload.run_reload_c01, ("C01_",), 80, 2000)
    if prop == "C15":
        from harness import check_c15reload
        checks_core.EXTRAS["C15"] = _chain(check_c15reload.run_reload_dir, ("C15_",), 80, 2000)
    if prop == "C13":
        from harness import check_c13a
        checks_core.EXTRAS["C13"] = check_c13a.run_cmdline
    if prop == "C08":
        from harness import check_pidfile

        def c08_extra(verdict, tier, seed, scratch):
            cov = check_pidfile.run_pidfile(verdict, tier, seed, scratch)
            try:
                from harness import check_c08live
                live = check_c08live.run_live_shutdown(verdict, tier, seed, scratch)
                cov = dict(cov or {})
                cov["live_shutdown"] = live
                cov["traces_validated_against_impl"] = int(cov.get("traces_validated_against_impl", 0)) + int(
                    (live or {}).get("traces_validated_against_impl", 0))
            except ImportError:
                pass
            return cov
        checks_core.EXTRAS["C08"] = c08_extra
    if prop in checks_core.PROPS:
        return checks_core.run
    if prop == "C06":
        from harness import check_c06
        return check_c06.run
    if prop == "C16":
        from harness import check_c16
        return check_c16.run
    if prop == "C07":
        from harness import check_c07
        return check_c07.run
    if prop == "C12":
        from harness import check_c12
        return check_c12.run
    if prop == "C17":
        from harness import check_c17
        return check_c17.run
    if prop == "C20":
        from harness import check_c20
        return check_c20.run
    return None

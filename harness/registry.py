"""property id -> check function(prop, tier, seed) -> exit status"""


def lookup(prop):
    from harness import checks_core
    if prop == "C18":
        from harness import check_c18b
        checks_core.EXTRAS["C18"] = check_c18b.run_signum
    if prop in checks_core.PROPS:
        return checks_core.run
    if prop == "C06":
        from harness import check_c06
        return check_c06.run
    if prop == "C16":
        from harness import check_c16
        return check_c16.run
    if prop == "C20":
        from harness import check_c20
        return check_c20.run
    return None

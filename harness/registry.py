"""property id -> check function(prop, tier, seed) -> exit status"""


def lookup(prop):
    from harness import checks_core
    if prop in checks_core.PROPS:
        return checks_core.run
    return None

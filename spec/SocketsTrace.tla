---------------------------- MODULE SocketsTrace ----------------------------
(***************************************************************************)
(* Trace validation for C07: behaviours RECORDED FROM A REAL circusd (live *)
(* binding, harness/check_c07.py) against Sockets.tla.                     *)
(*                                                                         *)
(* IOEnv.TRACE_FILE: a JSON array of traces                                *)
(*    [rp |-> [inet |-> BOOLEAN, unix |-> BOOLEAN], si |-> "none"|NAME,    *)
(*     watchers |-> <<names>>,                                             *)
(*     lines |-> << [ev |-> <<kind, watcher, index>>, obs |-> Obs] ... >>] *)
(* whose first line is <<"boot", "", 0>>.  Obs is the projection Proj of   *)
(* Sockets.tla computed by the harness from /proc/<worker>/fd as recorded  *)
(* by the workers, /proc/<daemon>/fd, /proc/net/{tcp,unix} and a connect() *)
(* probe.                                                                  *)
(*                                                                         *)
(* Per trace one line is printed:                                          *)
(*    <<"VERDICT", trace, lines, first divergent line or 0,                *)
(*      {<<monitor, first line where it is FALSE>>}>>                      *)
(* A monitor (the property formula, evaluated on the OBSERVED state only)  *)
(* that is FALSE is a violation; a divergence (the observed state is not   *)
(* the one the model reaches by the same event) alone is not.              *)
(***************************************************************************)
EXTENDS Sockets

Traces == JsonDeserialize(IOEnv.TRACE_FILE)

VARIABLES tid, l, div, bad

TInit == /\ tid \in 1..Len(Traces)
         /\ s = Boot([rp |-> Traces[tid].rp, si |-> Traces[tid].si,
                      ws |-> {Traces[tid].watchers[i] : i \in 1..Len(Traces[tid].watchers)}])
         /\ hist = <<>>
         /\ l = 0 /\ div = 0 /\ bad = {}

Mons(rp, o) == {<<"Same", MonSame(rp, o)>>, <<"Stable", MonStable(rp, o)>>, <<"NoLeak", MonNoLeak(rp, o)>>}

TNext == /\ l < Len(Traces[tid].lines)
         /\ LET ln  == Traces[tid].lines[l + 1]
                rp  == Traces[tid].rp
                can == ln.ev[1] = "boot" \/ ln.ev \in Events(s)
                s2  == IF ln.ev[1] = "boot" \/ ~can THEN s ELSE Apply(s, ln.ev)
                d2  == IF div = 0 /\ (~can \/ Proj(s2) # ln.obs) THEN l + 1 ELSE div
                b2  == bad \cup {<<m[1], l + 1>> : m \in {x \in Mons(rp, ln.obs) : ~x[2] /\ ~\E y \in bad : y[1] = x[1]}}
            IN  /\ s' = s2 /\ hist' = hist /\ l' = l + 1 /\ div' = d2 /\ bad' = b2 /\ tid' = tid
                /\ (l + 1 = Len(Traces[tid].lines) => PrintT(<<"VERDICT", tid, l + 1, d2, b2>>))

\* what the model expected at the first divergent line (for the report)
Expect == div # 0 /\ div = l => PrintT(<<"EXPECTED", tid, l, ToJson(Proj(s))>>)
=============================================================================

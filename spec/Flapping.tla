------------------------------ MODULE Flapping ------------------------------
(***************************************************************************************************)
(* The flapping plugin (circus/plugins/flapping.py) -- the one component of circus that sends      *)
(* state-changing commands on its own: it listens to the `reap` events of the event channel and,   *)
(* when a watcher's workers die `attempts` times within `window` seconds, casts `stop NAME` and    *)
(* arms a timer that casts `start NAME` after `retry_in` seconds, at most `max_retry` times in a   *)
(* row (-1: for ever); after that it stops the watcher for good.                                   *)
(*                                                                                                 *)
(* Outside the twenty listed properties (none of them speaks about plugins); it is here because    *)
(* the specification is meant to cover what the system does.  What it shares with Core: the reap   *)
(* events are the ones C09 describes, its casts are the stop / start requests of C02 / C10.        *)
(*                                                                                                 *)
(* The model follows the code as it is, one handler per action:                                    *)
(*    Reap(w)      handle_recv(... "reap"): timeline.append(now); check(w)                          *)
(*    Fire(w, i)   a Timer armed by check() fires: cast("start", w)                                *)
(*    Updated(w)   handle_recv(... "updated"): update_conf(w): the watcher's flapping.* options     *)
(*                 replace the plugin's defaults for that watcher                                  *)
(*    Tick         time passes                                                                     *)
(* Time is in units of 0.1 s.  `out` is the history of casts (hidden from the view).               *)
(*                                                                                                 *)
(* Deviations kept as coded (Dev_* = TRUE):                                                        *)
(*    Dev_TimersPile   reset() means to cancel the pending timer but tests `name is self.timers`   *)
(*                     (never true); check() overwrites self.timers[name] without cancelling:      *)
(*                     nothing ever cancels a start timer except handle_stop                       *)
(*    Dev_EqAttempts   check() compares len(timeline) == attempts: when `updated` lowers attempts  *)
(*                     below the current length the timeline only grows and flapping is never      *)
(*                     detected again for that watcher                                             *)
(***************************************************************************************************)
EXTENDS Integers, Sequences, FiniteSets, TLC

CONSTANTS Watchers, MaxTime, MaxReaps, MaxUpdates,
          CheckDelay,                 \* the plugin's check_delay (subtracted from the measured duration)
          Defaults,                   \* [attempts, window, retry_in, max_retry, active]
          Overrides,                  \* set of records an `updated` event may install for a watcher
          Record,                     \* keep the history
          Dev_TimersPile, Dev_EqAttempts

VARIABLES now, timeline, tries, timers, conf, hasconf, budget, out

vars == <<now, timeline, tries, timers, conf, hasconf, budget, out>>

Init == /\ now = 0
        /\ timeline = [w \in Watchers |-> <<>>]
        /\ tries = [w \in Watchers |-> 0]
        /\ timers = [w \in Watchers |-> {}]          \* fire times of the armed start timers (a set: equal times coincide)
        /\ conf = [w \in Watchers |-> Defaults]
        /\ hasconf = [w \in Watchers |-> FALSE]
        /\ budget = [reaps |-> 0, updates |-> 0]
        /\ out = <<>>

Log(e) == out' = IF Record THEN Append(out, e) ELSE out

(* check(watcher_name) on the timeline tl *)
Check(w, tl, c) ==
  IF ~c.active THEN [tl |-> tl, tries |-> tries[w], cast |-> "", arm |-> FALSE]
  ELSE IF (IF Dev_EqAttempts THEN Len(tl) = c.attempts ELSE Len(tl) >= c.attempts)
  THEN LET duration == tl[Len(tl)] - tl[1] - CheckDelay IN
       IF duration <= c.window
       THEN IF tries[w] < c.max_retry \/ c.max_retry = -1
            THEN [tl |-> <<>>, tries |-> tries[w] + 1, cast |-> "stop", arm |-> TRUE]
            ELSE [tl |-> <<>>, tries |-> 0, cast |-> "stop", arm |-> FALSE]
       ELSE [tl |-> <<>>, tries |-> 0, cast |-> "", arm |-> FALSE]
  ELSE [tl |-> tl, tries |-> tries[w], cast |-> "", arm |-> FALSE]

Reap(w) ==
  /\ budget.reaps < MaxReaps /\ budget' = [budget EXCEPT !.reaps = @ + 1]
  /\ LET tl == Append(timeline[w], now)
         \* the first check of a watcher fetches its options (update_conf); here: the defaults stay unless `updated` came
         r  == Check(w, tl, conf[w]) IN
     /\ timeline' = [timeline EXCEPT ![w] = r.tl]
     /\ tries' = [tries EXCEPT ![w] = r.tries]
     /\ timers' = IF r.arm THEN [timers EXCEPT ![w] = IF Dev_TimersPile THEN @ \cup {now + conf[w].retry_in}
                                                       ELSE {now + conf[w].retry_in}]
                  ELSE timers
     /\ hasconf' = [hasconf EXCEPT ![w] = TRUE]
     /\ Log([a |-> "reap", w |-> w, t |-> now, cast |-> r.cast, arm |-> r.arm, tries |-> r.tries, n |-> Len(r.tl)])
  /\ UNCHANGED <<now, conf>>

Fire(w) ==
  /\ \E t \in timers[w] : t <= now /\ \A u \in timers[w] : t <= u
  /\ LET t == CHOOSE t \in timers[w] : \A u \in timers[w] : t <= u IN
       /\ timers' = [timers EXCEPT ![w] = @ \ {t}]
       /\ Log([a |-> "fire", w |-> w, t |-> now, cast |-> "start"])
  /\ UNCHANGED <<now, timeline, tries, conf, hasconf, budget>>

Updated(w) ==
  /\ budget.updates < MaxUpdates /\ budget' = [budget EXCEPT !.updates = @ + 1]
  /\ \E o \in Overrides :
       /\ conf' = [conf EXCEPT ![w] = o]
       /\ Log([a |-> "updated", w |-> w, t |-> now, o |-> o])
  /\ hasconf' = [hasconf EXCEPT ![w] = TRUE]
  /\ UNCHANGED <<now, timeline, tries, timers>>

(* timers fire when due: time does not pass over an armed timer *)
Tick == /\ now < MaxTime
        /\ \A w \in Watchers : \A t \in timers[w] : t > now
        /\ now' = now + 1
        /\ UNCHANGED <<timeline, tries, timers, conf, hasconf, budget, out>>

Next == \/ \E w \in Watchers : Reap(w) \/ Fire(w) \/ Updated(w)
        \/ Tick

Spec == Init /\ [][Next]_vars
View == <<now, timeline, tries, timers, conf, hasconf, budget>>

-----------------------------------------------------------------------------------------------------
TypeOK == /\ \A w \in Watchers : tries[w] >= 0 /\ Len(timeline[w]) >= 0
          /\ now \in 0..MaxTime

(* the retry counter never passes max_retry (when there is one) *)
TriesBounded == \A w \in Watchers : conf[w].max_retry >= 0 => tries[w] <= conf[w].max_retry \/ tries[w] <= Defaults.max_retry

(* the timeline is short: it is cut as soon as it reaches `attempts` -- FALSE as coded once `updated` lowers attempts *)
TimelineShort == \A w \in Watchers : conf[w].active => Len(timeline[w]) < conf[w].attempts

(* at most one start is pending per watcher -- FALSE as coded (Dev_TimersPile) when retry_in exceeds the time flapping
   needs to be detected again *)
OnePending == \A w \in Watchers : Cardinality(timers[w]) <= 1
=============================================================================

\* C12, two watcher names; Dev_ branches FALSE (the code as the statement wants it)
CONSTANTS
  NameSeq <- two_NameSeq
  MaxNp = 3
  CmdVers <- mc_CmdVers
  EnvVers <- mc_EnvVers
  OptVals <- mc_OptVals
  InitFiles <- two_InitFiles
  AddRecs <- mc_AddRecs
  MaxEdits = 4
  Dev_StaleCfgSnapshot = FALSE
  Dev_DiffIgnoresAddedKeys = FALSE
  EmitHist = FALSE
INIT Init
NEXT Next
CONSTRAINT Emit
CHECK_DEADLOCK FALSE
INVARIANT Inv_Type
INVARIANT Inv_SameExplained
INVARIANT Inv_DeltaExplained
INVARIANT C12_Keep
INVARIANT C12_Idem
INVARIANT Inv_Fixed
INVARIANT C12_Same
INVARIANT C12_Delta

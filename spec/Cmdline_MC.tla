----------------------------- MODULE Cmdline_MC -----------------------------
(***************************************************************************************************)
(* Exhaustive enumeration of cmd/args shapes for C13 (a), with the argument vector the spec         *)
(* defines for each, written as JSON for the harness (harness/check_c13a.py).                       *)
(*                                                                                                 *)
(* One behaviour per case:  start -> input -> subst -> words -> shell, one stage per step, so that *)
(* TLC's invariants check the definition against the wording of the statement on every case:        *)
(*   every known reference is replaced, unknown references / dollars / literals survive in order,   *)
(*   list elements are never split and keep their quote characters, and the shell=True string      *)
(*   splits back (by the same POSIX rules sh applies) into exactly the shell=False vector.          *)
(*                                                                                                 *)
(* Environment:  OUT_FILE  path of the JSON to write                                                *)
(*               C13_PARTS "quick" | "full"      which part alphabet                                *)
(*               C13_TOTAL max. total number of parts of a case (words <= 3, parts per word <= 3)   *)
(*               C13_SHARD / C13_SHARDS   this run enumerates the cases whose first part has index  *)
(*                                         = SHARD modulo SHARDS in PartSeq                         *)
(***************************************************************************************************)
EXTENDS Cmdline, TLC, Json, IOUtils, SequencesExt

VARIABLES cs, stage, res
vars_ == <<cs, stage, res>>

MaxTotal == atoi(IOEnv.C13_TOTAL)
Shard == atoi(IOEnv.C13_SHARD)
Shards == atoi(IOEnv.C13_SHARDS)
MaxWords == 3
MaxWordParts == 3

\* the variables: 1 = wid, 2 = a variable with a blank-free value, 3 = a variable whose value has a blank;
\* NOENV (4) is present iff the watcher of the case has no environment at all (its text reads None)
Vars0 == (1 :> <<Tok("val", 1)>>) @@ (2 :> <<Tok("val", 2)>>) @@ (3 :> <<Tok("val", 31), SP, Tok("val", 32)>>)
VarsOf(c) == IF c.noenv THEN Vars0 @@ (NOENV :> <<Tok("val", NOENV)>>) ELSE Vars0

QuickParts ==
    <<Part("none", "lit", 0), Part("none", "ulit", 0), Part("none", "dl", 0), Part("none", "unk", 0),
      Part("none", "ref", 1), Part("none", "ref", 2), Part("none", "ref", 3), Part("none", "dref", 1),
      Part("none", "uenv", 0),
      Part("sq", "sp", 0), Part("dq", "sp", 0), Part("bs", "sp", 0),
      Part("sq", "ref", 1), Part("dq", "ref", 3)>>

AllParts == {p \in {Part(q, c, v) : q \in Quotings, c \in Contents, v \in 0 .. 3} :
                /\ WellFormedPart(p)
                /\ (p.c = "ref") => (p.v \in 1 .. 3)
                /\ (p.c = "dref") => (p.v = 1)
                /\ (p.c \notin {"ref", "dref"}) => (p.v = 0)}      \* 34 parts

PartSeq == IF IOEnv.C13_PARTS = "full" THEN SetToSeq(AllParts) ELSE QuickParts
Parts == {PartSeq[i] : i \in 1 .. Len(PartSeq)}
FirstParts == {PartSeq[i] : i \in {j \in 1 .. Len(PartSeq) : j % Shards = Shard}}

RECURSIVE SumSeq(_)
SumSeq(s) == IF s = <<>> THEN 0 ELSE Head(s) + SumSeq(Tail(s))

LenSeqs == {l \in UNION {[1 .. w -> 1 .. MaxWordParts] : w \in 1 .. MaxWords} : SumSeq(l) <= MaxTotal}

RECURSIVE Prod(_)
Prod(l) == IF l = <<>> THEN {<<>>}
           ELSE {<<h>> \o t : h \in [1 .. Head(l) -> Parts], t \in Prod(Tail(l))}

\* cmd has at least one word; an args value without words ('' or []) is tried on one-word cases only.
\* (No UNION over the big sets: TLC's UNION removes duplicates by linear search, quadratic in the size.)
AKs == {"none", "str", "list"}
Valid(ws, nc, ak) ==
    /\ nc <= Len(ws)
    /\ ws[1][1] \in FirstParts
    /\ ak \in IF nc < Len(ws) THEN {"str", "list"} ELSE IF Len(ws) = 1 THEN AKs ELSE {"none"}
HasContent(ws, c) == \E i \in 1 .. Len(ws) : \E j \in 1 .. Len(ws[i]) : ws[i][j].c = c
\* whether the watcher has an environment matters (to the code) only where cmd refers to the bare name env
MkCase(ws, nc, ak, ne) == [cmd |-> SubSeq(ws, 1, nc), args |-> [ak |-> ak, ws |-> SubSeq(ws, nc + 1, Len(ws))],
                           noenv |-> ne]
CasesOf(l) == {MkCase(t[1], t[2], t[3], t[4]) :
                  t \in {t \in Prod(l) \X (1 .. MaxWords) \X AKs \X BOOLEAN :
                            /\ Valid(t[1], t[2], t[3])
                            /\ t[4] => HasContent(SubSeq(t[1], 1, t[2]), "uenv")}}

---------------------------------------------------------------------------------------------------
Init == /\ cs = [cmd |-> <<>>, args |-> [ak |-> "none", ws |-> <<>>], noenv |-> FALSE]
        /\ stage = "start"
        /\ res = <<>>

Next ==
    \/ /\ stage = "start"                       \* pick a case (every case is one successor of the start state)
       /\ \E l \in LenSeqs : cs' \in CasesOf(l)
       /\ stage' = "input"
       /\ res' = <<CmdText(cs'.cmd)>> \o ArgsText(cs'.args)
    \/ /\ stage = "input"
       /\ stage' = "subst"
       /\ res' = [i \in 1 .. Len(res) |-> Subst(res[i], VarsOf(cs), CodeDevs, i = 1)]
       /\ UNCHANGED cs
    \/ /\ stage = "subst"
       /\ stage' = "words"
       /\ res' = Split(res[1]) \o (CASE cs.args.ak = "none" -> <<>>
                                     [] cs.args.ak = "str" -> Split(res[2])
                                     [] cs.args.ak = "list" -> Tail(res))
       /\ UNCHANGED cs
    \/ /\ stage = "words"
       /\ stage' = "shell"
       /\ res' = <<ShellString(res)>>
       /\ UNCHANGED cs

Spec == Init /\ [][Next]_vars_

---------------------------------------------------------------------------------------------------
(* what the statement says, evaluated on the definition *)

Kinds(text, ks) == SelectSeq(text, LAMBDA t : t.k \in ks)
Payload == {"lit", "ulit", "unk", "uenv", "dref", "dl", "val"}   \* everything that is not quoting syntax or a blank
Texts(c) == <<CmdText(c.cmd)>> \o ArgsText(c.args)
HasKind(text, k) == \E j \in 1 .. Len(text) : text[j].k = k

\* the deviation branches a case goes through
Taken(c) == {d \in CodeDevs :
               \/ d = "DoublePrefix" /\ \E i \in 1 .. Len(Texts(c)) : HasKind(Texts(c)[i], "dref")
               \/ d = "EnvNone" /\ c.noenv /\ HasKind(CmdText(c.cmd), "uenv")}

InputSubst == [i \in 1 .. Len(Texts(cs)) |-> Subst(Texts(cs)[i], VarsOf(cs), CodeDevs, i = 1)]

T_pipeline ==    \* the stepwise pipeline is the operator Argv
    /\ stage = "words" => res = Argv(cs.cmd, cs.args, VarsOf(cs), FALSE)
    /\ stage = "shell" => res = Argv(cs.cmd, cs.args, VarsOf(cs), TRUE)

T_replaced ==    \* every known reference is replaced, in every syntax position, quoted or not
    stage \in {"subst", "words", "shell"} => \A i \in 1 .. Len(res) : Kinds(res[i], {"ref"}) = <<>>

T_verbatim ==    \* unknown references, dollars and literals survive, in order, nothing else appears
    stage = "words" =>
        Kinds(Flat(res), Payload) = Kinds(Flat(InputSubst), Payload)

T_list ==        \* list arguments are kept as given: one argument each, whatever they contain
    (stage = "words" /\ cs.args.ak = "list") =>
        /\ Len(res) >= Len(cs.args.ws)
        /\ \A i \in 1 .. Len(cs.args.ws) :
              res[Len(res) - Len(cs.args.ws) + i] =
                  Subst(WordText(cs.args.ws[i], 200 + 10 * i), VarsOf(cs), CodeDevs, FALSE)

T_wellformed ==  \* every enumerated input is balanced: a vector exists, no separator survives
    stage = "words" => \A i \in 1 .. Len(res) : \A j \in 1 .. Len(res[i]) : res[i][j].k \notin {"error", "ws"}

T_shell ==       \* sh, splitting the single string by the same rules, recovers exactly the vector
    stage = "shell" => Split(res[1]) = Argv(cs.cmd, cs.args, VarsOf(cs), FALSE)

T_dev ==         \* the code's vector differs from the demanded one exactly where a deviation branch is taken,
                 \* and the demanded vector leaves every unknown reference where it was
    stage = "words" =>
        /\ (res # Demanded(cs.cmd, cs.args, VarsOf(cs), FALSE)) <=> (Taken(cs) # {})
        /\ Kinds(Flat(Demanded(cs.cmd, cs.args, VarsOf(cs), FALSE)), {"unk", "uenv", "dref"})
               = Kinds(Flat(Texts(cs)), {"unk", "uenv", "dref"})

---------------------------------------------------------------------------------------------------
(* output *)

KindCode == [ws |-> 1, sp |-> 2, sq |-> 3, dq |-> 4, bs |-> 5, dl |-> 6, lit |-> 7, ulit |-> 8, ref |-> 9,
             unk |-> 10, dref |-> 11, val |-> 12, error |-> 13, uenv |-> 14]
Enc(t) == KindCode[t.k] * 10000 + t.x
EncText(text) == [i \in 1 .. Len(text) |-> Enc(text[i])]
EncTexts(ts) == [i \in 1 .. Len(ts) |-> EncText(ts[i])]
EncWord(w) == [i \in 1 .. Len(w) |-> <<w[i].q, w[i].c, ToString(w[i].v)>>]

\* for a case that goes through deviation branches: the vector for every proper subset of them
\* (the empty subset is what the statement demands)
Alts(c, taken) ==
    LET subs == SetToSeq(SUBSET taken \ {taken})
    IN  [i \in 1 .. Len(subs) |->
            [devs |-> SetToSeq(subs[i]),
             argv |-> EncTexts(ArgvDev(c.cmd, c.args, VarsOf(c), FALSE, subs[i])),
             sh |-> EncText(ArgvDev(c.cmd, c.args, VarsOf(c), TRUE, subs[i])[1])]]

CaseOut(c) ==
    LET a == Argv(c.cmd, c.args, VarsOf(c), FALSE)
        taken == Taken(c)
    IN  [cmd |-> [i \in 1 .. Len(c.cmd) |-> EncWord(c.cmd[i])],
         ak |-> c.args.ak,
         args |-> [i \in 1 .. Len(c.args.ws) |-> EncWord(c.args.ws[i])],
         noenv |-> c.noenv,
         cmd_text |-> EncText(CmdText(c.cmd)),
         args_text |-> EncTexts(ArgsText(c.args)),
         argv |-> EncTexts(a),
         sh |-> EncText(ShellString(a)),
         devs |-> SetToSeq(taken),
         alts |-> IF taken = {} THEN <<>> ELSE Alts(c, taken)]

LenSeq == SetToSeq(LenSeqs)
AllOut == Flat([i \in 1 .. Len(LenSeq) |-> SetToSeq({CaseOut(c) : c \in CasesOf(LenSeq[i])})])

Header(n) == [kinds |-> KindCode, vars |-> [i \in 1 .. 3 |-> EncText(Vars0[i])],
              parts |-> [i \in 1 .. Len(PartSeq) |-> <<PartSeq[i].q, PartSeq[i].c, ToString(PartSeq[i].v)>>],
              max_total |-> MaxTotal, shard |-> Shard, shards |-> Shards,
              code_devs |-> SetToSeq(CodeDevs), ncases |-> n]

Emit ==
    /\ TLCGet("stats").distinct > 0          \* (a postcondition must not be a constant expression)
    /\ LET out == AllOut
       IN  /\ JsonSerialize(IOEnv.OUT_FILE, <<Header(Len(out))>> \o out)
           /\ PrintT(<<"C13A_CASES", Len(out)>>)

===============================================================================

---------------------------- MODULE Redirector_MC ----------------------------
(* Model-checking / simulation wrapper of Redirector: constants that a cfg cannot express, the VIEW that  *)
(* hides the history variables, and the dumping of histories as JSON for the replay on the real code.    *)
EXTENDS Redirector, Json

W2 == {1, 2}
W3 == {1, 2, 3}
R1 == {1}
R2 == {1, 2}
OneRed == [w \in W2 |-> 1]              \* one watcher, two workers
TwoRed == [w \in W2 |-> w]              \* two watchers, one worker each
Sim3   == [w \in W3 |-> IF w = 3 THEN 2 ELSE 1]   \* watcher 1 with two workers, watcher 2 with one
NoDump == {}
Dump3  == {12, 24, 36}
Dump4  == {15, 30, 45, 60}

(* what the invariants and the actions can see of `delivered`: per current generation the concatenation, *)
(* and whether some record is mislabelled; `hist` is seen by nothing                                      *)
View == <<pid, gen, alive, wopen, rfd, phase, written, pipe, rstate, pipes, loop, fdOpen, eof, budget, target,
          [w \in Workers |-> [ch \in Chans |-> IF pid[w] = 0 THEN <<>> ELSE DataOf(pid[w], ch)]],
          C17_Label>>

(* simulation: a chosen state whose history has one of the lengths in DumpAt prints it (one line) *)
DumpAction == /\ Len(hist) \in DumpAt
              /\ PrintT(<<"BEH", ToJson(hist)>>)
              /\ FALSE
              /\ UNCHANGED vars
MCNext == Next \/ DumpAction

(* simulation only: a uniformly random walk stops every redirector within a few steps and then starves;   *)
(* let stops come late and seldom (early stops are covered by the exhaustive runs)                       *)
SimBias == /\ (\E r \in Reds : rstate[r] = "running" /\ rstate'[r] = "stopped") => (Len(hist) >= 24 /\ Len(hist) % 6 = 0)
           /\ target' # target => Len(hist) % 5 = 2        \* stream changes: a few per behaviour, among the writes

(* exhaustive search for the proposed finding: print the history of the first orphan and stop *)
NoOrphanDump == NoOrphan \/ (PrintT(<<"CEX", ToJson(hist)>>) /\ FALSE)
=============================================================================

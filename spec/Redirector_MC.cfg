\* C17, the main exhaustive configuration (thorough tier; harness/check_c17.py generates this and the others:
\* MC["one"], overrides for two watchers / three generations / simulation / counterexample search)
\* 1 watcher x 2 workers x 2 channels, writes of 1..3 units against buffer 2, 2 generations per slot with
\* fd-number reuse in either channel order, kill path and reap path, per-channel close, stop
CONSTANTS
  Workers <- W2
  Reds <- R1
  RedOf <- OneRed
  MaxFd = 4
  FdAny = FALSE
  Buffer = 2
  MaxChunk = 3
  MaxWrite = 3
  PipeCap = 3
  MaxGen = 2
  MaxWrites = 2
  MaxCloses = 1
  MaxChanges = 0
  Atomic = TRUE
  Record = FALSE
  DumpAt <- NoDump
  Dev_StaleAfterReap = TRUE
INIT Init
NEXT Next
VIEW View
CHECK_DEADLOCK FALSE
INVARIANT TypeOK
INVARIANT C17_Prefix
INVARIANT C17_Done
INVARIANT C17_Label
INVARIANT C17_EOF
INVARIANT C17_Fds
INVARIANT C17_Watched

\* 1 watcher (redirector) x 2 workers x 2 channels, chunks 1..3 against buffer 2, 4 generations, any fd numbers
CONSTANTS
  Workers <- W2
  Reds <- R1
  RedOf <- OneRed
  MaxFd = 5
  FdAny = TRUE
  Buffer = 2
  MaxChunk = 3
  MaxWrite = 3
  PipeCap = 3
  MaxPid = 4
  DumpAt <- NoDump
  Dev_StaleAfterReap = TRUE
INIT Init
NEXT Next
VIEW View
CHECK_DEADLOCK FALSE
INVARIANT TypeOK
INVARIANT C17_Prefix
INVARIANT C17_Done
INVARIANT C17_Label
INVARIANT C17_EOF
INVARIANT C17_Fds
INVARIANT C17_Watched

CONSTANTS
  Ms <- tf_Ms
  Ns <- tf_Ns
  MaxN = 2
  Sizes <- tf_Sizes
  Extras <- tf_Extras
  PreSizes <- tf_Pre
  PreActive <- Zero
  MaxWrites = 7
  Dev_RawLenTest = TRUE
  EmitHist = FALSE
INIT Init
NEXT Next
VIEW View
CONSTRAINT Emit
CHECK_DEADLOCK FALSE
INVARIANT C20_Size_KF
INVARIANT C20_Count
INVARIANT C20_Tail
INVARIANT C20_Plain

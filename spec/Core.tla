-------------------------------- MODULE Core --------------------------------
(***************************************************************************)
(* The circus daemon AS IMPLEMENTED (watcher.py, arbiter.py, controller.py,*)
(* util.synchronized) over a model of the kernel process table and of the   *)
(* tornado/asyncio event loop.                                              *)
(*                                                                          *)
(* Granularity: ONE EFFECT PER STEP.  A step of the daemon runs the frame   *)
(* on top of the call stack `cur` up to and including its next effect at    *)
(* the daemon's boundary (a kernel call with its result, a published event, *)
(* a reply, a hook call) or to its next suspension.  The environment (worker*)
(* death, external kill, request arrival, time, fatal signals taking effect)*)
(* is a set of independently enabled actions that interleave at every such  *)
(* boundary.  Every step yields `out`: the line that the trace recorder of  *)
(* the sim binding writes for the same step of the real code, so that the   *)
(* same Monitors.tla formulas are evaluated on model behaviours and on      *)
(* recorded implementation behaviours, and TraceCore can match them 1:1.    *)
(*                                                                          *)
(* Coroutines: tornado runs a called coroutine INLINE up to its first real  *)
(* suspension; `yield` on a completed future does not suspend; a completed  *)
(* child resumes its waiter through the ready queue (a later callback).     *)
(* Frames [fn, pc, ...] + call stack + ready queue + timers reproduce that. *)
(*                                                                          *)
(* Behaviour that violates a listed property is modelled as the code has it *)
(* (DESIGN.md 3.5/7): the Dev_* constants name those branches.              *)
(***************************************************************************)
EXTENDS Integers, Sequences, FiniteSets, TLC

CONSTANTS MaxFrames,       \* size of the frame table
          Dev_PruneWithoutReap,        \* D4: manage_processes drops dead workers without reaping them
          Dev_AfterSpawnKillDetached,  \* D3: after_spawn false: kill not awaited, pid dropped at once
          Dev_BuiltinIgnoreList,       \* D11: before_signal/after_signal/..stop raise counts as true
          Dev_AddEmptyNameReturns,     \* D9: add_watcher returns (not raises) ValueError for an empty name
          Dev_QuitRefusedWhenBusy,     \* D6: a termination signal that meets a busy slot is refused and dropped
          Dev_SocketEventStartsAll,    \* D13: a socket event starts EVERY watcher, without waiting for any
          Dev_OpsAfterStop,            \* D19: exclusive operations are still accepted once the arbiter is stopping
          Dev_ChildrenRelisted         \* D17: stop_children looks every child up again among the worker's CURRENT children

SIGKILL == 9
SIGTERM == 15
SIGHUP  == 1

NoLine == [k |-> "", w |-> "", p |-> 0, a |-> 0, r |-> "", x |-> ""]
Line(k, w, p, a, r, x) == [k |-> k, w |-> w, p |-> p, a |-> a, r |-> r, x |-> x]

NoFrame == [fn |-> "", pc |-> "", w |-> 0, p |-> 0, a |-> 0, b |-> 0, c |-> 0, l |-> <<>>, m |-> <<>>,
            kids |-> <<>>, r |-> 0, par |-> 0, aw |-> {}, done |-> FALSE, susp |-> FALSE, cbs |-> <<>>,
            nm |-> ""]

FrameIds == 1..MaxFrames

---------------------------------------------------------------------------
\* small helpers
Min(S) == CHOOSE x \in S : \A y \in S : x <= y
MaxS(S) == CHOOSE x \in S : \A y \in S : x >= y
SeqSet(s) == { s[i] : i \in 1..Len(s) }
RemoveAt(s, i) == SubSeq(s, 1, i - 1) \o SubSeq(s, i + 1, Len(s))
IdxOf(s, P(_)) == CHOOSE i \in 1..Len(s) : P(s[i])

\* ---------------------------------------------------------------- watchers
\* s.ws[i] = [st, np, pr]; pr = sequence of [p, wid] in dict (insertion) order.  The Process object's own
\* fields (stopping flag, cached Popen.returncode) live in the kernel record of the pid: k[p].stp, k[p].rc
WC(s, i) == s.cfg.ws[i]
PrPids(wr) == { wr.pr[j].p : j \in 1..Len(wr.pr) }
PrIdx(wr, p) == CHOOSE j \in 1..Len(wr.pr) : wr.pr[j].p = p
InPr(wr, p) == \E j \in 1..Len(wr.pr) : wr.pr[j].p = p
PrGet(wr, p) == wr.pr[PrIdx(wr, p)]
SetW(s, i, wr) == [s EXCEPT !.ws[i] = wr]
PrPop(s, i, p) == IF InPr(s.ws[i], p)
                  THEN [s EXCEPT !.ws[i].pr = RemoveAt(@, PrIdx(s.ws[i], p))] ELSE s
PidSeq(wr) == [j \in 1..Len(wr.pr) |-> wr.pr[j].p]
NextWid(s, i) == LET used == { s.ws[i].pr[j].wid : j \in 1..Len(s.ws[i].pr) }
                     avail == (1..(2 * s.ws[i].np)) \ used
                 IN IF avail = {} THEN 0 ELSE Min(avail)

\* ---------------------------------------------------------------- kernel
\* s.k[p] = [st, ws, par, obeys, dying, owner, stp, rc, rcv]   rc: returncode cached (rcv its value)
NP(s) == Len(s.k)
KSt(s, p) == s.k[p].st
Fatal(sig) == sig \notin {0, 17, 28, 23, 18, 19, 20, 21, 22}
Exit(s, p, ws) ==      \* the process terminates: zombie of the daemon (or reaped by init for a grandchild)
   [s EXCEPT !.k = [q \in 1..Len(s.k) |->
        IF q = p THEN [s.k[q] EXCEPT !.st = IF s.k[q].par = 0 THEN "zombie" ELSE "reaped", !.ws = ws, !.dying = 0]
        ELSE IF s.k[q].par = p THEN [s.k[q] EXCEPT !.par = -1] ELSE s.k[q]]]
\* delivery of a signal to a live or zombie process; `inst` = the process exits before the daemon's next step
Deliver(s, p, sig, inst) ==
   IF s.k[p].st # "run" THEN s
   ELSE IF sig = SIGKILL \/ (s.k[p].obeys /\ Fatal(sig))
        THEN IF inst THEN Exit(s, p, sig)
             ELSE IF s.k[p].dying = 0 THEN [s EXCEPT !.k[p].dying = sig] ELSE s
        ELSE s
LiveChildren(s, p) == { c \in 1..NP(s) : s.k[c].par = p /\ s.k[c].st = "run" }
Dying(s) == { p \in 1..NP(s) : s.k[p].dying # 0 /\ s.k[p].st = "run" }

\* ---------------------------------------------------------------- frames, call stack, ready queue, timers
Top(s) == s.cur[1]
F(s, f) == s.fr[f]
FreeIds(s) == { f \in FrameIds : s.fr[f].fn = "" }
Emit(s, ln) == [s EXCEPT !.out = ln]
SetF(s, f, fr) == [s EXCEPT !.fr[f] = fr]
Goto(s, f, pc) == [s EXCEPT !.fr[f].pc = pc]
\* call: caller continues at retpc when the callee returns or first suspends; callee runs inline now
CallN(s, f, retpc, fn, w, p, a, b, nm) ==
   LET id == Min(FreeIds(s)) IN
   [s EXCEPT !.fr[f].pc = retpc,
             !.fr[f].kids = Append(@, id),
             !.fr[id] = [NoFrame EXCEPT !.fn = fn, !.pc = "0", !.w = w, !.p = p, !.a = a, !.b = b, !.par = f,
                                        !.nm = nm],
             !.cur = <<id>> \o @]
Call(s, f, retpc, fn, w, p, a, b) == CallN(s, f, retpc, fn, w, p, a, b, "")
Free(s, ids) == [s EXCEPT !.fr = [x \in FrameIds |-> IF x \in ids THEN NoFrame ELSE @[x]]]
Enq(s, cb) == [s EXCEPT !.rq = Append(@, cb)]
Resume(f) == [kind |-> "resume", f |-> f, cid |-> "", mid |-> ""]
\* return: frame f is done with value v.  If it is still on the call stack (never suspended since it was
\* called, or it is a sync function) the caller simply continues; otherwise its waiter is woken through the
\* ready queue.  Completion callbacks (slot release, reply) registered on its future are queued too.
Ret(s, f, v) ==
   LET fr  == s.fr[f]
       par == fr.par
       s1  == [s EXCEPT !.fr[f].done = TRUE, !.fr[f].r = v, !.fr[f].pc = "done", !.cur = Tail(@)]
       RECURSIVE EnqAll(_, _)
       EnqAll(ss, cbs) == IF cbs = <<>> THEN ss ELSE EnqAll(Enq(ss, Head(cbs)), Tail(cbs))
       \* done-callbacks run in registration order: synchronized()'s release and the controller's reply were
       \* attached when the call returned, the awaiting caller's resumption later
       s2  == IF fr.susp THEN EnqAll([s1 EXCEPT !.fr[f].cbs = <<>>], fr.cbs) ELSE s1
       s3  == IF par # 0 /\ s2.fr[par].fn # "" /\ f \in s2.fr[par].aw
              THEN LET aw2 == s2.fr[par].aw \ {f} IN
                   IF aw2 = {} THEN Enq([s2 EXCEPT !.fr[par].aw = {}], Resume(par))
                   ELSE [s2 EXCEPT !.fr[par].aw = aw2]
              ELSE s2
   IN \* a detached frame (no parent, nobody will read it) is freed at once
      IF par = 0 /\ fr.cbs = <<>> THEN Free(s3, {f}) ELSE s3
\* suspension on a timer: the whole inline call chain above... f is on top; control returns to its caller
Sleep(s, f, d, retpc) ==
   [s EXCEPT !.fr[f].pc = retpc, !.fr[f].susp = TRUE, !.cur = Tail(@),
             !.tm = @ \cup {[f |-> f, due |-> s.now + d]}]
\* yield on child futures: continue if all are done, else suspend until they are
Await(s, f, retpc) ==
   LET pend == { c \in SeqSet(s.fr[f].kids) : ~s.fr[c].done } IN
   IF pend = {} THEN Goto(s, f, retpc)
   ELSE [s EXCEPT !.fr[f].pc = retpc, !.fr[f].aw = pend, !.fr[f].susp = TRUE, !.cur = Tail(@)]
KidRets(s, f) == [i \in 1..Len(s.fr[f].kids) |-> s.fr[s.fr[f].kids[i]].r]
DropKids(s, f) == [Free(s, SeqSet(s.fr[f].kids)) EXCEPT !.fr[f].kids = <<>>]
LastKid(s, f) == s.fr[f].kids[Len(s.fr[f].kids)]

---------------------------------------------------------------------------
\* ====================== the watcher's coroutines, one effect per step =====================
\* Conventions: every program is an operator (s, f) -> s' for the frame f on top of the stack; `ob` is the
\* environment's choice of the behaviour of a newly spawned worker (used by the spawn step only).
\* Return codes in fr.r: 1 = True/ok, 0 = False, 2 = NoSuchProcess was raised, 3 = other exception.

WN(s, i) == s.cfg.ws[i].n          \* the name as given
WL(s, i) == s.cfg.ws[i].ln         \* lower-cased (directory key, event topic)
HasHook(s, i, h) == \E j \in 1..Len(s.cfg.ws[i].hooks) : s.cfg.ws[i].hooks[j].h = h
HookOf(s, i, h) == s.cfg.ws[i].hooks[CHOOSE j \in 1..Len(s.cfg.ws[i].hooks) : s.cfg.ws[i].hooks[j].h = h]
BuiltinIgnore == {"before_stop", "after_stop", "before_signal", "after_signal", "extended_stats"}
Decode(ws) == IF ws % 128 # 0 THEN -(ws % 128) ELSE (ws \div 256) % 256
Stopped(s, i) == s.ws[i].st = "stopped"
\* util.synchronized refuses (ConflictError) while the arbiter restarts, while an exclusive operation holds the slot,
\* and - as repaired - once the arbiter is stopping (D19: a start / restart / incr accepted after everything had been
\* stopped, in the window before the loop ends, left its workers behind)
Refused(s) == s.restarting \/ s.slot # "" \/ (~Dev_OpsAfterStop /\ s.stopping)
\* Watcher.pending_socket_event: an on_demand watcher acts only while the arbiter says a connection is waiting
Pending(s, i) == s.ws[i].od /\ ~s.sockev
KidR(s, f) == s.fr[LastKid(s, f)].r
SetL(s, f, l) == [s EXCEPT !.fr[f].l = l]
SetM(s, f, m) == [s EXCEPT !.fr[f].m = m]
SetA(s, f, v) == [s EXCEPT !.fr[f].a = v]
SetC(s, f, v) == [s EXCEPT !.fr[f].c = v]
SetSt(s, i, st) == [s EXCEPT !.ws[i].st = st]
CallHook(s, f, retpc, i, h, p) == CallN(s, f, retpc, "hook", i, p, 0, 0, h)

\* ---- call_hook(name, **kw)
P_hook(s, f) ==
  LET fr == s.fr[f] IN
  CASE fr.pc = "0" ->
         IF ~HasHook(s, fr.w, fr.nm) THEN Ret(s, f, 1)
         ELSE Emit(Goto(s, f, "1"), Line("hook", WN(s, fr.w), fr.p, 0, HookOf(s, fr.w, fr.nm).o, fr.nm))
    [] fr.pc = "1" ->
         LET hc == HookOf(s, fr.w, fr.nm)
             res == IF hc.o = "raise"
                    THEN (IF hc.ig \/ (Dev_BuiltinIgnoreList /\ fr.nm \in BuiltinIgnore) THEN 1 ELSE 0)
                    ELSE (IF hc.o = "true" THEN 1 ELSE 0)
             ev == IF hc.o = "raise" THEN "hook_failure:" \o fr.nm ELSE "hook_success:" \o fr.nm
         IN Emit(Ret(s, f, res), Line("ev", WL(s, fr.w), 0, 0, "", ev))

\* ---- the kernel call  psutil.Process.send_signal(sig)  on pid p; returns <<s', result>>
KSignal(s, p, sig) ==
  IF s.k[p].st = "reaped" THEN <<s, "nsp">>
  ELSE <<Deliver(s, p, sig, FALSE), IF s.k[p].st = "run" THEN "ok" ELSE "zombie">>

\* ---- Watcher.send_signal(pid, signum)     fr.a = signum
P_send_signal(s, f) ==
  LET fr == s.fr[f] IN
  CASE fr.pc = "0" -> IF ~InPr(s.ws[fr.w], fr.p) THEN Ret(s, f, 1)
                      ELSE CallHook(s, f, "1", fr.w, "before_signal", fr.p)
    [] fr.pc = "1" -> LET r == KidR(s, f) s1 == DropKids(s, f) IN
                      IF fr.a # SIGKILL /\ r = 0 THEN Goto(s1, f, "3") ELSE Goto(s1, f, "2")
    [] fr.pc = "2" -> LET kr == KSignal(s, fr.p, fr.a) IN
                      IF kr[2] = "nsp"
                      THEN Emit(Ret(s, f, 2), Line("signal", "", fr.p, fr.a, "nsp", ""))
                      ELSE Emit(Goto(kr[1], f, "3"), Line("signal", "", fr.p, fr.a, kr[2], ""))
    [] fr.pc = "3" -> CallHook(s, f, "4", fr.w, "after_signal", fr.p)
    [] fr.pc = "4" -> Ret(DropKids(s, f), f, 1)

\* descendants in the order the simulated psutil lists them (DFS from a stack, children by pid)
RECURSIVE DescSeq(_, _, _)
DescSeq(s, stack, rec) ==
  IF stack = <<>> THEN <<>>
  ELSE LET cur == stack[Len(stack)]
           rest == SubSeq(stack, 1, Len(stack) - 1)
           cs == LiveChildren(s, cur)
           RECURSIVE Sorted(_)
           Sorted(S) == IF S = {} THEN <<>> ELSE <<Min(S)>> \o Sorted(S \ {Min(S)})
           csq == Sorted(cs)
       IN csq \o DescSeq(s, IF rec THEN rest \o csq ELSE rest, rec)

\* ---- Watcher.send_signal_process(process, signum, recursive)     fr.a = signum, fr.b = recursive
P_send_signal_process(s, f) ==
  LET fr == s.fr[f] IN
  CASE fr.pc = "0" ->
         IF s.k[fr.p].st = "reaped"
         THEN Emit(Ret(s, f, 1), Line("children", "", fr.p, 0, "nsp", ""))
         ELSE LET cl == IF s.k[fr.p].st = "run" THEN DescSeq(s, <<fr.p>>, fr.b = 1) ELSE <<>> IN
              Emit(Goto(SetL(s, f, cl), f, "1"), Line("children", "", fr.p, Len(cl), "ok", ""))
    [] fr.pc = "1" -> Call(s, f, "2", "send_signal", fr.w, fr.p, fr.a, 0)
    [] fr.pc = "2" -> LET r == KidR(s, f) s1 == DropKids(s, f) IN
                      IF r = 2 THEN Goto(s1, f, "3")
                      ELSE Emit(Goto(s1, f, "3"), Line("ev", WL(s, fr.w), fr.p, 0, "", "kill"))
    [] fr.pc = "3" -> IF fr.l = <<>> THEN Ret(s, f, 1)
                      ELSE IF ~Dev_ChildrenRelisted THEN Goto(s, f, "4")     \* repaired: the child objects of the first listing
                      ELSE \* (D17) Process.send_signal_child lists the worker's children again
                           IF s.k[fr.p].st = "reaped"
                           THEN Emit(SetL(s, f, Tail(fr.l)), Line("children", "", fr.p, 0, "nsp", ""))
                           ELSE LET isrun == s.k[fr.p].st = "run"
                                    n == IF isrun THEN Cardinality(LiveChildren(s, fr.p)) ELSE 0 IN
                                \* whether the child is (still) a child is decided by THIS listing; the signal follows
                                IF isrun /\ Head(fr.l) \in LiveChildren(s, fr.p)
                                THEN Emit(Goto(s, f, "4"), Line("children", "", fr.p, n, "ok", ""))
                                ELSE Emit(SetL(s, f, Tail(fr.l)), Line("children", "", fr.p, n, "ok", ""))
    [] fr.pc = "4" -> LET c == Head(fr.l) IN
                      IF s.k[c].st = "reaped"       \* gone since the listing: NoSuchProcess, swallowed
                      THEN Emit(Goto(SetL(s, f, Tail(fr.l)), f, "3"), Line("csignal", "", c, fr.a, "nsp", ""))
                      ELSE Emit(Goto(Deliver(s, c, fr.a, FALSE), f, "5"), Line("csignal", "", c, fr.a, "ok", ""))
    [] fr.pc = "5" -> Emit(Goto(SetL(s, f, Tail(fr.l)), f, "3"), Line("ev", WL(s, fr.w), Head(fr.l), 0, "", "kill"))

\* ---- Popen.poll() on p (reaps); returns <<s', result, wstatus>>; "cached" = no system call
KPoll(s, p) ==
  IF s.k[p].rc THEN <<s, "cached", 0>>
  ELSE IF s.k[p].st = "run" THEN <<s, "alive", 0>>
  ELSE IF s.k[p].st = "zombie"
       THEN <<[s EXCEPT !.k[p].st = "reaped", !.k[p].rc = TRUE, !.k[p].rcv = Decode(s.k[p].ws)], "dead", s.k[p].ws>>
  ELSE <<[s EXCEPT !.k[p].rc = TRUE, !.k[p].rcv = 0], "lost", 0>>
SetStp(s, p, v) == [s EXCEPT !.k[p].stp = v]

\* ---- Watcher.kill_process(process, stop_signal, graceful_timeout)   fr.a = signal, fr.b = polls, fr.c = waited
P_kill_process(s, f) ==
  LET fr == s.fr[f] i == fr.w IN
  CASE fr.pc = "0" ->
         IF s.k[fr.p].stp THEN Ret(s, f, 0)
         ELSE IF s.ws[i].sch THEN Call(s, f, "1s", "send_signal_process", i, fr.p, fr.a, 0)
         ELSE Call(s, f, "1", "send_signal", i, fr.p, fr.a, 0)
    [] fr.pc = "1" -> LET r == KidR(s, f) s1 == DropKids(s, f) IN
                      IF r = 2 THEN Ret(s1, f, 0)
                      ELSE Emit(Goto(s1, f, "2"), Line("ev", WL(s, i), fr.p, 0, "", "kill"))
    [] fr.pc = "1s" -> Goto(DropKids(s, f), f, "2")
    [] fr.pc = "2" -> Goto(SetC(SetStp(s, fr.p, TRUE), f, 0), f, "3")
    [] fr.pc = "3" ->
         IF fr.c < fr.b
         THEN LET kp == KPoll(s, fr.p) IN
              IF kp[2] = "cached" THEN Goto(s, f, "5")
              ELSE IF kp[2] = "alive" THEN Emit(Goto(s, f, "3w"), Line("poll", "", fr.p, 0, "alive", ""))
              ELSE Emit(Goto(kp[1], f, "5"), Line("poll", "", fr.p, kp[3], kp[2], ""))
         ELSE Goto(s, f, "4")
    [] fr.pc = "3w" -> Sleep(s, f, 1, "3i")
    [] fr.pc = "3i" -> Goto(SetC(s, f, fr.c + 1), f, "3")
    [] fr.pc = "4" -> Call(s, f, "4r", "send_signal_process", i, fr.p, SIGKILL, 1)
    [] fr.pc = "4r" -> Goto(DropKids(s, f), f, "5")
    [] fr.pc = "5" ->      \* stopping := False; Process.stop(): is_alive() -> poll
         LET s1 == SetStp(s, fr.p, FALSE) kp == KPoll(s1, fr.p) IN
         IF kp[2] = "cached" THEN Ret(s1, f, 1)
         ELSE IF kp[2] = "alive" THEN Emit(Goto(s1, f, "6"), Line("poll", "", fr.p, 0, "alive", ""))
         ELSE Emit(Ret(kp[1], f, 1), Line("poll", "", fr.p, kp[3], kp[2], ""))
    [] fr.pc = "6" ->      \* Popen.terminate(); NoSuchProcess is swallowed by Process.stop
         LET kr == KSignal(s, fr.p, SIGTERM) IN
         Emit(Ret(kr[1], f, 1), Line("signal", "", fr.p, SIGTERM, kr[2], ""))

\* ---- psutil status of p as circus.process.Process.status sees it
KStatus(s, p) == IF s.k[p].st = "reaped" THEN "gone" ELSE IF s.k[p].st = "zombie" THEN "zombie" ELSE "run"

\* ---- Watcher.kill_processes(stop_signal, graceful_timeout): status each, kill the active ones, wait for all
\*      fr.a / fr.b = -1: the watcher's own stop_signal / graceful_timeout
P_kill_processes(s, f) ==
  LET fr == s.fr[f] i == fr.w
      sig == IF fr.a = -1 THEN s.ws[i].ssig ELSE fr.a
      G   == IF fr.b = -1 THEN s.ws[i].G ELSE fr.b IN
  CASE fr.pc = "0" -> Goto(SetM(SetL(s, f, PidSeq(s.ws[i])), f, <<>>), f, "1")
    [] fr.pc = "1" ->
         IF fr.l = <<>> THEN Goto(s, f, "2")
         ELSE LET p == Head(fr.l) st == KStatus(s, p)
                  s1 == SetL(s, f, Tail(fr.l)) IN
              Emit(IF st = "run" THEN SetM(s1, f, Append(fr.m, p)) ELSE s1, Line("status", "", p, 0, st, ""))
    [] fr.pc = "2" -> IF fr.m = <<>> THEN Await(s, f, "3")
                      ELSE Call(SetM(s, f, Tail(fr.m)), f, "2", "kill_process", i, Head(fr.m), sig, G)
    [] fr.pc = "3" -> Ret(DropKids(s, f), f, 1)

\* ---- Watcher.reap_process(pid, status)     fr.a = wait status or -1 (unknown)
P_reap_process(s, f) ==
  LET fr == s.fr[f] i == fr.w p == fr.p IN
  CASE fr.pc = "0" -> IF ~InPr(s.ws[i], p) THEN Ret(s, f, 1) ELSE CallHook(s, f, "1", i, "before_reap", p)
    [] fr.pc = "1" -> LET s1 == PrPop(DropKids(s, f), i, p) IN
                      IF fr.a = -1 THEN Goto(s1, f, "2") ELSE Goto(s1, f, "4")
    [] fr.pc = "2" ->      \* os.waitpid(pid, WNOHANG)
         IF s.k[p].st = "run"        \* (0, 0): time.sleep and retry -- the daemon BLOCKS while p lives
         THEN Emit(Goto(s, f, "2b"), Line("waitpid", "", p, 0, "none", ""))
         ELSE IF s.k[p].st = "zombie"
         THEN Emit(Goto(SetA([s EXCEPT !.k[p].st = "reaped"], f, s.k[p].ws), f, "4"),
                   Line("waitpid", "", p, s.k[p].ws, "pid", ""))
         ELSE Emit(Goto(s, f, "3"), Line("waitpid", "", p, 0, "echild", ""))
    [] fr.pc = "2b" ->     \* time.sleep(0.001): signalled processes get the time to exit; else the daemon is blocked
         IF Dying(s) # {}
         THEN LET d == Min(Dying(s)) IN
              Emit(Goto(Exit(s, d, s.k[d].dying), f, "2s"), Line("sigdeath", "", d, s.k[d].dying, "", ""))
         ELSE Emit(Goto([s EXCEPT !.blocked = p], f, "2c"), Line("block", "", p, 0, "", ""))
    [] fr.pc = "2s" ->
         IF Dying(s) # {}
         THEN LET d == Min(Dying(s)) IN
              Emit(Exit(s, d, s.k[d].dying), Line("sigdeath", "", d, s.k[d].dying, "", ""))
         ELSE Goto(s, f, "2")
    [] fr.pc = "2c" ->
         IF s.k[p].st = "run" THEN Emit(s, Line("waitpid", "", p, 0, "none", ""))
         ELSE Goto([s EXCEPT !.blocked = 0], f, "2")
    [] fr.pc = "3" ->      \* "reaping already dead process": exit code is Popen.returncode (None if never polled)
         Emit(Goto(s, f, "3a"), Line("ev", WL(s, i), p, IF s.k[p].rc THEN s.k[p].rcv ELSE 0, "", "reap"))
    [] fr.pc = "3a" ->     \* process.stop(): is_alive() -> poll()
         LET kp == KPoll(s, p) IN
         IF kp[2] = "cached" THEN Goto(s, f, "6")
         ELSE Emit(Goto(kp[1], f, "6"), Line("poll", "", p, kp[3], kp[2], ""))
    [] fr.pc = "4" ->      \* process.status
         LET st == KStatus(s, p) IN
         Emit(Goto(s, f, IF st = "run" THEN "5" ELSE "4a"), Line("status", "", p, 0, st, ""))
    [] fr.pc = "4a" ->     \* dead or unexisting: process.stop()
         LET kp == KPoll(s, p) IN
         IF kp[2] = "cached" THEN Goto(s, f, "5")
         ELSE IF kp[2] = "alive" THEN Emit(Goto(s, f, "4t"), Line("poll", "", p, 0, "alive", ""))
         ELSE Emit(Goto(kp[1], f, "5"), Line("poll", "", p, kp[3], kp[2], ""))
    [] fr.pc = "4t" -> LET kr == KSignal(s, p, SIGTERM) IN
                       Emit(Goto(kr[1], f, "5"), Line("signal", "", p, SIGTERM, kr[2], ""))
    [] fr.pc = "5" -> Emit(Goto(s, f, "6"), Line("ev", WL(s, i), p, Decode(fr.a), "", "reap"))
    [] fr.pc = "6" -> CallHook(s, f, "7", i, "after_reap", p)
    [] fr.pc = "7" -> Ret(DropKids(s, f), f, 1)

\* ---- Watcher.reap_processes()
P_reap_processes(s, f) ==
  LET fr == s.fr[f] i == fr.w IN
  CASE fr.pc = "0" -> IF Stopped(s, i) THEN Ret(s, f, 1) ELSE Goto(SetL(s, f, PidSeq(s.ws[i])), f, "1")
    [] fr.pc = "1" -> IF fr.l = <<>> THEN Ret(DropKids(s, f), f, 1)
                      ELSE Call(SetL(DropKids(s, f), f, Tail(fr.l)), f, "1", "reap_process", i, Head(fr.l), -1, 0)

\* pids sorted by start time, newest first (pids are allocated in start order)
RECURSIVE SortDesc(_)
SortDesc(S) == IF S = {} THEN <<>> ELSE <<MaxS(S)>> \o SortDesc(S \ {MaxS(S)})

\* ---- Watcher.manage_processes()
P_manage_processes(s, f) ==
  LET fr == s.fr[f] i == fr.w wr == s.ws[i] IN
  CASE fr.pc = "0" -> IF Stopped(s, i) THEN Ret(s, f, 1) ELSE Goto(SetL(s, f, PidSeq(wr)), f, "1")
    [] fr.pc = "1" ->      \* remove dead or zombie processes first
         IF fr.l = <<>> THEN Goto(DropKids(s, f), f, IF wr.mage > 0 THEN "2" ELSE "3")
         ELSE LET p == Head(fr.l) st == KStatus(s, p) s1 == SetL(DropKids(s, f), f, Tail(fr.l)) IN
              IF st = "run" THEN Emit(s1, Line("status", "", p, 0, st, ""))
              ELSE Emit(Goto(SetC(s1, f, p), f, "1r"), Line("status", "", p, 0, st, ""))
    [] fr.pc = "1r" -> IF Dev_PruneWithoutReap THEN Goto(PrPop(s, i, fr.c), f, "1")     \* D4: dropped, not reaped
                       ELSE Call(s, f, "1", "reap_process", i, fr.c, -1, 0)
    \* remove_expired_processes(): age() > max_age with a clock whose later reading is always larger: on the model's
    \* grid a worker is expired from the instant its age REACHES max_age.  All expired workers are killed side by side,
    \* then those the kill really took care of are reaped
    \* (born is in ms: a blocking reap pushes real time off the model's 0.1 s grid, and the trace spec sets the birth
    \*  of a worker to the time its spawn line carries)
    [] fr.pc = "2" -> LET ex == SelectSeq(PidSeq(wr), LAMBDA p : s.now * 100 - s.k[p].born >= wr.mage * 100) IN
                      Goto(SetM(SetL(s, f, ex), f, ex), f, "2a")
    [] fr.pc = "2a" -> IF fr.m = <<>> THEN Await(s, f, "2b")
                       ELSE Call(SetM(s, f, Tail(fr.m)), f, "2a", "kill_process", i, Head(fr.m), wr.ssig, wr.G)
    [] fr.pc = "2b" ->
         LET rets == KidRets(s, f)
             gone == { fr.l[j] : j \in { j \in 1..Len(fr.l) : rets[j] = 1 } } IN
         Goto(SetM(DropKids(s, f), f, SelectSeq(fr.l, LAMBDA p : p \in gone)), f, "2c")
    [] fr.pc = "2c" -> IF fr.m = <<>> THEN Goto(DropKids(s, f), f, "3")
                       ELSE Call(SetM(DropKids(s, f), f, Tail(fr.m)), f, "2c", "reap_process", i, Head(fr.m), -1, 0)
    [] fr.pc = "3" ->      \* adding fresh processes
         IF Len(wr.pr) < wr.np /\ wr.st # "stopping"
         THEN IF wr.resp THEN Call(s, f, "3a", "spawn_processes", i, 0, 0, 0)
              ELSE IF Len(wr.pr) = 0 /\ ~wr.od THEN Call(s, f, "3a", "_stop", i, 0, 0, 0)
              ELSE Goto(s, f, "4")
         ELSE Goto(s, f, "4")
    [] fr.pc = "3a" -> Await(s, f, "3b")
    [] fr.pc = "3b" -> Goto(DropKids(s, f), f, "4")
    [] fr.pc = "4" ->      \* removing extra processes: the oldest ones
         IF Len(wr.pr) > wr.np
         THEN LET sd == SortDesc(PrPids(wr)) IN
              Goto(SetM(SetL(s, f, SubSeq(sd, wr.np + 1, Len(sd))), f, <<>>), f, "5")
         ELSE Ret(s, f, 1)
    [] fr.pc = "5" ->
         IF fr.l = <<>> THEN Goto(SetL(s, f, fr.m), f, "6")
         ELSE LET p == Head(fr.l) st == KStatus(s, p) s1 == SetL(s, f, Tail(fr.l)) IN
              Emit(IF st = "run" THEN SetM(s1, f, Append(fr.m, p)) ELSE Goto(SetC(s1, f, p), f, "5p"),
                   Line("status", "", p, 0, st, ""))
    [] fr.pc = "5p" -> IF Dev_PruneWithoutReap THEN Goto(PrPop(s, i, fr.c), f, "5")
                       ELSE Call(s, f, "5q", "reap_process", i, fr.c, -1, 0)
    [] fr.pc = "5q" -> Goto(DropKids(s, f), f, "5")
    [] fr.pc = "6" -> IF fr.m = <<>> THEN Await(s, f, "7")
                      ELSE Call(SetM(s, f, Tail(fr.m)), f, "6", "kill_process", i, Head(fr.m), wr.ssig, wr.G)
    [] fr.pc = "7" ->
         LET rets == KidRets(s, f)
             gone == { fr.l[j] : j \in { j \in 1..Len(fr.l) : rets[j] = 1 } }
             s1 == [s EXCEPT !.ws[i].pr = SelectSeq(@, LAMBDA e : e.p \notin gone)]
         IN IF Dev_PruneWithoutReap THEN Ret(DropKids(s1, f), f, 1)      \* D4: popped, never reaped
            ELSE Goto(SetM(DropKids(s, f), f, SelectSeq(fr.l, LAMBDA p : p \in gone)), f, "8")
    [] fr.pc = "8" -> IF fr.m = <<>> THEN Ret(DropKids(s, f), f, 1)
                      ELSE Call(SetM(DropKids(s, f), f, Tail(fr.m)), f, "8", "reap_process", i, Head(fr.m), -1, 0)

\* ---- Watcher.spawn_process()      returns 1 (started / True) or 0 (False: the watcher must be stopped)
P_spawn_process(s, f, ob) ==
  LET fr == s.fr[f] i == fr.w IN
  CASE fr.pc = "0" -> IF Stopped(s, i) THEN Ret(s, f, 1) ELSE CallHook(s, f, "1", i, "before_spawn", 0)
    [] fr.pc = "1" -> LET r == KidR(s, f) s1 == DropKids(s, f) IN
                      IF r = 0 THEN Ret(s1, f, 0) ELSE Goto(SetC(s1, f, 0), f, "2")
    [] fr.pc = "2" ->
         IF fr.c >= s.cfg.ws[i].retry /\ s.cfg.ws[i].retry # -1 THEN Ret(s, f, 0)
         ELSE IF s.faults # <<>> /\ Head(s.faults) # "ok"
         THEN Emit(SetC([s EXCEPT !.faults = Tail(@)], f, fr.c + 1),
                   Line("spawnfail", "", 0, 0, Head(s.faults), ""))
         ELSE LET p == Len(s.k) + 1
                  s1 == [s EXCEPT !.k = Append(@, [st |-> "run", ws |-> -1, par |-> 0, obeys |-> ob, dying |-> 0,
                                                   owner |-> i, stp |-> FALSE, rc |-> FALSE, rcv |-> 0, born |-> s.now * 100]),
                                  !.faults = IF @ = <<>> THEN @ ELSE Tail(@),
                                  !.fr[f].p = p, !.fr[f].a = NextWid(s, i)]
              IN Emit(Goto(s1, f, "2p"), Line("spawn", WN(s, i), p, IF ob THEN 1 ELSE 0, "", WL(s, i)))
    [] fr.pc = "2p" -> Goto([s EXCEPT !.ws[i].pr = Append(@, [p |-> fr.p, wid |-> fr.a])], f, "3")
    [] fr.pc = "3" -> CallHook(s, f, "4", i, "after_spawn", fr.p)
    [] fr.pc = "4" -> LET r == KidR(s, f) s1 == DropKids(s, f) IN
                      IF r = 0
                      THEN Call(s1, f, "4d", "kill_process", i, fr.p, s.ws[i].ssig, s.ws[i].G)
                      ELSE Emit(Ret(s1, f, 1), Line("ev", WL(s, i), fr.p, 0, "", "spawn"))
    [] fr.pc = "4d" ->     \* D3: the kill is NOT awaited and the pid is forgotten at once
         LET kid == LastKid(s, f)
             s1 == IF s.fr[kid].done THEN Free(s, {kid}) ELSE [s EXCEPT !.fr[kid].par = 0]
             s2 == [s1 EXCEPT !.fr[f].kids = <<>>]
         IN Ret(PrPop(s2, i, fr.p), f, 0)

\* ---- Watcher.spawn_processes()     fr.a = number still to spawn (the range is evaluated once)
P_spawn_processes(s, f) ==
  LET fr == s.fr[f] i == fr.w IN
  CASE fr.pc = "0" -> IF Pending(s, i) THEN Ret(SetSt(s, i, "stopped"), f, 1)      \* (whatever it still runs)
                      ELSE Goto(SetA(s, f, s.ws[i].np - Len(s.ws[i].pr)), f, "1")
    [] fr.pc = "1" -> IF fr.a <= 0 THEN Ret(s, f, 1) ELSE Call(s, f, "2", "spawn_process", i, 0, 0, 0)
    [] fr.pc = "2" -> LET r == KidR(s, f) s1 == DropKids(s, f) IN
                      IF r = 0 THEN Call(s1, f, "2a", "_stop", i, 0, 0, 0)
                      ELSE Sleep(SetA(s1, f, fr.a - 1), f, s.ws[i].W, "1")
    [] fr.pc = "2a" -> Await(s, f, "2b")
    [] fr.pc = "2b" -> Ret(DropKids(s, f), f, 1)

\* ---- Watcher._stop(close_output_streams)
P_stop(s, f) ==
  LET fr == s.fr[f] i == fr.w IN
  CASE fr.pc = "0" -> IF Stopped(s, i) THEN Ret(s, f, 1)
                      ELSE CallHook(SetSt(s, i, "stopping"), f, "1", i, "before_stop", 0)
    [] fr.pc = "1" -> Call(DropKids(s, f), f, "2", "kill_processes", i, 0, -1, -1)
    [] fr.pc = "2" -> Await(s, f, "3")
    [] fr.pc = "3" -> Call(DropKids(s, f), f, "4", "reap_processes", i, 0, 0, 0)
    [] fr.pc = "4" -> Emit(Goto(DropKids(s, f), f, "5"), Line("ev", WL(s, i), 0, 0, "", "stop"))
    [] fr.pc = "5" -> CallHook(SetSt(s, i, "stopped"), f, "6", i, "after_stop", 0)
    [] fr.pc = "6" -> Ret(DropKids(s, f), f, 1)

\* ---- Watcher._start()
P_start(s, f) ==
  LET fr == s.fr[f] i == fr.w wr == s.ws[i] IN
  CASE fr.pc = "0" ->
         IF Pending(s, i) THEN Ret(s, f, 1)
         ELSE IF ~Stopped(s, i)
         THEN IF Len(wr.pr) < wr.np THEN Call(s, f, "n1", "reap_processes", i, 0, 0, 0) ELSE Ret(s, f, 1)
         ELSE CallHook(s, f, "1", i, "before_start", 0)
    [] fr.pc = "n1" -> Call(DropKids(s, f), f, "n2", "spawn_processes", i, 0, 0, 0)
    [] fr.pc = "n2" -> Await(s, f, "n3")
    [] fr.pc = "n3" -> Ret(DropKids(s, f), f, 1)
    [] fr.pc = "1" -> LET r == KidR(s, f) s1 == DropKids(s, f) IN
                      IF r = 0 THEN Ret(s1, f, 1)
                      ELSE Call(SetSt(s1, i, "starting"), f, "2", "reap_processes", i, 0, 0, 0)
    [] fr.pc = "2" -> Call(DropKids(s, f), f, "3", "spawn_processes", i, 0, 0, 0)
    [] fr.pc = "3" -> Await(s, f, "4")
    [] fr.pc = "4" -> LET s1 == DropKids(s, f) IN
                      IF Len(wr.pr) = 0 THEN Goto(s1, f, "4s") ELSE CallHook(s1, f, "4h", i, "after_start", 0)
    [] fr.pc = "4h" -> LET r == KidR(s, f) s1 == DropKids(s, f) IN
                       IF r = 0 THEN Goto(s1, f, "4s") ELSE Goto(s1, f, "5")
    [] fr.pc = "4s" -> Call(s, f, "4t", "_stop", i, 0, 1, 0)
    [] fr.pc = "4t" -> Await(s, f, "4u")
    [] fr.pc = "4u" -> Ret(DropKids(s, f), f, 1)
    [] fr.pc = "5" -> Emit(Ret(SetSt(s, i, "active"), f, 1), Line("ev", WL(s, i), 0, 0, "", "start"))

\* ---- Watcher._restart()
P_restart(s, f) ==
  LET fr == s.fr[f] i == fr.w IN
  CASE fr.pc = "0" -> Call(s, f, "1", "_stop", i, 0, 0, 0)
    [] fr.pc = "1" -> Await(s, f, "2")
    [] fr.pc = "2" -> Call(DropKids(s, f), f, "3", "_start", i, 0, 0, 0)
    [] fr.pc = "3" -> Await(s, f, "4")
    [] fr.pc = "4" -> Ret(DropKids(s, f), f, 1)

\* ---- Watcher._reload(graceful, sequential)      fr.a = graceful, fr.b = sequential
P_reload(s, f) ==
  LET fr == s.fr[f] i == fr.w wr == s.ws[i] IN
  CASE fr.pc = "0" ->
         IF fr.a = 0 THEN Call(s, f, "r1", "_restart", i, 0, 0, 0)
         ELSE IF Stopped(s, i) THEN Call(s, f, "s1", "_start", i, 0, 0, 0)
         ELSE IF wr.hup THEN Goto(SetL(s, f, PidSeq(wr)), f, "h")
         ELSE IF fr.b = 1 THEN Goto(SetM(SetL(s, f, PidSeq(wr)), f, <<>>), f, "q0")
         ELSE Goto(SetC(s, f, wr.np), f, "g")
    [] fr.pc = "r1" -> Await(s, f, "r2")
    [] fr.pc = "r2" -> Ret(DropKids(s, f), f, 1)         \* no reload event on this path
    [] fr.pc = "s1" -> Await(s, f, "s2")
    [] fr.pc = "s2" -> Goto(DropKids(s, f), f, "9")
    [] fr.pc = "h" ->      \* process.send_signal(SIGHUP): no hook, no membership test
         IF fr.l = <<>> THEN Goto(s, f, "9")
         ELSE LET p == Head(fr.l) kr == KSignal(s, p, SIGHUP) IN
              IF kr[2] = "nsp"          \* a worker that is gone but still in the table: NoSuchProcess ends the reload
              THEN Emit(Ret(s, f, 3), Line("signal", "", p, SIGHUP, "nsp", ""))
              ELSE Emit(SetL(kr[1], f, Tail(fr.l)), Line("signal", "", p, SIGHUP, kr[2], ""))
    [] fr.pc = "q0" ->     \* active_processes = get_active_processes()
         IF fr.l = <<>> THEN Goto(s, f, "q1")
         ELSE LET p == Head(fr.l) st == KStatus(s, p) s1 == SetL(s, f, Tail(fr.l)) IN
              Emit(IF st = "run" THEN SetM(s1, f, Append(fr.m, p)) ELSE s1, Line("status", "", p, 0, st, ""))
    [] fr.pc = "q1" -> IF fr.m = <<>> THEN Goto(s, f, "9")
                       ELSE Call(s, f, "q2", "kill_process", i, Head(fr.m), wr.ssig, wr.G)
    [] fr.pc = "q2" -> Await(s, f, "q3")
    [] fr.pc = "q3" -> Call(DropKids(s, f), f, "q4", "reap_process", i, Head(fr.m), -1, 0)
    [] fr.pc = "q4" -> Call(DropKids(s, f), f, "q5", "spawn_process", i, 0, 0, 0)
    [] fr.pc = "q5" -> Sleep(SetM(DropKids(s, f), f, Tail(fr.m)), f, wr.W, "q1")
    [] fr.pc = "g" -> IF fr.c <= 0 THEN Call(DropKids(s, f), f, "g1", "manage_processes", i, 0, 0, 0)
                      ELSE Call(SetC(DropKids(s, f), f, fr.c - 1), f, "g", "spawn_process", i, 0, 0, 0)
    [] fr.pc = "g1" -> Await(s, f, "g2")
    [] fr.pc = "g2" -> Goto(DropKids(s, f), f, "9")
    [] fr.pc = "9" -> Emit(Ret(s, f, 1), Line("ev", WL(s, i), 0, 0, "", "reload"))

\* ---- Watcher.set_numprocesses(np)      fr.a = np
P_set_numprocesses(s, f) ==
  LET fr == s.fr[f] i == fr.w n == IF fr.a < 0 THEN 0 ELSE fr.a IN
  CASE fr.pc = "0" -> IF s.ws[i].sing /\ n > 1 THEN Ret(s, f, 3)
                      ELSE Call([s EXCEPT !.ws[i].np = n], f, "1", "manage_processes", i, 0, 0, 0)
    [] fr.pc = "1" -> Await(s, f, "2")
    [] fr.pc = "2" -> Ret(DropKids(s, f), f, 1)

---------------------------------------------------------------------------
\* ====================== arbiter, controller, synchronized() =====================
NW(s) == Len(s.ws)
\* iter_watchers(): sorted by priority, stable, descending (reverse=True keeps the order of equal keys)
RECURSIVE PrioSort(_, _, _)
PrioSort(s, S, desc) ==
  IF S = {} THEN <<>>
  ELSE LET best == CHOOSE i \in S : \A j \in S :
                      \/ (IF desc THEN s.cfg.ws[i].prio > s.cfg.ws[j].prio ELSE s.cfg.ws[i].prio < s.cfg.ws[j].prio)
                      \/ (s.cfg.ws[i].prio = s.cfg.ws[j].prio /\ i <= j)
       IN <<best>> \o PrioSort(s, S \ {best}, desc)
\* The arbiter keeps TWO structures (arbiter.py): the list `watchers` (s.wl: indices, in list order) and the
\* dict `_watchers_names` keyed by lower-cased name (s.wn: sequence of [k, i]); each is updated separately.
WatcherIdx(s) == SeqSet(s.wl)
\* a subset of the watchers handed to the arbiter-level operations (watcher_iter_func of a name pattern that matches
\* several): a bit mask over watcher indices, 0 = all of them
RECURSIVE MaskOf(_)
MaskOf(S) == IF S = {} THEN 0 ELSE LET i == CHOOSE x \in S : TRUE IN 2 ^ (i - 1) + MaskOf(S \ {i})
Sel(s, mask) == IF mask = 0 THEN WatcherIdx(s) ELSE { i \in WatcherIdx(s) : (mask \div 2 ^ (i - 1)) % 2 = 1 }
ByName(s, lname) == { e.i : e \in { x \in SeqSet(s.wn) : x.k = lname } }
\* observable watchers: the list, then dict-only entries, then watchers that were removed from the directory
\* but still have workers or an unfinished stop
DirSeq(s) == LET d == s.wl \o SelectSeq([j \in 1..Len(s.wn) |-> s.wn[j].i], LAMBDA i : i \notin SeqSet(s.wl)) IN
             d \o SelectSeq([i \in 1..Len(s.ws) |-> i],
                            LAMBDA i : i \notin SeqSet(d) /\ ~s.ws[i].rel /\ (s.ws[i].pr # <<>> \/ s.ws[i].st # "stopped"))

\* ---- Arbiter._start_watchers()
P_a_start(s, f) ==
  LET fr == s.fr[f] IN
  CASE fr.pc = "0" -> Goto(SetL(s, f, PrioSort(s, Sel(s, fr.p), TRUE)), f, "1")
    [] fr.pc = "1" -> IF fr.l = <<>> THEN Ret(s, f, 1)
                      ELSE IF s.cfg.ws[Head(fr.l)].auto THEN Call(s, f, "2", "_start", Head(fr.l), 0, 0, 0)
                      ELSE Goto(SetL(s, f, Tail(fr.l)), f, "1")
    [] fr.pc = "2" -> Await(s, f, "3")
    [] fr.pc = "3" -> Sleep(SetL(DropKids(s, f), f, Tail(fr.l)), f, s.cfg.wg, "1")

\* ---- Arbiter._stop_watchers(): every watcher's _stop is started (ascending priority), then all awaited
P_a_stop(s, f) ==
  LET fr == s.fr[f] IN
  CASE fr.pc = "0" -> Goto(SetL(s, f, PrioSort(s, Sel(s, fr.p), FALSE)), f, "1")
    [] fr.pc = "1" -> IF fr.l = <<>> THEN Await(s, f, "2")
                      ELSE Call(SetL(s, f, Tail(fr.l)), f, "1", "_stop", Head(fr.l), 0, fr.a, 0)
    [] fr.pc = "2" -> Ret(DropKids(s, f), f, 1)

\* ---- Arbiter.restart(inside_circusd=False) / _restart
P_a_restart(s, f) ==
  LET fr == s.fr[f] IN
  CASE fr.pc = "0" -> Call(s, f, "1", "a_stop", 0, fr.p, 0, 0)
    [] fr.pc = "1" -> Await(s, f, "2")
    [] fr.pc = "2" -> Call(DropKids(s, f), f, "3", "a_start", 0, fr.p, 0, 0)
    [] fr.pc = "3" -> Await(s, f, "4")
    [] fr.pc = "4" -> Ret(DropKids(s, f), f, 1)

\* ---- Arbiter.stop() (quit) and restart(inside_circusd=True): stop everything, then close the endpoints
\*      fr.a = 1: restarting
P_a_quit(s, f) ==
  LET fr == s.fr[f] IN
  CASE fr.pc = "0" -> Call([s EXCEPT !.stopping = TRUE, !.restarting = @ \/ fr.a = 1], f, "1", "a_stop", 0, 0, 1, 0)
    [] fr.pc = "1" -> Await(s, f, "2")
    [] fr.pc = "2" -> Ret(Enq(DropKids(s, f), [kind |-> "exit", f |-> 0, cid |-> "", mid |-> ""]), f, 1)

\* ---- Arbiter.reload(graceful, sequential)
P_a_reload(s, f) ==
  LET fr == s.fr[f] IN
  CASE fr.pc = "0" -> IF s.stopping THEN Ret(s, f, 1) ELSE Goto(SetL(s, f, PrioSort(s, WatcherIdx(s), TRUE)), f, "1")
    [] fr.pc = "1" -> IF fr.l = <<>> THEN Ret(s, f, 1)
                      ELSE Call(s, f, "2", "_reload", Head(fr.l), 0, fr.a, fr.b)
    [] fr.pc = "2" -> Await(s, f, "3")
    [] fr.pc = "3" ->      \* tornado_sleep(warmup_delay) is NOT awaited: a timer that wakes nobody (f = 0)
         Goto([SetL(DropKids(s, f), f, Tail(fr.l)) EXCEPT !.tm = @ \cup {[f |-> 0, due |-> s.now + s.cfg.wg]}], f, "1")

\* ---- Arbiter.manage_watchers() body (the synchronized wrapper is in P_periodic)
P_manage_watchers(s, f) ==
  LET fr == s.fr[f] IN
  CASE fr.pc = "0" -> IF s.stopping THEN Ret(s, f, 1)
                      ELSE \* reap_processes(): remember which pids belong to which non-stopped watcher NOW
                           Goto(SetM(s, f, [p \in 1..NP(s) |->
                                  IF \E i \in WatcherIdx(s) : s.ws[i].st # "stopped" /\ InPr(s.ws[i], p)
                                  THEN CHOOSE i \in WatcherIdx(s) : s.ws[i].st # "stopped" /\ InPr(s.ws[i], p)
                                  ELSE 0]), f, "1")
    [] fr.pc = "1" ->      \* os.waitpid(-1, WNOHANG)
         LET kids == { p \in 1..NP(s) : s.k[p].par = 0 /\ s.k[p].st # "reaped" }
             zs == { p \in kids : s.k[p].st = "zombie" } IN
         IF kids = {} THEN Emit(Goto(s, f, "2"), Line("waitany", "", 0, 0, "echild", ""))
         ELSE IF zs = {} THEN Emit(Goto(s, f, "2"), Line("waitany", "", 0, 0, "none", ""))
         ELSE LET p == Min(zs) s1 == [s EXCEPT !.k[p].st = "reaped"] IN
              Emit(IF p <= Len(fr.m) /\ fr.m[p] # 0
                   THEN Goto([s1 EXCEPT !.fr[f].p = p, !.fr[f].a = s.k[p].ws], f, "1r") ELSE s1,
                   Line("waitany", "", p, s.k[p].ws, "pid", ""))
    [] fr.pc = "1r" -> Call(s, f, "1d", "reap_process", fr.m[fr.p], fr.p, fr.a, 0)
    [] fr.pc = "1d" -> Goto(DropKids(s, f), f, "1")
    [] fr.pc = "2" -> Goto([SetL(s, f, PrioSort(s, WatcherIdx(s), TRUE)) EXCEPT !.fr[f].b = 0], f, "3")
    [] fr.pc = "3" -> IF fr.l = <<>> THEN Await(s, f, "4")
                      ELSE LET i == Head(fr.l)      \* need_on_demand: an on_demand watcher that is stopped right now
                               s1 == IF s.ws[i].od /\ Stopped(s, i) THEN [s EXCEPT !.fr[f].b = 1] ELSE s IN
                           Call(SetL(s1, f, Tail(fr.l)), f, "3", "manage_processes", i, 0, 0, 0)
    [] fr.pc = "4" -> IF fr.b = 0 THEN Ret(DropKids(s, f), f, 1)
                      ELSE \* select() on the managed sockets, zero timeout
                           Emit(Goto(DropKids(s, f), f, IF s.sockready THEN "5" ELSE "7"),
                                Line("select", "", 0, 0, IF s.sockready THEN "ready" ELSE "none", ""))
    \* as first coded (D13): socket_event = True; self._start_watchers() -- ALL watchers, NOT awaited --; socket_event =
    \* False.  As repaired: the on_demand watchers only, awaited, the flag up for as long as that takes.
    [] fr.pc = "5" -> IF Dev_SocketEventStartsAll
                      THEN Call([s EXCEPT !.sockev = TRUE], f, "6", "a_start", 0, 0, 0, 0)
                      ELSE Call([s EXCEPT !.sockev = TRUE], f, "6", "a_start", 0,
                                MaskOf({ i \in WatcherIdx(s) : s.ws[i].od }), 0, 0)
    [] fr.pc = "6" -> IF Dev_SocketEventStartsAll
                      THEN LET kid == LastKid(s, f)
                               s1 == IF s.fr[kid].done THEN Free(s, {kid}) ELSE [s EXCEPT !.fr[kid].par = 0] IN
                           Ret([s1 EXCEPT !.sockev = FALSE, !.fr[f].kids = <<>>], f, 1)
                      ELSE Await(s, f, "6b")
    [] fr.pc = "6b" -> Ret([DropKids(s, f) EXCEPT !.sockev = FALSE], f, 1)
    [] fr.pc = "7" -> Ret(s, f, 1)

ReleaseCb == [kind |-> "release", f |-> 0, cid |-> "", mid |-> ""]
\* util.synchronized: attach the release to the future, or release at once when the call completed synchronously
SyncRelease(s, kid) == IF s.fr[kid].done THEN [s EXCEPT !.slot = ""]
                       ELSE [s EXCEPT !.fr[kid].cbs = Append(@, ReleaseCb)]
PeriodNext(s) == IF s.pdue <= s.now THEN s.pdue + (((s.now - s.pdue) \div s.cfg.cd) + 1) * s.cfg.cd
                 ELSE s.pdue + s.cfg.cd

\* ---- PeriodicCallback._run -> synchronized("manage_watchers")(manage_watchers)
P_periodic(s, f) ==
  LET fr == s.fr[f] IN
  CASE fr.pc = "0" -> IF Refused(s) THEN Goto(s, f, "2")        \* ConflictError, logged
                      ELSE Call([s EXCEPT !.slot = "manage_watchers"], f, "1", "manage_watchers", 0, 0, 0, 0)
    [] fr.pc = "1" -> Await(SyncRelease(s, LastKid(s, f)), f, "2")
    [] fr.pc = "2" ->      \* _schedule_next.  tornado computes floor((now - due) / period) in floats: when the
                           \* pass ended an exact multiple of the period late, rounding decides between "now" and
                           \* "one period from now" -- both happen (pjit lets the environment pick the early one)
         Ret([DropKids(s, f) EXCEPT !.pnext = PeriodNext(s), !.pdue = PeriodNext(s),
                                    !.pjit = s.now > s.pdue /\ (s.now - s.pdue) % s.cfg.cd = 0], f, 1)

\* ---- the generic exclusive operation frame: fr.nm = which, runs the underlying coroutine and relays its result
OpTarget(s, fr) ==
  CASE fr.nm = "start" -> <<"_start", fr.w, 0, 0, 0>>
    [] fr.nm = "stop" -> <<"_stop", fr.w, 1, 0, 0>>
    [] fr.nm = "restart" -> <<"_restart", fr.w, 0, 0, 0>>
    [] fr.nm = "reload" -> <<"_reload", fr.w, fr.a, fr.b, 0>>
    [] fr.nm = "incr" -> <<"set_numprocesses", fr.w, s.ws[fr.w].np + fr.a, 0, 0>>
    [] fr.nm = "decr" -> <<"set_numprocesses", fr.w, s.ws[fr.w].np - fr.a, 0, 0>>
    [] fr.nm = "do_action" -> IF fr.a = 0 THEN <<"manage_processes", fr.w, 0, 0, 0>>
                              ELSE <<"_reload", fr.w, 1, 0, 0>>        \* graceful, not sequential
    [] fr.nm = "a_start" -> <<"a_start", 0, 0, 0, fr.p>>
    [] fr.nm = "a_stop" -> <<"a_stop", 0, 0, 0, fr.p>>
    [] fr.nm = "a_restartw" -> <<"a_restart", 0, 0, 0, fr.p>>      \* Arbiter.restart(watcher_iter_func): stop them, start them
    [] fr.nm = "a_restart" -> <<"a_quit", 0, 1, 0, 0>>
    [] fr.nm = "a_reload" -> <<"a_reload", 0, fr.a, fr.b, 0>>
    [] fr.nm = "quit" -> <<"a_quit", 0, 0, 0, 0>>
    [] fr.nm = "reloadconfig" -> <<"reloadcfg", 0, 0, 0, 0>>
P_op(s, f) ==
  LET fr == s.fr[f] IN
  CASE fr.pc = "0" -> IF fr.nm = "do_action" /\ fr.a # 0 /\ s.ws[fr.w].st = "stopped" THEN Ret(s, f, 1)
                      ELSE LET t == OpTarget(s, fr) IN Call(s, f, "1", t[1], t[2], t[5], t[3], t[4])
    [] fr.pc = "1" -> Await(s, f, "2")
    [] fr.pc = "2" -> LET r == KidR(s, f) IN Ret(DropKids(s, f), f, r)

\* ---- commands/kill.py Kill.execute (a coroutine, NOT exclusive)     fr.a = signum or -1, fr.b = polls or -1,
\*      fr.p = pid filter or -1
P_cmd_kill(s, f) ==
  LET fr == s.fr[f] i == fr.w
      sig == IF fr.a = -1 THEN s.ws[i].ssig ELSE fr.a
      G   == IF fr.b = -1 THEN s.ws[i].G ELSE fr.b IN
  CASE fr.pc = "0" -> Goto(SetM(SetL(s, f, PidSeq(s.ws[i])), f, <<>>), f, "1")
    [] fr.pc = "1" ->
         IF fr.l = <<>> THEN Goto(SetM(s, f, SelectSeq(fr.m, LAMBDA p : fr.p < 1 \/ p = fr.p)), f, "2")
         ELSE LET p == Head(fr.l) st == KStatus(s, p) s1 == SetL(s, f, Tail(fr.l)) IN
              Emit(IF st = "run" THEN SetM(s1, f, Append(fr.m, p)) ELSE s1, Line("status", "", p, 0, st, ""))
    [] fr.pc = "2" -> IF fr.m = <<>> THEN Await(s, f, "3")
                      ELSE Call(SetM(s, f, Tail(fr.m)), f, "2", "kill_process", i, Head(fr.m), sig, G)
    [] fr.pc = "3" -> Ret(DropKids(s, f), f, 1)

\* ---- commands/sendsignal.py Signal.execute (synchronous)   fr.a = signum, fr.p = pid or -1,
\*      fr.b = 0 plain / 1 children / 2 recursive / 3 childpid (fr.r holds the child pid)
P_cmd_signal(s, f) ==
  LET fr == s.fr[f] i == fr.w IN
  CASE fr.pc = "0" -> IF fr.p # -1 THEN Goto(SetL(s, f, <<fr.p>>), f, "2")
                      ELSE Goto(SetM(SetL(s, f, PidSeq(s.ws[i])), f, <<>>), f, "1")
    [] fr.pc = "1" ->      \* get_active_pids()
         IF fr.l = <<>> THEN Goto(SetL(s, f, fr.m), f, "2")
         ELSE LET p == Head(fr.l) st == KStatus(s, p) s1 == SetL(s, f, Tail(fr.l)) IN
              Emit(IF st = "run" THEN SetM(s1, f, Append(fr.m, p)) ELSE s1, Line("status", "", p, 0, st, ""))
    [] fr.pc = "2" -> IF fr.l = <<>> THEN Ret(DropKids(s, f), f, 1)
                      ELSE IF fr.b = 0 \/ fr.b = 2
                      THEN Call(DropKids(s, f), f, IF fr.b = 2 THEN "2c" ELSE "2n", "send_signal", i, Head(fr.l), fr.a, 0)
                      ELSE Goto(s, f, "2c")
    [] fr.pc = "2n" -> IF KidR(s, f) \in {2, 3} THEN Ret(DropKids(s, f), f, 3)
                       ELSE Goto(SetL(DropKids(s, f), f, Tail(fr.l)), f, "2")
    [] fr.pc = "2c" ->     \* recursive: after the worker itself; children: instead of it; childpid: that child only
         IF fr.b = 2 /\ KidR(s, f) = 2 THEN Ret(DropKids(s, f), f, 3)
         ELSE Call(DropKids(s, f), f, "2n", "send_signal_children", i, Head(fr.l), fr.a,
                   IF fr.b = 2 THEN 1 ELSE IF fr.b = 3 THEN 2 + s.creq.childpid ELSE 0)

\* ---- Watcher.send_signal_children(pid, signum, recursive) -> Process.send_signal_children       (fr.b \in {0, 1})
\*      Watcher.send_signal_child(pid, child, signum) -> Process.send_signal_child                 (fr.b = 2 + child)
\*      self.processes[pid]: KeyError for a pid the watcher does not track; psutil.NoSuchProcess (listing a reaped
\*      worker, a child that is gone, a child pid that is not a child) is not an OSError and escapes: result 3
P_send_signal_children(s, f) ==
  LET fr == s.fr[f] IN
  CASE fr.pc = "0" ->
         IF ~InPr(s.ws[fr.w], fr.p) THEN Ret(s, f, 3)
         ELSE IF s.k[fr.p].st = "reaped"
         THEN Emit(Ret(s, f, 3), Line("children", "", fr.p, 0, "nsp", ""))
         ELSE LET cl == IF s.k[fr.p].st = "run" THEN DescSeq(s, <<fr.p>>, fr.b = 1) ELSE <<>>
                  one == fr.b - 2 IN
              IF fr.b < 2 THEN Emit(Goto(SetL(s, f, cl), f, "1"), Line("children", "", fr.p, Len(cl), "ok", ""))
              ELSE IF one \in SeqSet(cl)
              THEN Emit(Goto(SetL(s, f, <<one>>), f, "1"), Line("children", "", fr.p, Len(cl), "ok", ""))
              ELSE Emit(Ret(s, f, 3), Line("children", "", fr.p, Len(cl), "ok", ""))
    [] fr.pc = "1" ->
         IF fr.l = <<>> THEN Ret(s, f, 1)
         ELSE LET c == Head(fr.l) IN
              IF s.k[c].st = "reaped" THEN Emit(Ret(s, f, 3), Line("csignal", "", c, fr.a, "nsp", ""))
              ELSE Emit(SetL(Deliver(s, c, fr.a, FALSE), f, Tail(fr.l)), Line("csignal", "", c, fr.a, "ok", ""))

\* send_response: nothing is sent for a request that came from the signal handler (cid None)
Reply(s, cid, mid, status, errno) == IF cid = "" THEN s ELSE Emit(s, Line("reply", mid, 0, errno, status, cid))

\* ---- Controller.dispatch for the request s.creq      (errno: 3 MESSAGE_ERROR, 5 COMMAND_ERROR)
\* (one: the request names exactly one watcher, possibly through a pattern; a pattern that matches several watchers
\*  goes to the arbiter-level function with a watcher_iter_func over the matches)
ExclSlot(q, one) ==
  CASE q.cmd = "start" -> IF one THEN "watcher_start" ELSE "arbiter_start_watchers"
    [] q.cmd = "stop" -> IF one THEN "watcher_stop" ELSE "arbiter_stop_watchers"
    [] q.cmd = "restart" -> IF one THEN "watcher_restart" ELSE "arbiter_restart"
    [] q.cmd = "reload" -> IF q.hasname THEN "watcher_reload" ELSE "arbiter_reload"
    [] q.cmd = "incr" -> "watcher_incr"
    [] q.cmd = "decr" -> "watcher_decr"
    [] q.cmd = "set" -> "watcher_set_opt"
    [] q.cmd = "quit" -> "arbiter_stop"
    [] q.cmd = "reloadconfig" -> "arbiter_reload_config"
    [] OTHER -> ""
OpName(q, one) ==
  CASE q.cmd \in {"start", "stop"} -> IF one THEN q.cmd ELSE "a_" \o q.cmd
    [] q.cmd = "reload" -> IF q.hasname THEN q.cmd ELSE "a_" \o q.cmd
    [] q.cmd = "restart" -> IF one THEN "restart" ELSE IF q.hasname THEN "a_restartw" ELSE "a_restart"
    [] OTHER -> q.cmd
GotoZ(s, f, v) == Goto(s, f, "z")
\* the options of a `set` request as the model sees them: k \in {"np", "G" (polls), "W" (ticks), "ssig", "sch", "hup",
\* "mage" (max_age in ticks; a reload afterwards), "act1" (cmd, args, env, working_dir, shell ...: nothing the model
\* holds, but a reload afterwards),
\* "noop" (an option set_opt has no branch for)};  without the list: numprocesses = q.nb
SetOpts(q) == IF q.opts # <<>> THEN q.opts ELSE <<[k |-> "np", v |-> q.nb]>>
ApplyOpt(wr, o) ==
  CASE o.k = "np" -> [wr EXCEPT !.np = IF o.v < 0 THEN 0 ELSE o.v]
    [] o.k = "G" -> [wr EXCEPT !.G = o.v]
    [] o.k = "W" -> [wr EXCEPT !.W = o.v]
    [] o.k = "ssig" -> [wr EXCEPT !.ssig = o.v]
    [] o.k = "sch" -> [wr EXCEPT !.sch = (o.v = 1)]
    [] o.k = "hup" -> [wr EXCEPT !.hup = (o.v = 1)]
    [] o.k = "mage" -> [wr EXCEPT !.mage = o.v]
    [] OTHER -> wr
P_req(s, f) ==
  LET fr == s.fr[f] q == s.creq cid == fr.nm
      \* start / stop / restart match the name as a glob against the LIST of watchers (q.matches: the lower-cased
      \* names the pattern matches, worked out by the recorder with fnmatch); everything else looks the name up
      pat == q.pattern /\ q.cmd \in {"start", "stop", "restart"}
      ws == IF pat THEN { j \in WatcherIdx(s) : WL(s, j) \in SeqSet(q.matches) } ELSE ByName(s, q.lname)
      i == IF ws = {} THEN 0 ELSE Min(ws)
      one == q.hasname /\ ~(pat /\ Cardinality(ws) > 1) IN
  CASE fr.pc = "0" ->
         IF q.cmd = "add" THEN Goto(s, f, "d")
         ELSE IF q.cmd = "signal" /\ q.childpid # -1 /\ q.pid = -1           \* Signal.validate: ArgumentError
         THEN Reply(Goto(s, f, "z"), cid, q.mid, "error", 5)
         ELSE IF q.hasname /\ ws = {} THEN Reply(Goto(s, f, "z"), cid, q.mid, "error", 3)
         ELSE IF q.cmd = "list" /\ q.hasname THEN Goto(SetL(s, f, PidSeq(s.ws[i])), f, "rl")
         ELSE IF q.cmd = "stats"
         THEN LET RECURSIVE Cat(_)
                  Cat(is) == IF is = <<>> THEN <<>> ELSE PidSeq(s.ws[Head(is)]) \o Cat(Tail(is))
                  all == s.wl
              IN Goto(SetL(s, f, IF q.hasname THEN PidSeq(s.ws[i]) ELSE Cat(all)), f, "rs")
         ELSE IF q.cmd \in {"status", "numprocesses", "list", "numwatchers", "options"}
         THEN Reply(Goto(s, f, "z"), cid, q.mid, IF q.cmd = "status" /\ q.hasname THEN s.ws[i].st ELSE "ok", 0)
         \* get <name> <keys>, globaloptions [option], listsockets: read-only; an unknown key / option is a MessageError
         ELSE IF q.cmd \in {"get", "globaloptions", "listsockets"}
         THEN IF q.rovalid THEN Reply(Goto(s, f, "z"), cid, q.mid, "ok", 0)
              ELSE Reply(Goto(s, f, "z"), cid, q.mid, "error", 3)
         ELSE IF q.cmd \in {"add", "rm"} THEN Goto(s, f, "d")
         ELSE IF q.cmd \notin {"incr", "decr", "kill", "signal", "start", "stop", "restart", "reload", "set", "quit",
                               "reloadconfig"}
         THEN Reply(Goto(s, f, "z"), cid, q.mid, "error", 2)          \* unknown command
         ELSE IF q.cmd \in {"incr", "decr"} /\ s.ws[i].sing THEN Reply(Goto(s, f, "z"), cid, q.mid, "ok", 0)
         ELSE IF q.cmd = "kill" THEN Call(s, f, "k2", "cmd_kill", i, q.pid, q.signum, q.G)
         ELSE IF q.cmd = "signal" THEN Call(s, f, "g1", "cmd_signal", i, q.pid, q.signum,
                                            IF q.childpid # -1 THEN 3 ELSE IF q.children THEN 1
                                            ELSE IF q.recursive THEN 2 ELSE 0)
         ELSE Goto(s, f, "x")
    [] fr.pc = "rl" ->     \* list <name>: get_active_processes() reads every worker's status
         IF fr.l = <<>> THEN Goto(SetM(SetL(s, f, fr.m), f, <<>>), f, "rl2")
         ELSE LET p == Head(fr.l) st == KStatus(s, p) s1 == SetL(s, f, Tail(fr.l)) IN
              Emit(IF st = "run" THEN SetM(s1, f, Append(fr.m, p)) ELSE s1, Line("status", "", p, 0, st, ""))
    [] fr.pc = "rl2" ->    \* ... and once more for the debug log line
         IF fr.l = <<>> THEN Reply(Goto(s, f, "z"), cid, q.mid, "ok", 0)
         ELSE Emit(SetL(s, f, Tail(fr.l)), Line("status", "", Head(fr.l), 0, KStatus(s, Head(fr.l)), ""))
    [] fr.pc = "rs" ->     \* stats: Process.info() lists the children of every worker that still exists
         IF fr.l = <<>> THEN Reply(Goto(s, f, "z"), cid, q.mid, "ok", 0)
         ELSE IF s.k[Head(fr.l)].st = "run"
         THEN Emit(SetL(s, f, Tail(fr.l)), Line("children", "", Head(fr.l), Cardinality(LiveChildren(s, Head(fr.l))), "ok", ""))
         ELSE Goto(SetL(s, f, Tail(fr.l)), f, "rs")
    [] fr.pc = "k2" ->
         LET kid == LastKid(s, f) IN
         IF q.waiting
         THEN IF s.fr[kid].done
              THEN GotoZ(Enq([s EXCEPT !.fr[f].kids = <<>>],
                           [kind |-> "reply", f |-> kid, cid |-> cid, mid |-> q.mid]), f, 1)
              ELSE GotoZ([s EXCEPT !.fr[kid].cbs = Append(@, [kind |-> "reply", f |-> kid, cid |-> cid, mid |-> q.mid]),
                                 !.fr[kid].par = 0, !.fr[f].kids = <<>>], f, 1)
         ELSE Reply(GotoZ(IF s.fr[kid].done THEN DropKids(s, f)
                        ELSE [s EXCEPT !.fr[kid].par = 0, !.fr[f].kids = <<>>], f, 1), cid, q.mid, "ok", 0)
    [] fr.pc = "g1" -> LET r == KidR(s, f) IN
                       IF r = 3 THEN Reply(Goto(DropKids(s, f), f, "z"), cid, q.mid, "error", 5)
                       ELSE Reply(Goto(DropKids(s, f), f, "z"), cid, q.mid, "ok", 0)
    [] fr.pc = "d" ->      \* add / rm: Arbiter.add_watcher / rm_watcher, both synchronized
         \* endpoint-owner mode (ipc endpoint + endpoint_owner): AddWatcher.execute refuses, before anything else, an add
         \* whose `uid` option is not the endpoint owner (MessageError)
         IF q.cmd = "add" /\ ("eom" \in DOMAIN s.cfg /\ s.cfg.eom) /\ q.adduid # "owner"
         THEN Reply(GotoZ(s, f, 0), cid, q.mid, "error", 3)
         ELSE IF Refused(s) THEN Reply(GotoZ(s, f, 0), cid, q.mid, "error", 5)
         ELSE IF q.cmd = "rm"
         THEN CallN(SetA([s EXCEPT !.slot = "arbiter_rm_watcher"], f, i), f, "x3", "rm", i, 0, IF q.nostop THEN 1 ELSE 0, 0, "")
         ELSE IF ByName(s, q.lname) # {} THEN Reply(GotoZ(s, f, 0), cid, q.mid, "error", 5)      \* AlreadyExist
         ELSE IF q.name = ""
         THEN \* D9: `return ValueError(...)` instead of raise: nothing is added ...
              IF q.start \/ ~Dev_AddEmptyNameReturns
              THEN Reply(GotoZ(s, f, 0), cid, q.mid, "error", 5)      \* ... and .start() on it fails / it is raised
              ELSE Reply(GotoZ(s, f, 1), cid, q.mid, "ok", 0)          \* ... but the reply says ok
         ELSE IF q.addsing /\ q.addnp > 1 THEN Reply(GotoZ(s, f, 0), cid, q.mid, "error", 5)
         ELSE LET n == NW(s) + 1
                  wc == [n |-> q.name, ln |-> q.lname, np |-> q.addnp, G |-> q.addG, W |-> q.addW, sing |-> q.addsing,
                         resp |-> TRUE, auto |-> TRUE, prio |-> 0, ssig |-> SIGTERM, sch |-> FALSE, hup |-> FALSE,
                         hooks |-> <<>>, retry |-> 5, ver |-> 1]
                  wr == [st |-> "stopped", rel |-> FALSE, np |-> q.addnp, pr |-> <<>>, sing |-> q.addsing, resp |-> TRUE, od |-> FALSE,
                         G |-> q.addG, W |-> q.addW, ssig |-> SIGTERM, sch |-> FALSE, hup |-> FALSE, mage |-> 0]
                  s1 == [s EXCEPT !.cfg.ws = Append(@, wc), !.ws = Append(@, wr), !.wl = Append(@, n),
                                  !.wn = Append(@, [k |-> q.lname, i |-> n])]
              IN Emit(Goto(SetA([s1 EXCEPT !.slot = "arbiter_add_watcher"], f, n), f, IF q.start THEN "d2" ELSE "d1"),
                      Line("ev", q.lname, 0, 0, "", "add"))
    [] fr.pc = "d1" -> Reply(GotoZ([s EXCEPT !.slot = ""], f, 1), cid, q.mid, "ok", 0)
    [] fr.pc = "d2" -> CallN([s EXCEPT !.slot = "watcher_start"], f, "x3", "op", fr.a, 0, 0, 0, "start")
    [] fr.pc = "x" ->      \* exclusive commands: util.synchronized
         IF Refused(s) THEN Reply(Goto(s, f, "z"), cid, q.mid, "error", 5)
         ELSE IF q.cmd = "set"
         THEN Goto([SetL(s, f, SetOpts(q)) EXCEPT !.fr[f].b = 0], f, "xs")
         ELSE CallN([s EXCEPT !.slot = ExclSlot(q, one)], f, "x3", "op", i, IF q.hasname /\ ~one THEN MaskOf(ws) ELSE 0,
                    IF q.cmd \in {"incr", "decr"} THEN q.nb ELSE IF q.graceful THEN 1 ELSE 0,
                    IF q.sequential THEN 1 ELSE 0, OpName(q, one))
    [] fr.pc = "xs" ->     \* Set.execute: Watcher.set_opt(key, val) per option, in the order of the options object; each call
                           \* is synchronized("watcher_set_opt") by itself and announces `updated`; fr.b = action so far
         IF fr.l = <<>> THEN Goto(s, f, "x2")
         ELSE LET o == Head(fr.l) IN
              IF o.k = "np" /\ s.ws[i].sing /\ o.v > 1            \* ValueError, after the earlier options were applied (D7)
              THEN Reply(Goto([s EXCEPT !.slot = ""], f, "z"), cid, q.mid, "error", 5)
              ELSE Emit(Goto([SetL(s, f, Tail(fr.l)) EXCEPT !.slot = "watcher_set_opt", !.ws[i] = ApplyOpt(@, o),
                                                           !.fr[f].b = IF o.k \in {"act1", "mage"} THEN 1 ELSE fr.b], f, "xs"),
                        Line("ev", WL(s, i), 0, 0, "", "updated"))
    [] fr.pc = "x2" -> CallN([s EXCEPT !.slot = "watcher_do_action"], f, "x3", "op", i, 0, fr.b, 0, "do_action")
    [] fr.pc = "x3" ->
         LET kid == LastKid(s, f)
             s1 == SyncRelease(s, kid)
             det(ss) == [ss EXCEPT !.fr[kid].par = 0, !.fr[f].kids = <<>>] IN
         \* (an operation is a coroutine: what it raises, even before its first yield, is in its future; the
         \*  controller learns of it in the done-callback, and only a waiting client is told: errno 6)
         IF q.waiting
         THEN IF s.fr[kid].done
              THEN GotoZ(Enq([s1 EXCEPT !.fr[f].kids = <<>>],
                           [kind |-> "reply", f |-> kid, cid |-> cid, mid |-> q.mid]), f, 1)
              ELSE GotoZ(det([s1 EXCEPT !.fr[kid].cbs = Append(@, [kind |-> "reply", f |-> kid, cid |-> cid,
                                                                   mid |-> q.mid])]), f, 1)
         ELSE Reply(Goto(IF s.fr[kid].done THEN DropKids(s1, f) ELSE det(s1), f, "z"), cid, q.mid, "ok", 0)
    [] fr.pc = "z" ->      \* handle_message returns (the recorder marks the end of the synchronous handling)
         LET s1 == IF q.cmd = "rm" /\ q.nostop /\ fr.a >= 1 /\ fr.a \notin SeqSet(s.wl)
                   THEN [s EXCEPT !.ws[fr.a].rel = TRUE] ELSE s IN      \* released workers leave the observation
         IF cid = "" THEN Ret(s1, f, 1) ELSE Emit(Ret(s1, f, 1), Line("reqend", "", 0, 0, "", cid))

---------------------------------------------------------------------------
\* ====================== the step relation =====================
P_exit(s, f) ==          \* Arbiter.stop_controller_and_close_sockets
  LET fr == s.fr[f] IN
  CASE fr.pc = "0" -> IF s.exited THEN Ret(s, f, 1)       \* (a second quit finds everything closed already)
                      ELSE Emit(Goto([s EXCEPT !.exited = TRUE, !.pnext = -1], f, "1"), Line("close", "", 0, 0, "", "ctrl"))
    [] fr.pc = "1" -> Emit(Goto(s, f, "2"), Line("close", "", 0, 0, "", "router"))
    [] fr.pc = "2" -> Emit(Ret(s, f, 1), Line("close", "", 0, 0, "", "pub"))

\* ---- Arbiter.rm_watcher(name, nostop)      fr.a = nostop
P_rm(s, f) ==
  LET fr == s.fr[f] i == fr.w IN
  CASE fr.pc = "0" ->      \* pop from the dict, announce, delete from the list
         Emit(Goto([s EXCEPT !.wn = SelectSeq(@, LAMBDA e : e.k # WL(s, i))], f, "1"), Line("ev", WL(s, i), 0, 0, "", "remove"))
    [] fr.pc = "1" -> LET s1 == [s EXCEPT !.wl = SelectSeq(@, LAMBDA j : j # i)] IN
                      IF fr.a = 1 THEN Ret(s1, f, 1)      \* nostop: the workers are released (see P_req "z")
                      ELSE Call(s1, f, "2", "_stop", i, 0, 0, 0)
    [] fr.pc = "2" -> Await(s, f, "3")
    [] fr.pc = "3" -> Ret(DropKids(s, f), f, 1)

\* ---- Arbiter.reload_from_config()   (the [circus] section and the sockets are held fixed)
\*      q.file: the watcher sections of the file as it is now, in file order: records with the fields of a
\*      configuration record (n, ln, np, ver, G, W, sing, prio, auto, resp, ssig, sch, hup, retry; ver stands for
\*      every key the model holds no word for: cmd, args, env ...).
\*      The three loops run over Python SETS of names: their order is whatever the hash table says.  The recorder
\*      logs every get_watcher / get_watcher_config call of the function (`selw` / `selc` lines) and q.plan
\*      (chg, del, add) is read off those lines (TraceCore.PlanOf); the model emits the same lines, so a name
\*      processed in a loop where the model does not expect it is a divergence.
\*      fr.l = names still to do in the current loop, fr.m = [file, plan, chg: names found changed], fr.a = index of the
\*      watcher being added
FileNames(q) == [j \in 1..Len(q.file) |-> q.file[j].ln]
FileRec(q, n) == q.file[CHOOSE j \in 1..Len(q.file) : q.file[j].ln = n]
CfgSame(c, r) == /\ c.ver = r.ver /\ c.G = r.G /\ c.W = r.W /\ c.sing = r.sing /\ c.prio = r.prio /\ c.auto = r.auto
                 /\ c.resp = r.resp /\ c.ssig = r.ssig /\ c.sch = r.sch /\ c.hup = r.hup /\ c.retry = r.retry
OrderBy(S, pref, base) ==
  LET rest == SelectSeq([j \in 1..Len(base) |-> j],
                        LAMBDA j : base[j] \in S /\ base[j] \notin SeqSet(pref) /\ \A i \in 1..(j - 1) : base[i] # base[j])
  IN SelectSeq(pref, LAMBDA x : x \in S) \o [j \in 1..Len(rest) |-> base[rest[j]]]
P_reloadcfg(s, f) ==
  LET fr == s.fr[f]
      \* the request is copied into the frame at the first step: other requests arrive while this one is under way
      q == IF fr.pc = "0" THEN s.creq ELSE fr.m
      cur == [j \in 1..Len(s.wl) |-> WL(s, s.wl[j])]            \* iter_watchers(): the list
      base == cur \o FileNames(q)
      idx(n) == Min(ByName(s, n))                                \* get_watcher(n): the dict
  IN
  CASE fr.pc = "0" ->
         \* the [circus] section of the file is not what the arbiter was booted with: "reload everything" = stop all
         \* watchers, start all watchers (outside circusd), and nothing else - the watcher sections are not looked at,
         \* and the arbiter's own settings stay as they were, so every later reloadconfig does the same again
         IF q.arbchg THEN Call(SetM(s, f, [file |-> q.file, plan |-> q.plan, chg |-> <<>>]), f, "r1", "a_restart", 0, 0, 0, 0)
         ELSE
         Goto(SetM(SetL(s, f, OrderBy(SeqSet(cur) \cap SeqSet(FileNames(q)), q.plan.chg, base)), f,
                   [file |-> q.file, plan |-> q.plan, chg |-> <<>>]), f, "c1")
    [] fr.pc = "r1" -> Await(s, f, "r2")
    [] fr.pc = "r2" -> Ret(DropKids(s, f), f, 1)
    \* -- for n in maybechanged_wn
    [] fr.pc = "c1" -> IF fr.l = <<>> THEN Goto(s, f, "d0")
                       ELSE Emit(Goto(s, f, "c2"), Line("selw", Head(fr.l), 0, 0, "", ""))
    [] fr.pc = "c2" -> Emit(Goto(s, f, "c3"), Line("selc", Head(fr.l), 0, 0, "", ""))
    [] fr.pc = "c3" ->
         LET n == Head(fr.l) i == idx(n) c == s.cfg.ws[i] r == FileRec(q, n) IN
         IF ~CfgSame(c, r) THEN Goto(SetM(SetL(s, f, Tail(fr.l)), f, [fr.m EXCEPT !.chg = Append(@, n)]), f, "c1")   \* delete + add
         ELSE IF c.np # r.np THEN Call(s, f, "c4", "set_numprocesses", i, 0, r.np, 0)
         ELSE Goto(SetL(s, f, Tail(fr.l)), f, "c1")
    [] fr.pc = "c4" -> Await(s, f, "c5")
    [] fr.pc = "c5" ->
         LET n == Head(fr.l) i == idx(n) r == FileRec(q, n) IN
         IF KidR(s, f) = 3 THEN Ret(DropKids(s, f), f, 3)
         ELSE Goto(SetL([DropKids(s, f) EXCEPT !.cfg.ws[i].np = r.np], f, Tail(fr.l)), f, "c1")      \* (as repaired: c69ce93)
    \* -- for n in deleted_wn: stop it, then take it out of the dict and the list
    [] fr.pc = "d0" ->
         Goto(SetL(s, f, OrderBy((SeqSet(cur) \ SeqSet(FileNames(q))) \cup SeqSet(fr.m.chg), q.plan.del, base)), f, "d1")
    [] fr.pc = "d1" -> IF fr.l = <<>> THEN Goto(s, f, "a0")
                       ELSE Emit(Goto(s, f, "d2"), Line("selw", Head(fr.l), 0, 0, "", ""))
    [] fr.pc = "d2" -> Call(s, f, "d3", "_stop", idx(Head(fr.l)), 0, 0, 0)
    [] fr.pc = "d3" -> Await(s, f, "d4")
    [] fr.pc = "d4" ->
         LET n == Head(fr.l) i == idx(n) IN
         Goto(SetL([DropKids(s, f) EXCEPT !.wn = SelectSeq(@, LAMBDA e : e.k # n),
                                          !.wl = SelectSeq(@, LAMBDA j : j # i)], f, Tail(fr.l)), f, "d1")
    \* -- for n in added_wn: build it, start it (and wait out the global warm-up), only then register it
    [] fr.pc = "a0" ->
         Goto(SetL(s, f, OrderBy((SeqSet(FileNames(q)) \ SeqSet(cur)) \cup SeqSet(fr.m.chg), q.plan.add, base)), f, "a1")
    [] fr.pc = "a1" -> IF fr.l = <<>> THEN Ret(s, f, 1)
                       ELSE Emit(Goto(s, f, "a2"), Line("selc", Head(fr.l), 0, 0, "", ""))
    [] fr.pc = "a2" ->
         LET r == FileRec(q, Head(fr.l)) nn == NW(s) + 1
             wc == [n |-> r.n, ln |-> r.ln, np |-> r.np, G |-> r.G, W |-> r.W, sing |-> r.sing, resp |-> r.resp,
                    auto |-> r.auto, prio |-> r.prio, ssig |-> r.ssig, sch |-> r.sch, hup |-> r.hup, hooks |-> <<>>,
                    retry |-> r.retry, ver |-> r.ver]
             wr == [st |-> "stopped", rel |-> FALSE, np |-> r.np, pr |-> <<>>, sing |-> r.sing, resp |-> r.resp, od |-> FALSE,
                    G |-> r.G, W |-> r.W, ssig |-> r.ssig, sch |-> r.sch, hup |-> r.hup, mage |-> 0] IN
         IF r.sing /\ r.np > 1 THEN Ret(s, f, 3)          \* Watcher(): ValueError
         ELSE Goto(SetA([s EXCEPT !.cfg.ws = Append(@, wc), !.ws = Append(@, wr)], f, nn), f, "a3")
    [] fr.pc = "a3" -> IF s.cfg.ws[fr.a].auto THEN Call(s, f, "a4", "_start", fr.a, 0, 0, 0) ELSE Goto(s, f, "a6")
    [] fr.pc = "a4" -> Await(s, f, "a5")
    [] fr.pc = "a5" -> Sleep(DropKids(s, f), f, s.cfg.wg, "a6")
    [] fr.pc = "a6" ->
         Goto(SetL([s EXCEPT !.wl = Append(@, fr.a), !.wn = Append(@, [k |-> Head(fr.l), i |-> fr.a])], f, Tail(fr.l)), f, "a1")

\* ---- Arbiter.start() with a provided loop: synchronized("arbiter_start_watchers")(start_watchers)
P_boot(s, f) ==
  LET fr == s.fr[f] IN
  CASE fr.pc = "0" -> CallN(s, f, "1", "op", 0, 0, 0, 0, "a_start")
    [] fr.pc = "1" -> Await(SyncRelease(s, LastKid(s, f)), f, "2")
    [] fr.pc = "2" -> Ret(DropKids(s, f), f, 1)

QuitReq == [cmd |-> "quit", name |-> "", lname |-> "", hasname |-> FALSE, mid |-> "", waiting |-> FALSE,
            cast |-> FALSE, pid |-> -1, signum |-> -1, children |-> FALSE, recursive |-> FALSE, childpid |-> -1,
            nb |-> 1, G |-> -1, nostop |-> FALSE, graceful |-> TRUE, sequential |-> FALSE, raw |-> FALSE,
            start |-> FALSE, addnp |-> 1, addG |-> 1, addW |-> 0, addsing |-> FALSE, nopts |-> 1, pattern |-> FALSE,
            opts |-> <<>>, matches |-> <<>>, file |-> <<>>, plan |-> [chg |-> <<>>, del |-> <<>>, add |-> <<>>],
            rovalid |-> TRUE, adduid |-> "none", arbchg |-> FALSE]

Dispatch(s, f, ob) ==
  LET fn == s.fr[f].fn IN
  CASE fn = "hook" -> P_hook(s, f)
    [] fn = "send_signal" -> P_send_signal(s, f)
    [] fn = "send_signal_process" -> P_send_signal_process(s, f)
    [] fn = "kill_process" -> P_kill_process(s, f)
    [] fn = "kill_processes" -> P_kill_processes(s, f)
    [] fn = "reap_process" -> P_reap_process(s, f)
    [] fn = "reap_processes" -> P_reap_processes(s, f)
    [] fn = "manage_processes" -> P_manage_processes(s, f)
    [] fn = "spawn_process" -> P_spawn_process(s, f, ob)
    [] fn = "spawn_processes" -> P_spawn_processes(s, f)
    [] fn = "_stop" -> P_stop(s, f)
    [] fn = "_start" -> P_start(s, f)
    [] fn = "_restart" -> P_restart(s, f)
    [] fn = "_reload" -> P_reload(s, f)
    [] fn = "set_numprocesses" -> P_set_numprocesses(s, f)
    [] fn = "a_start" -> P_a_start(s, f)
    [] fn = "a_stop" -> P_a_stop(s, f)
    [] fn = "a_restart" -> P_a_restart(s, f)
    [] fn = "a_quit" -> P_a_quit(s, f)
    [] fn = "a_reload" -> P_a_reload(s, f)
    [] fn = "manage_watchers" -> P_manage_watchers(s, f)
    [] fn = "periodic" -> P_periodic(s, f)
    [] fn = "op" -> P_op(s, f)
    [] fn = "cmd_kill" -> P_cmd_kill(s, f)
    [] fn = "cmd_signal" -> P_cmd_signal(s, f)
    [] fn = "send_signal_children" -> P_send_signal_children(s, f)
    [] fn = "req" -> P_req(s, f)
    [] fn = "exit" -> P_exit(s, f)
    [] fn = "boot" -> P_boot(s, f)
    [] fn = "rm" -> P_rm(s, f)
    [] fn = "reloadcfg" -> P_reloadcfg(s, f)

\* the observable projection WITHOUT the pending-activity count (what the recorder compares for "cb" lines)
ObsCore(s) ==
  [slot |-> s.slot, stopping |-> s.stopping, restarting |-> s.restarting,
   wl |-> [j \in 1..Len(s.wl) |-> WN(s, s.wl[j])], wn |-> { e.k : e \in SeqSet(s.wn) },
   w |-> [jj \in 1..Len(DirSeq(s)) |-> LET i == DirSeq(s)[jj] IN
            [n |-> WN(s, i), st |-> s.ws[i].st, np |-> s.ws[i].np,
             pr |-> [j \in 1..Len(s.ws[i].pr) |->
                       <<s.ws[i].pr[j].p, s.ws[i].pr[j].wid, IF s.k[s.ws[i].pr[j].p].stp THEN 1 ELSE 0>>]]],
   k |-> [p \in 1..NP(s) |-> <<p, s.k[p].st, s.k[p].ws, s.k[p].par>>]]

Fresh(s) == [s EXCEPT !.out = NoLine]

\* one micro-step of the frame holding the CPU; afterwards, if the callback is over and something observable
\* changed since the last recorded line, the recorder writes a "cb" line (modelled as a forced next step)
RECURSIVE RunToLine(_, _)
RunToLine(s, ob) ==      \* silent micro-steps are not observable: run on to the next effect or to the callback's end
  LET t == Dispatch(s, Top(s), ob) IN
  IF t.out # NoLine \/ t.cur = <<>> THEN t ELSE RunToLine(t, ob)

RunTop(s, ob) ==
  LET s1 == RunToLine(Fresh(s), ob)
      s2 == IF s1.out # NoLine THEN [s1 EXCEPT !.lastobs = ObsCore(s1)] ELSE s1
  IN IF s2.cur = <<>> /\ ObsCore(s2) # s2.lastobs THEN [s2 EXCEPT !.cbpend = TRUE] ELSE s2

CbLine(s) == [Fresh(s) EXCEPT !.cbpend = FALSE, !.lastobs = ObsCore(s), !.out = Line("cb", "", 0, 0, "", "")]

\* run the next callback of the ready queue (FIFO, as asyncio)
RunCb(s) ==
  LET cb == Head(s.rq) s0 == [Fresh(s) EXCEPT !.rq = Tail(@)] IN
  CASE cb.kind = "resume" -> [s0 EXCEPT !.cur = <<cb.f>>]
    [] cb.kind = "release" -> LET s1 == [s0 EXCEPT !.slot = ""] IN
                              IF ObsCore(s1) # s1.lastobs THEN [s1 EXCEPT !.cbpend = TRUE] ELSE s1
    [] cb.kind = "reply" ->   \* _dispatch_callback_future (send_resp): ok, or "server error" for an operation that failed
         LET failed == s0.fr[cb.f].r = 3
             s1 == Free(s0, {cb.f}) IN
         IF failed THEN [Reply(s1, cb.cid, cb.mid, "error", 6) EXCEPT !.lastobs = ObsCore(s1)]
         ELSE [Reply(s1, cb.cid, cb.mid, "ok", 0) EXCEPT !.lastobs = ObsCore(s1)]
    [] cb.kind = "dsig" ->    \* SysHandler: controller.dispatch((None, make_json("quit")))   (or "reload" for SIGHUP)
         IF cb.mid = "hup"
         THEN [s0 EXCEPT !.creq = [QuitReq EXCEPT !.cmd = "reload"],
                         !.fr[Min(FreeIds(s0))] = [NoFrame EXCEPT !.fn = "req", !.pc = "0", !.nm = ""],
                         !.cur = <<Min(FreeIds(s0))>>]
         ELSE
         IF ~Dev_QuitRefusedWhenBusy /\ s0.restarting
         THEN \* repaired: the arbiter is going down to be started again; it now stays down (circusd reads the flag)
              [s0 EXCEPT !.restarting = FALSE, !.cbpend = TRUE]
         ELSE
         IF ~Dev_QuitRefusedWhenBusy /\ s0.slot # "" /\ ~s0.stopping
         THEN \* repaired: an operation is in flight, try again in 0.1 s (timer that re-queues this callback: f = -1)
              [s0 EXCEPT !.tm = @ \cup {[f |-> -1, due |-> s0.now + 1]}]
         ELSE
         [s0 EXCEPT !.creq = QuitReq,
                    !.fr[Min(FreeIds(s0))] = [NoFrame EXCEPT !.fn = "req", !.pc = "0", !.nm = ""],
                    !.cur = <<Min(FreeIds(s0))>>]
    [] cb.kind = "exit" -> [s0 EXCEPT !.fr[Min(FreeIds(s0))] = [NoFrame EXCEPT !.fn = "exit", !.pc = "0"],
                                      !.cur = <<Min(FreeIds(s0))>>]

EnvLine(s, ln) == [Fresh(s) EXCEPT !.out = ln, !.lastobs = ObsCore(s)]
WithObs(s) == [s EXCEPT !.lastobs = ObsCore(s)]

\* ---------------------------------------------------------------- environment
Idle(s) == s.cur = <<>> /\ ~s.cbpend
\* a worker exits by itself (any wait status) -- at ANY boundary between two daemon steps
Die(s, p, ws) == WithObs(Emit(Exit(Fresh(s), p, ws), Line("die", "", p, ws, "", "")))
\* somebody else signals a worker
ExtKill(s, p, sig) == WithObs(Emit(Deliver(Fresh(s), p, sig, FALSE), Line("extkill", "", p, sig, "", "")))
\* a pending fatal signal takes effect
SigDeath(s, p) == [WithObs(Emit(Exit(Fresh(s), p, s.k[p].dying), Line("sigdeath", "", p, s.k[p].dying, "", "")))
                     EXCEPT !.cbpend = FALSE]
\* when a callback is over, processes with a pending fatal signal exit before anything else happens
MustSettle(s) == s.cur = <<>> /\ Dying(s) # {}
\* a worker forks a child
Fork(s, p, ob) ==
  LET c == Len(s.k) + 1 IN
  WithObs(Emit([Fresh(s) EXCEPT !.k = Append(@, [st |-> "run", ws |-> -1, par |-> p, obeys |-> ob, dying |-> 0,
                                                owner |-> 0, stp |-> FALSE, rc |-> FALSE, rcv |-> 0, born |-> s.now * 100])],
               Line("fork", "", c, p, "", "")))
DueTimers(s) == { t \in s.tm : t.due <= s.now }
\* a due timer fires (any of the due ones): its frame resumes
FireTimer(s, t) == IF t.f = 0 THEN [Fresh(s) EXCEPT !.tm = @ \ {t}]
                   ELSE IF t.f = -1 THEN Enq([Fresh(s) EXCEPT !.tm = @ \ {t}], [kind |-> "dsig", f |-> 0, cid |-> "", mid |-> ""])
                   ELSE [Fresh(s) EXCEPT !.tm = @ \ {t}, !.cur = <<t.f>>]
FirePeriodic(s) ==
  LET id == Min(FreeIds(s)) IN
  [Fresh(s) EXCEPT !.pnext = -1, !.fr[id] = [NoFrame EXCEPT !.fn = "periodic", !.pc = "0"], !.cur = <<id>>]
PeriodicEarly(s) == [Fresh(s) EXCEPT !.pnext = s.now, !.pdue = s.now, !.pjit = FALSE]
CanPeriodicEarly(s) == s.pjit /\ s.pnext = s.now + s.cfg.cd
NextDeadline(s) == Min({ t.due : t \in s.tm } \cup (IF s.pnext # -1 THEN {s.pnext} ELSE {}))
HasDeadline(s) == s.tm # {} \/ s.pnext # -1
\* time passes to the next deadline (never past one)
Tick(s) == EnvLine([s EXCEPT !.now = IF NextDeadline(s) > @ THEN NextDeadline(s) ELSE @], Line("tick", "", 0, 0, "", ""))
\* a control request arrives between two callbacks
Request(s, q, cid) ==
  LET id == Min(FreeIds(s))
      s1 == [Fresh(s) EXCEPT !.creq = q, !.nreq = @ + 1,
                             !.fr[id] = [NoFrame EXCEPT !.fn = "req", !.pc = "0", !.nm = cid], !.cur = <<id>>]
  IN [s1 EXCEPT !.out = [Line("req", q.name, 0, IF q.waiting THEN 1 ELSE 0, q.cmd, cid) EXCEPT !.k = "req"],
                !.lastobs = ObsCore(s1)]
\* SIGTERM / SIGINT / SIGQUIT to the daemon: SysHandler queues dispatch((None, quit)) on the loop
\* SIGHUP: dispatch((None, reload)), dropped when refused;  SIGWINCH: handled, nothing happens
SIGWINCH == 28
DaemonSignal(s, sig) ==
  IF sig = SIGWINCH THEN EnvLine(s, Line("dsig", "", 0, sig, "", ""))
  ELSE EnvLine(Enq(s, [kind |-> "dsig", f |-> 0, cid |-> "", mid |-> IF sig = SIGHUP THEN "hup" ELSE ""]),
               Line("dsig", "", 0, sig, "", ""))
\* a connection is waiting on a managed socket (until a worker accepts it) / no longer
SockReady(s, v) == EnvLine([s EXCEPT !.sockready = v], Line("sockev", "", 0, IF v THEN 1 ELSE 0, "", ""))
\* the next process creations fail (exec error) / succeed as the environment decides
AddFault(s, kind) == EnvLine([s EXCEPT !.faults = Append(@, kind)], Line("spawnfault", "", 0, 0, kind, ""))
Boot(s) ==
  LET id == Min(FreeIds(s))
      s1 == [Fresh(s) EXCEPT !.booted = TRUE, !.slot = "arbiter_start_watchers",
                             !.wn = [j \in 1..Len(s.wl) |-> [k |-> WL(s, s.wl[j]), i |-> s.wl[j]]],
                             !.pnext = IF s.cfg.cd > 0 THEN s.now + s.cfg.cd ELSE -1,
                             !.pdue = s.now + s.cfg.cd,
                             !.fr[id] = [NoFrame EXCEPT !.fn = "boot", !.pc = "0"], !.cur = <<id>>]
  IN EnvLine(s1, Line("boot", "", 0, 0, "", ""))
=============================================================================

\* the code as the statement wants it: no Dev_ branch; AsCoded must satisfy Demanded at every case
CONSTANTS
  Dev_PrefixMatch = FALSE
  Dev_NonSignalAttr = FALSE
  Dev_AttributeError = FALSE
INIT Init
NEXT Next
CHECK_DEADLOCK FALSE
INVARIANT Inv_DevsExplain
INVARIANT Inv_AttrErrorHarmless
INVARIANT Inv_SameEverywhere
INVARIANT Inv_Fixed

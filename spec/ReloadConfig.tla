---------------------------- MODULE ReloadConfig ----------------------------
(***************************************************************************)
(* C12 -- reloadconfig converges to the file and disturbs only what        *)
(* changed (shape O + M).                                                  *)
(*                                                                         *)
(*  "After any sequence of edits to the configuration file, each followed  *)
(*   by reloadconfig, the daemon runs exactly the watchers the current     *)
(*   file defines, with the numprocesses and options it specifies -- the   *)
(*   same as a fresh start on that file would.  Watchers whose effective   *)
(*   settings are unchanged keep their worker pids, a change of            *)
(*   numprocesses alone only adds or removes the difference, and reloading *)
(*   an unchanged file does nothing."                                      *)
(*                                                                         *)
(* Real code: circus/arbiter.py reload_from_config (283-413),              *)
(* load_from_config; circus/config.py get_config (the comparable dicts);   *)
(* circus/util.py DictDiffer; circus/watcher.py load_from_config (stores   *)
(* w._cfg), set_numprocesses; circus/commands/reloadconfig.py.             *)
(*                                                                         *)
(* A file version maps every watcher name to a section                     *)
(*      [np, cmd, env, opt]      np = 0: no such section                   *)
(* cmd stands for a key that get_config always puts into the watcher dict  *)
(* (cmd, args, graceful_timeout, ...: watcher_defaults()), env for the     *)
(* [env:<name>] section, opt for a key that is in the dict only when the   *)
(* section spells it (max_age, ...): 0 = not spelled, else its value.      *)
(*                                                                         *)
(* The daemon keeps, per watcher: snap (what w._cfg holds: the dict the    *)
(* watcher was CREATED from), lnp (w.numprocesses) and its pids, oldest    *)
(* first.  Every other live setting is the one of snap (a watcher's        *)
(* options are only ever set at creation on this path).                    *)
(*                                                                         *)
(* Edit / Reload alternate; MaxEdits edits per behaviour.  The four        *)
(* clauses of the statement are state predicates over the state right      *)
(* after a Reload and the ghost copy `prev` of the state right before it.  *)
(* Deviations of the code from the statement are the two Dev_ branches     *)
(* (DESIGN.md D8); Why(n) names the branch that explains a mismatch.       *)
(***************************************************************************)
EXTENDS Integers, Sequences, FiniteSets, TLC, Json

CONSTANTS
    NameSeq,        \* the watcher names, as a sequence (the order in which the model hands out pids)
    MaxNp,          \* numprocesses ranges over 1..MaxNp
    CmdVers,        \* versions of the always-present key
    EnvVers,        \* versions of the environment section
    OptVals,        \* values of the optional key (0 = absent is added by the module)
    InitFiles,      \* file versions the daemon may be booted on
    AddRecs,        \* sections an "add" edit may write
    MaxEdits,       \* edits (each followed by a Reload) per behaviour
    Dev_StaleCfgSnapshot,       \* TRUE: the numprocesses-only branch does not refresh w._cfg (arbiter.py:383-387)
    Dev_DiffIgnoresAddedKeys,   \* TRUE: DictDiffer.changed() looks at keys present on BOTH sides only (util.py:1007)
    Compound,       \* TRUE: one revision may also change two keys / two sections at once (EditTwo, EditBoth)
    EmitHist        \* TRUE: completed behaviours are printed as JSON for the replay on the real arbiter

Names   == {NameSeq[i] : i \in 1..Len(NameSeq)}
NoRec   == [np |-> 0, cmd |-> 0, env |-> 0, opt |-> 0]
Recs    == [np : 1..MaxNp, cmd : CmdVers, env : EnvVers, opt : {0} \cup OptVals]
Present(r) == r.np > 0
Fields  == {"np", "cmd", "env", "opt"}
Dom(k)  == CASE k = "np" -> 1..MaxNp [] k = "cmd" -> CmdVers [] k = "env" -> EnvVers [] OTHER -> {0} \cup OptVals

ASSUME /\ \A f \in InitFiles : f \in [Names -> Recs \cup {NoRec}]
       /\ AddRecs \subseteq Recs
       /\ 0 \notin OptVals

VARIABLES
    file,       \* the configuration file: [Names -> Recs \cup {NoRec}]
    snap,       \* w._cfg of the running watchers (NoRec: not running)
    lnp,        \* w.numprocesses
    pids,       \* tracked workers per watcher, oldest first
    nextpid,    \* next pid of the (simulated) kernel
    phase,      \* "edit" | "reload" | "done"
    nedits,
    prev,       \* ghost: live settings / pids / nextpid right before the last Reload, and the file version the
                \*        Reload before that one (or the boot) had read
    kinds,      \* ghost: what the last Reload did per watcher
    boot,       \* ghost: the file version the daemon was started on
    hist        \* ghost: the behaviour, for the replay

vars == <<file, snap, lnp, pids, nextpid, phase, nedits, prev, kinds, boot, hist>>

Min(a, b) == IF a <= b THEN a ELSE b
Max(a, b) == IF a >= b THEN a ELSE b
Range(s)  == {s[i] : i \in 1..Len(s)}
Tup(r)    == <<r.np, r.cmd, r.env, r.opt>>

(***************************************************************************)
(* What a start on file f yields (Arbiter.load_from_config + start):       *)
(* settings are the file's; every watcher gets np new workers.             *)
(***************************************************************************)
Fresh(f) == [n \in Names |-> f[n]]

\* effective settings of a running watcher
LiveOf(sn, np) == IF Present(sn) THEN [sn EXCEPT !.np = np] ELSE NoRec
Live(n) == LiveOf(snap[n], lnp[n])

(***************************************************************************)
(* The diff as coded: DictDiffer(new, old).changed()                       *)
(***************************************************************************)
Keys(r) == {"np", "cmd", "env"} \cup (IF r.opt # 0 THEN {"opt"} ELSE {})
Diff(new, old) ==
    LET looked == IF Dev_DiffIgnoresAddedKeys THEN Keys(new) \cap Keys(old)     \* self.intersect
                                              ELSE Keys(new) \cup Keys(old)
    IN  {k \in looked : new[k] # old[k]}

Kind(n, f) ==
    LET o == snap[n]  nw == f[n] IN
    CASE ~Present(o) /\ ~Present(nw) -> "none"
      [] Present(o)  /\ ~Present(nw) -> "remove"        \* deleted_wn: w._stop(), dropped
      [] ~Present(o) /\ Present(nw)  -> "add"           \* added_wn: Watcher.load_from_config, start_watcher
      [] OTHER -> LET d == Diff(nw, o) IN
                  IF d = {} THEN "keep"
                  ELSE IF d = {"np"} THEN "setnp"       \* w.set_numprocesses(new np); changed = False
                  ELSE "restart"                        \* deleted_wn and added_wn

\* new workers the Reload starts for n
Need(n, f) ==
    LET k == Kind(n, f) IN
    CASE k \in {"add", "restart"} -> f[n].np
      [] k = "setnp" -> Max(0, f[n].np - Len(pids[n]))
      [] OTHER -> 0

RECURSIVE SumNeed(_, _)
SumNeed(i, f) == IF i = 0 THEN 0 ELSE SumNeed(i - 1, f) + Need(NameSeq[i], f)
Index(n) == CHOOSE i \in 1..Len(NameSeq) : NameSeq[i] = n
Base(n, f) == nextpid + SumNeed(Index(n) - 1, f)
NewPids(n, f) == [j \in 1..Need(n, f) |-> Base(n, f) + j - 1]

SnapAfter(n, f) ==
    LET k == Kind(n, f) IN
    CASE k \in {"add", "restart"} -> f[n]
      [] k = "remove" -> NoRec
      [] k = "setnp" -> IF Dev_StaleCfgSnapshot THEN snap[n] ELSE [snap[n] EXCEPT !.np = f[n].np]
      [] OTHER -> snap[n]

LnpAfter(n, f) ==
    LET k == Kind(n, f) IN
    CASE k \in {"add", "restart", "setnp"} -> f[n].np
      [] k = "remove" -> 0
      [] OTHER -> lnp[n]

PidsAfter(n, f) ==
    LET k == Kind(n, f)  old == pids[n] IN
    CASE k \in {"add", "restart"} -> NewPids(n, f)
      [] k = "remove" -> <<>>
      [] k = "setnp" -> IF f[n].np >= Len(old) THEN old \o NewPids(n, f)
                        ELSE SubSeq(old, Len(old) - f[n].np + 1, Len(old))     \* manage_processes: oldest go first
      [] OTHER -> old

(***************************************************************************)
(* The statement, evaluated right after a Reload.                          *)
(***************************************************************************)
After == phase # "reload" /\ nedits > 0

\* relation of the effective settings before the Reload to the file being loaded
RelOf(l, f) ==
    CASE ~Present(l) /\ ~Present(f) -> "none"
      [] ~Present(l) -> "new"
      [] ~Present(f) -> "gone"
      [] l = f -> "same"
      [] [l EXCEPT !.np = f.np] = f -> "np"
      [] OTHER -> "other"
Rel(n) == RelOf(prev.live[n], file[n])

SameAt(n)  == Live(n) = Fresh(file)[n] /\ Len(pids[n]) = Fresh(file)[n].np
KeepAt(n)  == Rel(n) = "same" => pids[n] = prev.pids[n]
DeltaAt(n) == Rel(n) = "np" =>
                  LET old == Range(prev.pids[n])  new == Range(pids[n]) IN
                  /\ Cardinality(old \cap new) = Min(prev.live[n].np, file[n].np)
                  /\ Cardinality(new) = file[n].np
                  /\ \A p \in new \ old : p >= prev.nextpid
IdemOK     == prev.file = file => (pids = prev.pids /\ nextpid = prev.nextpid /\ lnp = [n \in Names |-> prev.live[n].np])

C12_Same  == After => \A n \in Names : SameAt(n)
C12_Keep  == After => \A n \in Names : KeepAt(n)
C12_Delta == After => \A n \in Names : DeltaAt(n)
C12_Idem  == After => IdemOK

(***************************************************************************)
(* Which Dev_ branch explains a mismatch at n (the D8 signature).          *)
(*  StaleCfgSnapshot: the file's numprocesses equals the one in the stale  *)
(*     snapshot, so the diff does not see that the daemon runs another     *)
(*     number (set by an earlier numprocesses-only reload).                *)
(*  DiffIgnoresAddedKeys: the optional key is spelled on one side only.    *)
(***************************************************************************)
Why(n) ==
    IF ~(Present(snap[n]) /\ Present(file[n])) THEN {}
    ELSE (IF Dev_StaleCfgSnapshot /\ snap[n].np = file[n].np /\ lnp[n] # file[n].np
             THEN {"StaleCfgSnapshot"} ELSE {})
         \cup
         (IF Dev_DiffIgnoresAddedKeys /\ snap[n].opt # file[n].opt /\ (snap[n].opt = 0 \/ file[n].opt = 0)
             THEN {"DiffIgnoresAddedKeys"} ELSE {})

MismatchFields(n) == {k \in Fields : Live(n)[k] # file[n][k]}

\* every violation of C12_Same is a numprocesses mismatch explained by the stale snapshot and / or a mismatch of the
\* optional key explained by the intersection-only diff; the set of running watchers is always the file's
Inv_SameExplained ==
    After => \A n \in Names :
        \/ SameAt(n)
        \/ /\ Present(snap[n]) /\ Present(file[n])
           /\ Len(pids[n]) = lnp[n]
           /\ MismatchFields(n) # {}
           /\ MismatchFields(n) \subseteq {"np", "opt"}
           /\ ("np" \in MismatchFields(n)  => "StaleCfgSnapshot" \in Why(n))
           /\ ("opt" \in MismatchFields(n) => "DiffIgnoresAddedKeys" \in Why(n))
\* every violation of C12_Delta is the stale snapshot hiding the change: nothing at all happens to the watcher
Inv_DeltaExplained ==
    After => \A n \in Names :
        DeltaAt(n) \/ ("StaleCfgSnapshot" \in Why(n) /\ kinds[n] = "keep" /\ pids[n] = prev.pids[n])
\* without the Dev_ branches nothing is left to explain
Inv_Fixed ==
    (~Dev_StaleCfgSnapshot /\ ~Dev_DiffIgnoresAddedKeys) =>
        /\ C12_Same /\ C12_Keep /\ C12_Delta /\ C12_Idem
        /\ \A n \in Names : Why(n) = {} /\ snap[n] = Live(n)
\* bookkeeping of the model itself
Inv_Type ==
    /\ file \in [Names -> Recs \cup {NoRec}]
    /\ snap \in [Names -> Recs \cup {NoRec}]
    /\ \A n \in Names : /\ Present(snap[n]) <=> lnp[n] > 0
                        /\ phase # "reload" => Len(pids[n]) = lnp[n]
                        /\ \A i \in 1..Len(pids[n]) : pids[n][i] < nextpid
                        /\ \A i, j \in 1..Len(pids[n]) : i < j => pids[n][i] < pids[n][j]
    /\ \A n, m \in Names : n # m => Range(pids[n]) \cap Range(pids[m]) = {}
    /\ After => \A n \in Names : Present(snap[n]) <=> Present(file[n])

(***************************************************************************)
(* Behaviours                                                              *)
(***************************************************************************)
Snapshot == [file |-> file, live |-> [n \in Names |-> Live(n)], pids |-> pids, nextpid |-> nextpid]

BootPids(f, n) ==
    LET RECURSIVE Before(_)
        Before(i) == IF i = 0 THEN 0 ELSE Before(i - 1) + f[NameSeq[i]].np
    IN  [j \in 1..f[n].np |-> 1 + Before(Index(n) - 1) + j - 1]

RECURSIVE Total(_, _)
Total(f, i) == IF i = 0 THEN 0 ELSE Total(f, i - 1) + f[NameSeq[i]].np

Init ==
    /\ file \in InitFiles
    /\ snap = file
    /\ lnp = [n \in Names |-> file[n].np]
    /\ pids = [n \in Names |-> BootPids(file, n)]
    /\ nextpid = 1 + Total(file, Len(NameSeq))
    /\ phase = "edit"
    /\ nedits = 0
    /\ prev = [file |-> file, live |-> Fresh(file), pids |-> pids, nextpid |-> nextpid]
    /\ kinds = [n \in Names |-> "none"]
    /\ boot = file
    /\ hist = <<>>

NoEd == [op |-> "touch", n |-> "", k |-> "", v |-> 0, r |-> Tup(NoRec)]

DoEdit(f, ed) ==
    /\ phase = "edit"
    /\ nedits < MaxEdits
    /\ file' = f
    /\ phase' = "reload"
    /\ nedits' = nedits + 1
    /\ prev' = [prev EXCEPT !.file = file]          \* the version the previous Reload (or the boot) read
    /\ hist' = IF EmitHist THEN Append(hist, ed) ELSE hist
    /\ UNCHANGED <<snap, lnp, pids, nextpid, kinds, boot>>

EditAdd(n, r) ==
    /\ ~Present(file[n])
    /\ DoEdit([file EXCEPT ![n] = r], [NoEd EXCEPT !.op = "add", !.n = n, !.r = Tup(r)])
EditRemove(n) ==
    /\ Present(file[n])
    /\ DoEdit([file EXCEPT ![n] = NoRec], [NoEd EXCEPT !.op = "rm", !.n = n])
EditField(n, k, v) ==
    /\ Present(file[n])
    /\ file[n][k] # v
    /\ DoEdit([file EXCEPT ![n][k] = v], [NoEd EXCEPT !.op = "set", !.n = n, !.k = k, !.v = v])
\* one revision of the file changes numprocesses AND another key of the same section (the cheap set_numprocesses
\* path must not swallow the other change) ...
EditTwo(n, v, k, w) ==
    /\ Compound /\ Present(file[n])
    /\ k # "np" /\ file[n].np # v /\ file[n][k] # w
    /\ DoEdit([file EXCEPT ![n].np = v, ![n][k] = w], [NoEd EXCEPT !.op = "set2", !.n = n, !.k = k, !.v = w])
\* ... or touches two sections at once (each watcher is disturbed by its own change only)
EditBoth(n, k, v, m, j, w) ==
    /\ Compound /\ n # m /\ Present(file[n]) /\ Present(file[m])
    /\ file[n][k] # v /\ file[m][j] # w
    /\ DoEdit([file EXCEPT ![n][k] = v, ![m][j] = w], [NoEd EXCEPT !.op = "both", !.n = n, !.k = k, !.v = v])
EditTouch == DoEdit(file, NoEd)         \* the file is rewritten unchanged

Edit ==
    \/ \E n \in Names : \E r \in AddRecs : EditAdd(n, r)
    \/ \E n \in Names : EditRemove(n)
    \/ \E n \in Names : \E k \in Fields : \E v \in Dom(k) : EditField(n, k, v)
    \/ \E n \in Names : \E v \in Dom("np") : \E k \in Fields : \E w \in Dom(k) : EditTwo(n, v, k, w)
    \/ \E n, m \in Names : \E k, j \in Fields : \E v \in Dom(k) : \E w \in Dom(j) :
          Index(n) < Index(m) /\ EditBoth(n, k, v, m, j, w)
    \/ EditTouch

WhyAfter(n, sn, np) ==     \* Why(n) on the primed state
    IF ~(Present(sn) /\ Present(file[n])) THEN {}
    ELSE (IF Dev_StaleCfgSnapshot /\ sn.np = file[n].np /\ np # file[n].np THEN {"StaleCfgSnapshot"} ELSE {})
         \cup (IF Dev_DiffIgnoresAddedKeys /\ sn.opt # file[n].opt /\ (sn.opt = 0 \/ file[n].opt = 0)
                  THEN {"DiffIgnoresAddedKeys"} ELSE {})

Reload ==
    /\ phase = "reload"
    /\ prev' = [Snapshot EXCEPT !.file = prev.file]
    /\ kinds' = [n \in Names |-> Kind(n, file)]
    /\ snap' = [n \in Names |-> SnapAfter(n, file)]
    /\ lnp' = [n \in Names |-> LnpAfter(n, file)]
    /\ pids' = [n \in Names |-> PidsAfter(n, file)]
    /\ nextpid' = nextpid + SumNeed(Len(NameSeq), file)
    /\ phase' = "edit"
    /\ hist' = IF ~EmitHist THEN hist
               ELSE [hist EXCEPT ![Len(hist)] =
                       [ed   |-> hist[Len(hist)],
                        file |-> [n \in Names |-> Tup(file[n])],
                        \* as coded: effective settings, pids (oldest first), what the reload did
                        cod  |-> [n \in Names |-> [s |-> Tup(LiveOf(SnapAfter(n, file), LnpAfter(n, file))),
                                                   p |-> PidsAfter(n, file),
                                                   k |-> Kind(n, file)]],
                        \* demanded: the settings of a fresh start on the file; the relation of the effective
                        \* settings before the reload to the file (same: keep every pid; np: keep min, add/remove the
                        \* difference; new / gone / other: nothing about identities), the number of old pids kept
                        dem  |-> [n \in Names |-> [s |-> Tup(Fresh(file)[n]),
                                                   rel |-> RelOf(Live(n), file[n]),
                                                   keep |-> CASE RelOf(Live(n), file[n]) = "same" -> lnp[n]
                                                              [] RelOf(Live(n), file[n]) = "np" -> Min(lnp[n], file[n].np)
                                                              [] RelOf(Live(n), file[n]) = "gone" -> 0
                                                              [] OTHER -> -1]],
                        why  |-> [n \in Names |-> WhyAfter(n, SnapAfter(n, file), LnpAfter(n, file))]]]
    /\ UNCHANGED <<file, nedits, boot>>

\* closing step: a single successor, so that Emit fires once per completed behaviour
Finish ==
    /\ phase = "edit"
    /\ nedits = MaxEdits
    /\ phase' = "done"
    /\ UNCHANGED <<file, snap, lnp, pids, nextpid, nedits, prev, kinds, boot, hist>>

Next == Edit \/ Reload \/ Finish

Spec == Init /\ [][Next]_vars

Emit ==
    (phase = "done" /\ EmitHist) =>
        PrintT("SEQ " \o ToJson([names |-> NameSeq, init |-> [n \in Names |-> Tup(boot[n])],
                                 pids |-> [n \in Names |-> BootPids(boot, n)], steps |-> hist]))

=============================================================================

\* behaviours for the live binding: tlc -simulate num=N -depth 5 -seed S; Emit prints the history at the bound
CONSTANTS
  MaxEvents = 4
  MaxProcs = 3
  Fault_CloseFds = FALSE
  Fault_KeepFds = FALSE
  Fault_KeepFdsStdin = FALSE
  Fault_NoInherit = FALSE
  Fault_Rebind = FALSE
INIT Init
NEXT Next
CHECK_DEADLOCK FALSE
INVARIANT Emit

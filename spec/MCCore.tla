------------------------------- MODULE MCCore -------------------------------
(***************************************************************************)
(* Model-checking wrapper of Core: bounded environment, the ghost state of *)
(* Monitors.tla updated on every line the model emits, one invariant per   *)
(* property clause.                                                         *)
(***************************************************************************)
EXTENDS Core

CONSTANTS Configs,        \* set of daemon configurations (cfg records)
          Requests,       \* set of request records the environment may send
          MaxReq, MaxDie, MaxExt, MaxFork, MaxSig, MaxSock,   \* budgets of environment actions
          MaxNow,         \* time horizon (ticks)
          MaxPid,         \* bound on the number of processes ever created
          DieStatuses,    \* wait statuses of spontaneous deaths
          ObeyChoices,    \* behaviours of new workers: TRUE obeys fatal signals, FALSE only SIGKILL kills it
          FaultSeqs,      \* set of spawn-fault sequences
          Reduce,         \* TRUE: a death is placed only where it can be observed next (see ObservedNext)
          ReqUntil, DieUntil   \* the environment stops sending requests / killing workers after these ticks

VARIABLES s, g, bad, n

M == INSTANCE Monitors

vars == <<s, g, bad, n>>

InitState(cfg, faults) ==
  [cfg |-> cfg, now |-> 0, k |-> <<>>,
   ws |-> [i \in 1..Len(cfg.ws) |->
            [st |-> "stopped", rel |-> FALSE, np |-> cfg.ws[i].np, pr |-> <<>>, sing |-> cfg.ws[i].sing, resp |-> cfg.ws[i].resp,
             od |-> ("od" \in DOMAIN cfg.ws[i] /\ cfg.ws[i].od), G |-> cfg.ws[i].G, W |-> cfg.ws[i].W, ssig |-> cfg.ws[i].ssig, sch |-> cfg.ws[i].sch,
             hup |-> cfg.ws[i].hup, mage |-> IF "mage" \in DOMAIN cfg.ws[i] THEN cfg.ws[i].mage ELSE 0]],
   wl |-> [i \in 1..Len(cfg.ws) |-> i], wn |-> <<>>,
   fr |-> [f \in FrameIds |-> NoFrame], cur |-> <<>>, rq |-> <<>>, tm |-> {}, pnext |-> -1, pdue |-> 0,
   slot |-> "", stopping |-> FALSE, restarting |-> FALSE, exited |-> FALSE, creq |-> QuitReq,
   sockev |-> FALSE, sockready |-> FALSE,
   faults |-> faults, blocked |-> 0, out |-> NoLine, lastobs |-> <<>>, cbpend |-> FALSE, pjit |-> FALSE, nreq |-> 0,
   booted |-> FALSE]

\* ---- projection to the observable state / line format of Monitors.tla (times in ms)
MObs(st) ==
  [slot |-> st.slot, stopping |-> st.stopping, restarting |-> st.restarting,
   wl |-> [j \in 1..Len(st.wl) |-> WN(st, st.wl[j])], wll |-> [j \in 1..Len(st.wl) |-> WL(st, st.wl[j])],
   wn |-> [j \in 1..Len(st.wn) |-> st.wn[j].k],
   w |-> [jj \in 1..Len(DirSeq(st)) |-> LET i == DirSeq(st)[jj] IN
            [n |-> WN(st, i), ln |-> WL(st, i), st |-> st.ws[i].st, np |-> st.ws[i].np, npbad |-> FALSE, sing |-> st.ws[i].sing,
             resp |-> st.ws[i].resp, G |-> st.ws[i].G * 100, W |-> st.ws[i].W * 100, ssig |-> st.ws[i].ssig,
             sch |-> st.ws[i].sch, od |-> st.ws[i].od, mage |-> st.ws[i].mage, hup |-> st.ws[i].hup, ver |-> st.cfg.ws[i].ver,
             pr |-> [j \in 1..Len(st.ws[i].pr) |->
                       <<st.ws[i].pr[j].p, st.ws[i].pr[j].wid, IF st.k[st.ws[i].pr[j].p].stp THEN 1 ELSE 0>>]]],
   k |-> [p \in 1..NP(st) |-> <<p, st.k[p].st, st.k[p].ws, st.k[p].par>>],
   fl |-> Len(st.rq) + Cardinality(st.tm) + Len(st.cur)]

\* a section record of a configuration file as the monitors see it (times in ms)
FileMs(r) == [n |-> r.n, ln |-> r.ln, np |-> r.np, ver |-> r.ver, G |-> r.G * 100, W |-> r.W * 100, sing |-> r.sing,
              prio |-> r.prio, auto |-> r.auto, resp |-> r.resp, ssig |-> r.ssig, sch |-> r.sch, hup |-> r.hup,
              retry |-> r.retry]
MCfg(cfg) == [fm |-> TRUE, file |-> [i \in 1..Len(cfg.ws) |-> FileMs(cfg.ws[i])],
              cd |-> cfg.cd * 100, wg |-> cfg.wg * 100,
              ws |-> [i \in 1..Len(cfg.ws) |->
                        [n |-> cfg.ws[i].ln, np |-> cfg.ws[i].np, G |-> cfg.ws[i].G * 100, W |-> cfg.ws[i].W * 100,
                         sing |-> cfg.ws[i].sing, resp |-> cfg.ws[i].resp, auto |-> cfg.ws[i].auto,
                         prio |-> cfg.ws[i].prio, ssig |-> cfg.ws[i].ssig, sch |-> cfg.ws[i].sch,
                         mage |-> IF "mage" \in DOMAIN cfg.ws[i] THEN cfg.ws[i].mage ELSE 0,
                         hup |-> cfg.ws[i].hup, od |-> ("od" \in DOMAIN cfg.ws[i] /\ cfg.ws[i].od),
                         hooks |-> cfg.ws[i].hooks]]]

EnvLineKinds == {"tick", "req", "dsig", "boot", "probe", "end", "cb", "init"}
MLine(before, after) ==
  LET o == after.out
      base == [i |-> 0, t |-> after.now * 100,
               cb |-> IF o.k \in EnvLineKinds THEN 0 ELSE IF before.cur # <<>> \/ o.k \notin {"die", "extkill", "fork"} THEN 1 ELSE 0,
               k |-> o.k, w |-> o.w, p |-> o.p, a |-> o.a, b |-> IF o.k = "reply" THEN 1 ELSE 0, c |-> 0,
               r |-> o.r, x |-> o.x]
  IN IF o.k = "req" THEN base @@ [q |-> [after.creq EXCEPT !.G = IF @ = -1 THEN -1 ELSE @ * 100,
                                                            !.file = [j \in 1..Len(@) |-> FileMs(@[j])]]
                                        @@ [setnp |-> IF after.creq.cmd = "set" /\ (after.creq.opts = <<>> \/
                                                           \E j \in 1..Len(after.creq.opts) : after.creq.opts[j].k = "np")
                                                      THEN (IF after.creq.opts = <<>> THEN after.creq.nb
                                                            ELSE after.creq.opts[CHOOSE j \in 1..Len(after.creq.opts) :
                                                                                   after.creq.opts[j].k = "np"].v)
                                                      ELSE -99]]
     ELSE IF o.k = "reply"
     THEN \* the reason class of a refusal (D7's signature): the model's only apply-time refusal of `set` is the singleton one
          base @@ [rc |-> IF o.r = "error" /\ before.cur # <<>> /\ before.fr[Head(before.cur)].fn = "req"
                             /\ before.fr[Head(before.cur)].pc = "xs" THEN "singleton" ELSE ""]
     ELSE base

\* what the read-only requests would answer in state st (commands/list.py, numprocesses.py, status.py, stats.py)
ProbeOf(st) ==
  LET names == [j \in 1..Len(st.wn) |-> st.wn[j].k]            \* `list` answers the dict's keys
      lst == [j \in 1..Len(st.wl) |-> WL(st, st.wl[j])] IN      \* status / stats iterate the list
  [wl |-> names, nw |-> Len(st.wl), stn |-> lst, stats |-> lst,
   per |-> [j \in 1..Len(st.wn) |-> LET i == st.wn[j].i IN
              LET act == SelectSeq(PidSeq(st.ws[i]), LAMBDA p : st.k[p].st = "run") IN
              [n |-> st.wn[j].k, pids |-> act, np |-> Len(st.ws[i].pr), st |-> st.ws[i].st,
               stats |-> PidSeq(st.ws[i])]]]

Init == /\ \E cfg \in Configs, fs \in FaultSeqs : s = WithObs(InitState(cfg, fs))
        /\ g = [M!GhostInit EXCEPT !.cfg = MCfg(s.cfg)]
        /\ bad = {}
        /\ n = [die |-> 0, ext |-> 0, fork |-> 0, sig |-> 0, sock |-> 0]

\* ghost / verdict update for a step s -> t
Observe(t) ==
  IF t.out = NoLine THEN g' = g /\ bad' = {}
  ELSE LET ln == IF t.out.k = "probe" THEN MLine(s, t) @@ [pb |-> ProbeOf(t)] ELSE MLine(s, t)
           o == MObs(s) o2 == MObs(t)
           g2 == M!Upd(g, o, ln, o2)
       IN g' = g2 /\ bad' = M!BadKF(g, o, ln, o2, g2)

Step(t) == s' = t /\ Observe(t)

KernelNext(st) ==      \* is the next daemon step a system call on some pid?  (used by the reduction only)
  TRUE

CanDie(p) == s.k[p].st = "run"
\* Partial-order reduction: a worker's death commutes with every daemon step that does not look at that
\* worker, so inside a callback it is enough to place it immediately before the next system call on that pid
KernelKinds == {"status", "poll", "signal", "waitpid", "children", "csignal"}
ObservedNext(p) ==
  IF s.cur = <<>> THEN s.rq = <<>>
  ELSE \E ob \in (ObeyChoices \cap s.cfg.obeyset) : LET t == RunTop(s, ob) IN
          \/ (t.out.k \in KernelKinds /\ t.out.p = p)
          \/ t.out.k = "waitany"
Quiescent == s.cur = <<>> /\ s.rq = <<>> /\ ~s.cbpend

Next ==
  \/ /\ MustSettle(s) /\ Step(SigDeath(s, Min(Dying(s)))) /\ UNCHANGED n
  \/ /\ ~MustSettle(s) /\ s.cbpend /\ Step(CbLine(s)) /\ UNCHANGED n
  \/ /\ ~MustSettle(s) /\ ~s.cbpend
     /\ \/ /\ s.cur # <<>>
           /\ \E ob \in (ObeyChoices \cap s.cfg.obeyset) : Step(RunTop(s, ob))
           /\ UNCHANGED n
        \/ /\ s.cur = <<>> /\ s.rq # <<>> /\ Step(RunCb(s)) /\ UNCHANGED n
        \/ /\ Quiescent /\ ~s.booted /\ Step(Boot(s)) /\ UNCHANGED n
        \/ /\ Quiescent /\ s.booted
           /\ \/ \E t \in DueTimers(s) : Step(FireTimer(s, t))
              \/ s.pnext # -1 /\ s.pnext <= s.now /\ Step(FirePeriodic(s))
              \/ CanPeriodicEarly(s) /\ Step(PeriodicEarly(s))
              \/ /\ HasDeadline(s) /\ DueTimers(s) = {} /\ ~(s.pnext # -1 /\ s.pnext <= s.now)
                 /\ NextDeadline(s) <= MaxNow /\ Step(Tick(s))
              \/ Step(EnvLine(s, Line("probe", "", 0, 0, "", "")))
           /\ UNCHANGED n
        \* ---- environment
        \/ /\ s.cur = <<>> /\ (Reduce => s.rq = <<>>) /\ s.booted /\ ~s.exited /\ s.nreq < MaxReq /\ s.now <= ReqUntil
           /\ \E q \in Requests : Step(Request(s, [q EXCEPT !.mid = "m" \o ToString(s.nreq + 1)],
                                                 "c" \o ToString(s.nreq + 1)))
           /\ UNCHANGED n
        \/ /\ n.die < MaxDie /\ s.now <= DieUntil
           /\ \E p \in 1..NP(s), ws \in DieStatuses :
                 CanDie(p) /\ s.k[p].par = 0 /\ (Reduce => ObservedNext(p)) /\ Step(Die(s, p, ws))
           /\ n' = [n EXCEPT !.die = @ + 1]
        \/ /\ ~Reduce /\ s.cur # <<>> /\ \E p \in Dying(s) : Step(SigDeath(s, p))
           /\ UNCHANGED n
        \/ /\ n.ext < MaxExt /\ s.cur = <<>> /\ s.rq = <<>> /\ s.now <= DieUntil
           /\ \E p \in 1..NP(s) : CanDie(p) /\ s.k[p].dying = 0 /\ Step(ExtKill(s, p, SIGKILL))
           /\ n' = [n EXCEPT !.ext = @ + 1]
        \/ /\ n.fork < MaxFork /\ s.cur = <<>> /\ NP(s) < MaxPid
           /\ \E p \in 1..NP(s), ob \in ObeyChoices : CanDie(p) /\ s.k[p].par = 0 /\ Step(Fork(s, p, ob))
           /\ n' = [n EXCEPT !.fork = @ + 1]
        \/ /\ n.sock < MaxSock /\ s.cur = <<>> /\ s.rq = <<>> /\ s.booted /\ ~s.exited
           /\ Step(SockReady(s, ~s.sockready))           \* a connection arrives on a managed socket / is accepted
           /\ n' = [n EXCEPT !.sock = @ + 1]
        \/ /\ n.sig < MaxSig /\ s.cur = <<>> /\ s.booted /\ ~s.exited
           /\ Step(DaemonSignal(s, 15))
           /\ n' = [n EXCEPT !.sig = @ + 1]

Spec == Init /\ [][Next]_vars

\* bound the state space: process table size
PidBound == NP(s) <= MaxPid
View == <<[s EXCEPT !.out = NoLine], g, bad, n>>

\* ---- one invariant per listed property: no clause of the property is violated, except with the signature of
\* a recorded finding (the second component names it; "" = unexplained)
Unexplained(cs) == { e \in bad : e[1] \in cs /\ e[2] = "" }
Inv_C01 == Unexplained({"C01_range", "C01_converge", "C01_fixpoint", "C01_fresh", "C01_period", "C01_set", "C01_young"}) = {}
Inv_C02 == Unexplained({"C02_complete", "C02_opdone", "C02_stays"}) = {}
Inv_C03 == Unexplained({"C03_first", "C03_notearly", "C03_notdead", "C03_prompt", "C03_kids", "C03_stopsig"}) = {}
Inv_C04 == Unexplained({"C04_list", "C04_count", "C04_owned", "C04_status", "C04_zombie"}) = {}
Inv_C05 == Unexplained({"C05_noblock", "C05_readnow", "C05_bound"}) = {}
Inv_C06 == Unexplained({"C06_reply", "C06_status", "C06_all"}) = {}
Inv_C08 == Unexplained({"C08_done"}) = {}
Inv_C09 == Unexplained({"C09_spawn", "C09_reap", "C09_live", "C09_killev", "C09_startstop", "C09_status"}) = {}
Inv_C12 == Unexplained({"C12_conv", "C12_keep"}) = {}
Inv_C10 == Unexplained({"C10_wedge", "C10_refuse", "C10_accept", "C10_held"}) = {}
Inv_C11 == Unexplained({"C11_unchanged", "C10_refuse"}) = {}
Inv_C13 == Unexplained({"C13_wid"}) = {}
Inv_C14 == Unexplained({"C14_startgate", "C14_siggate", "C14_events", "C14_killsent", "C14_own"}) = {}
Inv_C15 == Unexplained({"C15_dir", "C15_views", "C15_addrm", "C15_reach"}) = {}
Inv_C18 == Unexplained({"C18_confine", "C18_exact", "C18_killsig", "C18_stopsig"}) = {}
Inv_C19 == Unexplained({"C19_order", "C19_pace", "C19_auto"}) = {}
\* C10 mutual exclusion, directly on the model: at most one exclusive operation frame is alive
Inv_C10_mutex == Cardinality({ f \in FrameIds : s.fr[f].fn \in {"op", "manage_watchers"} /\ ~s.fr[f].done }) <= 1
AnyBad == { e \in bad : e[2] = "" } = {}

\* compact rendering of error traces
Alias == [out |-> <<s.out.k, s.out.w, s.out.p, s.out.a, s.out.r, s.out.x>>, bad |-> bad, now |-> s.now,
          slot |-> s.slot,
          ws |-> [i \in 1..NW(s) |-> <<s.ws[i].st, s.ws[i].np, [j \in 1..Len(s.ws[i].pr) |-> s.ws[i].pr[j].p]>>],
          dir |-> <<s.wl, [j \in 1..Len(s.wn) |-> s.wn[j].k]>>,
          k |-> [p \in 1..NP(s) |-> <<s.k[p].st, s.k[p].dying, s.k[p].stp>>],
          cur |-> [j \in 1..Len(s.cur) |-> <<s.fr[s.cur[j]].fn, s.fr[s.cur[j]].pc>>],
          rq |-> [j \in 1..Len(s.rq) |-> <<s.rq[j].kind, s.rq[j].f>>],
          tm |-> s.tm, pnext |-> s.pnext, passes |-> g.passes]
=============================================================================

CONSTANTS
  MaxFrames = 16
  Dev_PruneWithoutReap = TRUE
  Dev_AfterSpawnKillDetached = TRUE
  Dev_BuiltinIgnoreList = TRUE
  Configs <- c01_Configs
  Requests <- c01_Requests
  MaxReq = 2
  MaxDie = 1
  MaxExt = 0
  MaxFork = 0
  MaxSig = 0
  MaxNow = 9
  MaxPid = 6
  DieStatuses <- st_exit
  ObeyChoices <- both
  FaultSeqs <- nofault
  Reduce = TRUE
  ReqUntil = 4
  DieUntil = 5
INIT Init
NEXT Next
CONSTRAINT PidBound
INVARIANT AnyBad
INVARIANT Inv_C10_mutex
CHECK_DEADLOCK FALSE
ALIAS Alias
VIEW View

--------------------------- MODULE FileStream_MC ---------------------------
(* Model-checking / simulation configurations of FileStream (C20).  One cfg per configuration:      *)
(*   FileStream_small.cfg  exhaustive + simulate; ASCII text, no time_format (bytes appended = len)  *)
(*   FileStream_utf8.cfg   non-ASCII text: up to 2 bytes more than len() per write                   *)
(*   FileStream_tf.cfg     time_format "%M", pid 7: every write appends len + 10 bytes               *)
(*   FileStream_big.cfg    simulate only: larger max_bytes / backup_count / longer behaviours        *)
EXTENDS FileStream

Min(a, b) == IF a < b THEN a ELSE b

\* small: M in 0..6 (0 = no rotation), N in 0..3, write sizes 1..M+1, 8 steps, with/without pre-existing files
small_Ms        == 0..6
small_Ns        == 0..3
small_Sizes(m)  == IF m = 0 THEN 1..3 ELSE 1..(m + 1)
small_Extras(n) == {0}
small_Pre       == {2}
small_PreActive == {0, 1}

\* utf8
utf8_Ms         == {0, 3, 4, 6}
utf8_Ns         == 0..2
utf8_Sizes(m)   == IF m = 0 THEN 1..3 ELSE 1..m
utf8_Extras(n)  == 0..Min(n, 2)
utf8_Pre        == {2}

\* tf: prefix "MM [7] | " (9 bytes) + the newline that write_data adds
tf_Ms           == {0, 13, 16}
tf_Ns           == 0..2
tf_Sizes(m)     == 1..6
tf_Extras(n)    == {10}
tf_Pre          == {11}

\* big (simulation only)
big_Ms          == {0, 23, 50, 257, 1000}
big_Ns          == 0..5
big_Sizes(m)    == IF m = 0 THEN {1, 7, 100}
                   ELSE {s \in {1, 2, 7, m \div 3, m \div 2, m - 1, m, m + 1, 2 * m + 3} : s >= 1}
big_Pre         == {0, 5, 40}
big_PreActive   == {0, 9}

Zero == {0}
=============================================================================

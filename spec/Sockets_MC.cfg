\* the code as it is: no fault branch taken
CONSTANTS
  MaxEvents = 4
  MaxProcs = 3
  Fault_CloseFds = FALSE
  Fault_KeepFds = FALSE
  Fault_KeepFdsStdin = FALSE
  Fault_NoInherit = FALSE
  Fault_Rebind = FALSE
INIT Init
NEXT Next
CHECK_DEADLOCK FALSE
INVARIANT Inv_Same
INVARIANT Inv_Stable
INVARIANT Inv_NoLeak
INVARIANT Inv_ProjFaithful
INVARIANT Inv_Count
INVARIANT Inv_Stdin
PROPERTY Act_Stable

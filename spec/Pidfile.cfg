\* the code as it is: every Dev_ branch taken
CONSTANTS
  MaxOps = 3
  Dev_HugeOverflow = TRUE
  Dev_EpermOSError = TRUE
INIT Init
NEXT Next
CHECK_DEADLOCK FALSE
INVARIANT Inv_RefuseIffLive
INVARIANT Inv_DevsExplain
INVARIANT Inv_EpermHarmless
INVARIANT Inv_Fixed
INVARIANT Inv_CreateUnlink

\* the code as it is: every Dev_ branch taken
CONSTANTS
  Dev_PrefixMatch = TRUE
  Dev_NonSignalAttr = TRUE
  Dev_AttributeError = TRUE
INIT Init
NEXT Next
CHECK_DEADLOCK FALSE
INVARIANT Inv_DevsExplain
INVARIANT Inv_AttrErrorHarmless
INVARIANT Inv_SameEverywhere
INVARIANT Inv_Fixed

\* the code as it is (after the repair 9b484b7: no Dev_ branch is taken any more)
CONSTANTS
  Dev_PrefixMatch = FALSE
  Dev_NonSignalAttr = FALSE
  Dev_AttributeError = FALSE
INIT Init
NEXT Next
CHECK_DEADLOCK FALSE
INVARIANT Inv_DevsExplain
INVARIANT Inv_AttrErrorHarmless
INVARIANT Inv_SameEverywhere
INVARIANT Inv_Fixed

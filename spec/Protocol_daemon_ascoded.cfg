CONSTANTS
  Dev_EmptyNoReply = TRUE
  Dev_NonObjectNoReply = TRUE
  Dev_NoCommandNoReply = TRUE
  Dev_WaitFailNoReply = TRUE
  Dev_DeepNoReply = TRUE
  Dev_StatusOverwrite = TRUE
  Dev_NonfiniteEcho = TRUE
  Dev_QuitWaitLost = TRUE
  Dev_GarbageAborts = TRUE
  Dev_AsyncNoTimeout = TRUE
  MaxFrames = 3
  Part = "daemon"
INIT Init
NEXT Next
CHECK_DEADLOCK FALSE
INVARIANT Inv_D_Explained
INVARIANT Inv_D_AtMostOne
INVARIANT Inv_D_Run

------------------------------ MODULE ConfigEnv ------------------------------
(***************************************************************************************************)
(* C16 -- "Configuration files mean what the documentation says"  (shape O: the module DEFINES the  *)
(* expected configuration of every abstract ini file; TLC enumerates the files and writes           *)
(* (file, expectation) as JSON; harness/check_c16.py renders each file as ini text, runs the real   *)
(* circus.config.get_config + Watcher.load_from_config on it and compares).                         *)
(*                                                                                                 *)
(* Reference: /repo/docs/source/for-ops/configuration.rst                                           *)
(*   "env or env[:WATCHERS] - as many sections as you want":                                        *)
(*      [env] reaches every watcher; WATCHERS is a comma separated list, wildcards allowed;         *)
(*      "if multiple env sections match a watcher, they will be combine in the order they appear    *)
(*       in the configuration file. later entries will take precedence."                            *)
(*   "Using environment variables": "a variable defined in env:XXX will override a variable         *)
(*      defined in env, which will override a variable defined in os.environ"; "environment         *)
(*      substitutions can be used in any section of the configuration in any section variable";     *)
(*      references are spelled $(circus.env.X) (and ((circus.env.X))), "the replacement is case     *)
(*      insensitive".                                                                               *)
(*   copy_env: "the local environment variables will be copied and passed to the workers"           *)
(*      (default False): os.environ is a layer of the worker environment only with copy_env.        *)
(*   watcher:NAME: the option table OptTable below (types, defaults) is transcribed from there.     *)
(*                                                                                                 *)
(* The semantics is parameterised by a set D of deviation names: D = {} is the documented meaning, *)
(* D = ActiveDevs (the Dev_ constants that are TRUE) is the code as it is (config.py, util.py).     *)
(*   nameleak    StrictConfigParser._read stores '__name__' = section name among the options of     *)
(*               every section and items() returns it: every env section applied to a watcher       *)
(*               leaves the variable __name__ (= header of the last applied section) in the         *)
(*               environment of the workers (util.py:792, config.py:145,306,312)                    *)
(*   dupmerge    a second section with the same header is merged into the first one, at the place   *)
(*               of the first one, and does not override its keys (util.py:785-787, 805-807)        *)
(*   earlyexpand options converted through dget (int/float/bool) are expanded with                  *)
(*               os.environ + [env] only, before the env:PATTERN sections are looked at             *)
(*               (config.py:59-61, 149, 217-259)                                                    *)
(*   noexpand    stop_signal, rlimit_* and hooks.* are never expanded (config.py:231-255, 285-290)  *)
(***************************************************************************************************)
EXTENDS Integers, Sequences, FiniteSets, TLC, SequencesExt

CONSTANTS
  GlobMatch,      \* [glob -> set of watcher names it matches]      (fnmatch on the names in play)
  Spellings,      \* [variable name -> the spellings of the key in a reference that must all mean it]
  LowerOf,        \* [spelling -> lower-case form]
  DaemonAtoms,    \* os.environ of circusd: [variable -> value atom]
  ValStr,         \* [value type -> [atom -> concrete string]]   (what the atoms are, per value type)
  WatcherSyms,    \* the watcher sections the enumeration may use
  EnvSyms,        \* the [env] and [env:...] sections the enumeration may use
  NoiseSyms,      \* the socket / plugin sections the enumeration may use
  MaxLen, MaxEnv, MaxNoise, MaxRefs,
  AllowDup,       \* two env sections with the same header may appear in one file
  Dev_NameLeak, Dev_DupMerge, Dev_EarlyExpand, Dev_NoExpand

VARIABLE file     \* the abstract file built so far: a sequence of sections

---------------------------------------------------------------------------------------------------
(* Sections.  One record shape for all kinds:                                                       *)
(*   k kind  n name (watcher / socket / plugin)  g globs of an [env:g1,g2]  c copy_env              *)
(*   a body of an env section [var -> atom]      r the one option of the section holding a reference*)
EmptyFn == [x \in {} |-> ""]
NoRef == [o |-> "", x |-> "", y |-> ""]
Sec(k, n, g, c, a, r) == [k |-> k, n |-> n, g |-> g, c |-> c, a |-> a, r |-> r]
WatcherSec(n, c, r) == Sec("watcher", n, <<>>, c, EmptyFn, r)
EnvSec(a) == Sec("env", "", <<>>, FALSE, a, NoRef)
PatSec(g, a) == Sec("envpat", "", g, FALSE, a, NoRef)
NoiseSec(k, n, r) == Sec(k, n, <<>>, FALSE, EmptyFn, r)
Ref(o, x, y) == [o |-> o, x |-> x, y |-> y]      \* y: "dollar" = $(circus.env.X), "paren" = ((circus.env.X))
HasRef(s) == s.r.o # ""

---------------------------------------------------------------------------------------------------
(* The option table, transcribed from configuration.rst (watcher:NAME section).                     *)
(*   ty   documented type      def  documented default ("-" = the page states none: not asserted)   *)
(*   cls  how config.py treats a reference in it (only meaningful for the Dev_ branches):           *)
(*        S late with the full environment, G through dget, N never                                 *)
Opt(o, ty, cls, def) == [o |-> o, ty |-> ty, cls |-> cls, def |-> def]
OptTable == {
  Opt("cmd", "str", "S", "-"),               Opt("args", "str", "S", "-"),
  Opt("shell", "bool", "G", "false"),        Opt("shell_args", "str", "S", "none"),
  Opt("working_dir", "str", "S", "none"),    Opt("copy_env", "bool", "G", "false"),
  Opt("copy_path", "bool", "G", "false"),    Opt("warmup_delay", "secs", "G", "-"),
  Opt("autostart", "bool", "G", "true"),     Opt("numprocesses", "int", "G", "-"),
  Opt("rlimit_nofile", "rlimit", "N", "-"),  Opt("rlimit_core", "rlimit", "N", "-"),
  Opt("stdout_stream.class", "str", "S", "-"), Opt("stdout_stream.x", "str", "S", "-"),
  Opt("stderr_stream.class", "str", "S", "-"), Opt("stderr_stream.y", "str", "S", "-"),
  Opt("stdin_socket", "str", "S", "none"),
  Opt("close_child_stdin", "bool", "G", "true"),  Opt("close_child_stdout", "bool", "G", "false"),
  Opt("close_child_stderr", "bool", "G", "false"), Opt("send_hup", "bool", "G", "false"),
  Opt("stop_signal", "sig", "N", "SIGTERM"), Opt("stop_children", "bool", "G", "false"),
  Opt("max_retry", "int", "G", "5"),         Opt("graceful_timeout", "secs", "G", "30"),
  Opt("priority", "int", "G", "0"),          Opt("singleton", "bool", "G", "false"),
  Opt("use_sockets", "bool", "G", "false"),  Opt("max_age", "secs", "S", "0"),
  Opt("max_age_variance", "secs", "S", "30"), Opt("on_demand", "bool", "G", "-"),
  Opt("hooks.before_start", "hook", "N", "-"), Opt("hooks.after_stop", "hook", "N", "-"),
  Opt("virtualenv_py_ver", "str", "S", "none"), Opt("respawn", "bool", "G", "true"),
  Opt("foo", "str", "S", "-")                \* any other key: kept as written ("freeform")
}
OptNames == {e.o : e \in OptTable}
OptFn == [o \in OptNames |-> CHOOSE e \in OptTable : e.o = o]
OptOf(o) == OptFn[o]
OptType(o) == OptOf(o).ty
OptClass(o) == OptOf(o).cls

(* Literals of the documented types (the lexical layer is finite here on purpose: the harness       *)
(* respells them -- case, yes/on/1, blanks -- without changing which literal is meant).             *)
IntLit == ("-1" :> -1) @@ ("0" :> 0) @@ ("1" :> 1) @@ ("2" :> 2) @@ ("3" :> 3) @@ ("4" :> 4) @@ ("5" :> 5)
          @@ ("30" :> 30) @@ ("500" :> 500)
\* seconds, in tenths (TLA+ has no reals)
SecLit == ("0" :> 0) @@ ("1" :> 10) @@ ("2" :> 20) @@ ("3" :> 30) @@ ("4" :> 40) @@ ("5" :> 50) @@ ("30" :> 300)
          @@ ("0.5" :> 5) @@ ("2.5" :> 25) @@ ("1.5" :> 15)
BoolLit == [s \in {"true", "yes", "on", "1"} |-> TRUE] @@ [s \in {"false", "no", "off", "0"} |-> FALSE]
\* "Can be specified as a number or a signal name. Signal names are case-insensitive and can include
\* 'SIG' or not" -- Linux numbers
SigLit == ("hup" :> 1) @@ ("sighup" :> 1) @@ ("int" :> 2) @@ ("sigint" :> 2) @@ ("quit" :> 3) @@ ("sigquit" :> 3)
          @@ ("kill" :> 9) @@ ("sigkill" :> 9) @@ ("usr1" :> 10) @@ ("sigusr1" :> 10) @@ ("term" :> 15)
          @@ ("sigterm" :> 15) @@ ("1" :> 1) @@ ("2" :> 2) @@ ("3" :> 3) @@ ("9" :> 9) @@ ("15" :> 15)
\* "The callback definition can be followed by a boolean flag separated by a comma ... false (the default)"
HookLit == ("os.getpid" :> <<"os.getpid", FALSE>>) @@ ("os.getpid,true" :> <<"os.getpid", TRUE>>)
           @@ ("os.getcwd,false" :> <<"os.getcwd", FALSE>>) @@ ("os.getppid,yes" :> <<"os.getppid", TRUE>>)

TV(t, v) == [t |-> t, v |-> v]
Err == TV("error", "")           \* no such value: the file cannot be loaded as written
None == TV("none", "")
Unasserted == TV("unasserted", "")

Typed(ty, raw) ==
  CASE ty = "str"    -> TV("str", raw)
    [] ty = "int"    -> IF raw \in DOMAIN IntLit THEN TV("int", IntLit[raw]) ELSE Err
    [] ty = "secs"   -> IF raw \in DOMAIN SecLit THEN TV("tenths", SecLit[raw]) ELSE Err
    [] ty = "bool"   -> IF raw \in DOMAIN BoolLit THEN TV("bool", BoolLit[raw]) ELSE Err
    [] ty = "sig"    -> IF raw \in DOMAIN SigLit THEN TV("int", SigLit[raw]) ELSE Err
    [] ty = "rlimit" -> IF raw = "" THEN TV("inf", "") ELSE IF raw \in DOMAIN IntLit THEN TV("int", IntLit[raw]) ELSE Err
    [] ty = "hook"   -> IF raw \in DOMAIN HookLit THEN TV("hook", HookLit[raw]) ELSE TV("hook", <<raw, FALSE>>)

Default(o) ==
  LET e == OptOf(o) IN
  CASE e.def = "-" -> Unasserted
    [] e.def = "none" -> None
    [] e.def = "SIGTERM" -> TV("int", 15)
    [] OTHER -> Typed(e.ty, e.def)

\* the literal rows of the table that the harness may write into a watcher section
StrRaws(o) ==
  CASE o = "args" -> {"-a b --c=d"}
    [] o = "shell_args" -> {"-x"}
    [] o = "working_dir" -> {"/tmp"}
    [] o \in {"stdout_stream.class", "stderr_stream.class"} -> {"QueueStream", "StdoutStream"}
    [] o = "stdout_stream.x" -> {"out.log"}
    [] o = "stderr_stream.y" -> {"5"}
    [] o = "stdin_socket" -> {"s1"}
    [] o = "virtualenv_py_ver" -> {"3.3"}
    [] OTHER -> {"bar baz"}
Raws(e) ==
  CASE e.ty = "int" -> {"0", "1", "2", "3", "5"}
    [] e.ty = "secs" -> {"0", "1", "3", "30"}
    [] e.ty = "bool" -> {"true", "false"}
    [] e.ty = "sig" -> DOMAIN SigLit
    [] e.ty = "rlimit" -> {"", "500", "30"}
    [] e.ty = "hook" -> DOMAIN HookLit
    [] e.ty = "str" -> StrRaws(e.o)
LiteralRows == UNION { { [o |-> e.o, raw |-> raw, val |-> Typed(e.ty, raw)] : raw \in Raws(e) } :
                       e \in { e2 \in OptTable : e2.o \notin {"copy_env", "cmd"} } }
DefaultRows == { [o |-> e.o, val |-> Default(e.o)] : e \in OptTable }

\* text around the reference in the option value (the value is pre \o reference \o post)
Template(o) ==
  CASE o = "cmd" -> <<"sleep ", "">>
    [] o = "args" -> <<"-n ", " --z">>
    [] o = "stdout_stream.x" -> <<"", ".log">>
    [] o = "hooks.before_start" -> <<"os.", "">>
    [] o = "host" -> <<"", "">>
    [] o = "param" -> <<"p-", "">>
    [] OTHER -> <<"", "">>

---------------------------------------------------------------------------------------------------
(* Value atoms are given their concrete strings per file: a file whose references sit in typed      *)
(* options needs values of that type.                                                                *)
RefTypes(f) == { OptType(f[i].r.o) : i \in {j \in 1..Len(f) : f[j].k = "watcher" /\ HasRef(f[j])} } \ {"str"}
VT(f) == IF RefTypes(f) = {} THEN "str" ELSE CHOOSE t \in RefTypes(f) : TRUE
Conc(a, vt) == [x \in DOMAIN a |-> ValStr[vt][a[x]]]
CFile(f) == [i \in 1..Len(f) |-> [f[i] EXCEPT !.a = Conc(f[i].a, VT(f))]]
CDaemon(f) == Conc(DaemonAtoms, VT(f))

---------------------------------------------------------------------------------------------------
(* Environment layering.  f is a concrete file, den the concrete daemon environment.                *)
Over(base, top) == top @@ base                      \* top wins
Matches(s, w) == \E j \in 1..Len(s.g) : w \in GlobMatch[s.g[j]]
SameHdr(s, t) == s.k = t.k /\ s.n = t.n /\ s.g = t.g
IsFirst(f, i) == \A j \in 1..(i - 1) : ~SameHdr(f[j], f[i])
\* "@hdr<i>" stands for the header text of section i ("env", "env:w1,w2"), i its first occurrence
HdrTag(f, i) == "@hdr" \o ToString(CHOOSE j \in 1..i : SameHdr(f[j], f[i]) /\ IsFirst(f, j))

RECURSIVE MergeFrom(_, _, _)
MergeFrom(f, i, j) ==        \* body of header f[i] merged over its occurrences at positions >= j, first wins
  IF j > Len(f) THEN EmptyFn
  ELSE IF SameHdr(f[i], f[j]) THEN f[j].a @@ MergeFrom(f, i, j + 1) ELSE MergeFrom(f, i, j + 1)

Live(f, i, D) == "dupmerge" \notin D \/ IsFirst(f, i)
Body(f, i, D) ==
  LET b == IF "dupmerge" \in D THEN MergeFrom(f, i, i) ELSE f[i].a
  IN IF "nameleak" \in D THEN b @@ ("__name__" :> HdrTag(f, i)) ELSE b

Idx(f, P(_)) == SelectSeq([i \in 1..Len(f) |-> i], P)
EnvIdx(f, D) == Idx(f, LAMBDA i : f[i].k = "env" /\ Live(f, i, D))
PatIdx(f, w, D) == Idx(f, LAMBDA i : f[i].k = "envpat" /\ Live(f, i, D) /\ Matches(f[i], w))

RECURSIVE Apply(_, _, _, _)
Apply(f, idx, base, D) ==    \* sections applied in the order given, later over earlier
  IF idx = <<>> THEN base ELSE Apply(f, Tail(idx), Over(base, Body(f, Head(idx), D)), D)

WIdx(f, w) == CHOOSE i \in 1..Len(f) : f[i].k = "watcher" /\ f[i].n = w
WNamesOf(f) == { f[i].n : i \in {j \in 1..Len(f) : f[j].k = "watcher"} }

Local(f, D) == Apply(f, EnvIdx(f, D), EmptyFn, D)                       \* the [env] section(s)
Global(f, den, D) == Over(den, Local(f, D))                              \* ... over os.environ
\* the environment of the workers of watcher w
WEnv(f, den, w, D) ==
  Apply(f, PatIdx(f, w, D), IF f[WIdx(f, w)].c THEN Global(f, den, D) ELSE Local(f, D), D)
\* what a reference may see: "variables defined in the env section or in os.environ itself",
\* env:XXX over env over os.environ -- with or without copy_env
XEnv(f, den, w, D) == Over(Global(f, den, D), WEnv(f, den, w, D))

Env(f, den, w) == WEnv(f, den, w, {})               \* THE DOCUMENTED ENVIRONMENT OF w

---------------------------------------------------------------------------------------------------
(* Expansion of references: the key is looked up case-insensitively.                                *)
Keys(env, key) == { k \in DOMAIN env : LowerOf[k] = LowerOf[key] }
Defined(env, key) == Keys(env, key) # {}
Lookup(env, key) == env[CHOOSE k \in Keys(env, key) : TRUE]
\* option value  pre $(circus.env.KEY) post  expanded in env; an undefined reference is left as written
\* ("@ref" stands for the text of the reference, whose spelling is the harness's)
Expand(o, key, env) ==
  Template(o)[1] \o (IF Defined(env, key) THEN Lookup(env, key) ELSE "@ref") \o Template(o)[2]

\* value of the option of section s (a watcher w) that holds the reference, under deviations D
RefVal(f, den, w, D) ==
  LET r == f[WIdx(f, w)].r
      ty == OptType(r.o)
      cls == OptClass(r.o)
      late == Typed(ty, Expand(r.o, r.x, XEnv(f, den, w, D)))
  IN CASE cls = "G" /\ "earlyexpand" \in D ->
            IF Defined(Global(f, den, D), r.x) THEN Typed(ty, Expand(r.o, r.x, Global(f, den, D)))
            ELSE IF ty = "str" THEN late ELSE Err            \* int('$(circus.env.x)')
       [] cls = "N" /\ "noexpand" \in D ->
            IF ty = "hook" THEN TV("hook", <<Expand(r.o, r.x, EmptyFn), FALSE>>) ELSE Err
       [] OTHER -> late
\* does building the Watcher object succeed (Arbiter.load_from_config drops the watcher otherwise):
\* an unexpanded hook name cannot be imported
WatcherOk(f, den, w, D) ==
  LET r == f[WIdx(f, w)].r IN ~(HasRef(f[WIdx(f, w)]) /\ OptType(r.o) = "hook" /\ "noexpand" \in D)

NoiseVal(f, den, i, D) ==       \* sockets and plugins belong to no watcher: [env] over os.environ
  TV("str", Expand(f[i].r.o, f[i].r.x, Global(f, den, D)))

Result(f, den, D) ==
  LET ws == WNamesOf(f)
      refs == { w \in ws : HasRef(f[WIdx(f, w)]) }
      bad == \E w \in refs : RefVal(f, den, w, D).t = "error"
      ns == { i \in 1..Len(f) : f[i].k \in {"socket", "plugin"} /\ HasRef(f[i]) }
  IN IF bad THEN [load |-> FALSE, w |-> EmptyFn, noise |-> EmptyFn]
     ELSE [load |-> TRUE,
           w |-> [w \in ws |-> [env |-> WEnv(f, den, w, D),
                                ok |-> WatcherOk(f, den, w, D),
                                ref |-> IF w \in refs THEN RefVal(f, den, w, D) ELSE None]],
           noise |-> [n \in { f[i].n : i \in ns } |->
                         NoiseVal(f, den, CHOOSE i \in ns : f[i].n = n, D)]]

AllDevs == {"nameleak", "dupmerge", "earlyexpand", "noexpand"}
ActiveDevs == (IF Dev_NameLeak THEN {"nameleak"} ELSE {}) \cup (IF Dev_DupMerge THEN {"dupmerge"} ELSE {})
              \cup (IF Dev_EarlyExpand THEN {"earlyexpand"} ELSE {}) \cup (IF Dev_NoExpand THEN {"noexpand"} ELSE {})

\* inside the quantifier of the property: every reference is to a variable that is defined for its reader
RefsDefined(f, den) ==
  /\ \A w \in WNamesOf(f) : HasRef(f[WIdx(f, w)]) => Defined(XEnv(f, den, w, {}), f[WIdx(f, w)].r.x)
  /\ \A i \in 1..Len(f) : (f[i].k \in {"socket", "plugin"} /\ HasRef(f[i])) => Defined(Global(f, den, {}), f[i].r.x)

Candidates(f) ==
  (IF \E i \in 1..Len(f) : f[i].k \in {"env", "envpat"} THEN {"nameleak", "dupmerge"} ELSE {})
  \cup (IF \E i \in 1..Len(f) : f[i].k = "watcher" /\ HasRef(f[i]) THEN {"earlyexpand", "noexpand"} ELSE {})

IsCase(f) == WNamesOf(f) # {} /\ RefsDefined(CFile(f), CDaemon(f))

Case(f) ==
  LET cf == CFile(f)
      den == CDaemon(f)
      code == Result(cf, den, ActiveDevs)
  IN [f |-> cf, vt |-> VT(f), den |-> den,
      doc |-> Result(cf, den, {}),
      code |-> code,
      \* the deviations this case depends on: dropping d alone changes the prediction
      devs |-> { d \in ActiveDevs \cap Candidates(f) : Result(cf, den, ActiveDevs \ {d}) # code }]

---------------------------------------------------------------------------------------------------
(* Enumeration: every file of at most MaxLen sections, as the state space.                          *)
Count(f, ks) == Cardinality({ i \in 1..Len(f) : f[i].k \in ks })
NRefs(f) == Cardinality({ i \in 1..Len(f) : HasRef(f[i]) /\ f[i].k = "watcher" })
CanAppend(f, s) ==
  /\ Len(f) < MaxLen
  /\ CASE s.k = "watcher" ->
             /\ s.n \notin WNamesOf(f)
             /\ HasRef(s) => (NRefs(f) < MaxRefs /\ Cardinality(RefTypes(Append(f, s))) <= 1)
        [] s.k \in {"socket", "plugin"} ->
             /\ Count(f, {"socket", "plugin"}) < MaxNoise
             /\ \A i \in 1..Len(f) : ~SameHdr(f[i], s)
        [] s.k \in {"env", "envpat"} ->
             /\ Count(f, {"env", "envpat"}) < MaxEnv
             /\ (AllowDup \/ \A i \in 1..Len(f) : ~SameHdr(f[i], s))
Alphabet == WatcherSyms \cup EnvSyms \cup NoiseSyms

Init == file = <<>>
Next == \E s \in Alphabet : (CanAppend(file, s) = TRUE) /\ file' = Append(file, s)
Spec == Init /\ [][Next]_file

(* The same state space cut into n parts that n TLC processes explore side by side: part k starts from    *)
(* its share of the files of length <= 2 (by the positions of their symbols in the alphabet) and extends  *)
(* only files of length >= 2, so that every file is a state of exactly one part.                          *)
AlphaSeq == SetToSeq(Alphabet)            \* (a constant: TLC evaluates it once)
NAlpha == Len(AlphaSeq)
ShardRoots(k, n) ==
  LET ones == { i \in 1..NAlpha : CanAppend(<<>>, AlphaSeq[i]) }
      twos == { p \in ones \X (1..NAlpha) : (p[1] * 7 + p[2]) % n = k /\ CanAppend(<<AlphaSeq[p[1]]>>, AlphaSeq[p[2]]) }
  IN (IF k = 0 THEN {<<>>} ELSE {})
     \cup { <<AlphaSeq[i]>> : i \in { j \in ones : j % n = k } }
     \cup { <<AlphaSeq[p[1]], AlphaSeq[p[2]]>> : p \in twos }
ShardNext == Len(file) >= 2 /\ Next

---------------------------------------------------------------------------------------------------
(* What TLC checks on every file: the fold above against the declarative reading of the text.       *)
\* position of the section of f that decides variable x for watcher w (0 = os.environ, -1 = nobody)
Decider(f, w, x) ==
  LET pats == { i \in 1..Len(f) : f[i].k = "envpat" /\ Matches(f[i], w) /\ x \in DOMAIN f[i].a }
      envs == { i \in 1..Len(f) : f[i].k = "env" /\ x \in DOMAIN f[i].a }
      Hi(S) == CHOOSE m \in S : \A n \in S : n <= m
  IN IF pats # {} THEN Hi(pats) ELSE IF envs # {} THEN Hi(envs)
     ELSE IF f[WIdx(f, w)].c /\ x \in DOMAIN DaemonAtoms THEN 0 ELSE -1

AllVars == DOMAIN DaemonAtoms \cup UNION { DOMAIN s.a : s \in EnvSyms }

\* env:NAME over env over os.environ (only with copy_env), later matching sections over earlier ones
Inv_Precedence ==
  \A w \in WNamesOf(file) :
     LET e == WEnv(file, DaemonAtoms, w, {}) IN
     \A x \in AllVars :
        LET d == Decider(file, w, x)
        IN /\ (x \in DOMAIN e) <=> (d >= 0)
           /\ d > 0 => e[x] = file[d].a[x]
           /\ d = 0 => e[x] = DaemonAtoms[x]

\* references: same precedence, os.environ visible with or without copy_env, any spelling of the key
Inv_Expand ==
  \A w \in WNamesOf(file) :
     LET xe == XEnv(file, DaemonAtoms, w, {})
         e == WEnv(file, DaemonAtoms, w, {})
     IN /\ DOMAIN xe = DOMAIN e \cup DOMAIN DaemonAtoms
        /\ \A x \in AllVars :
              /\ x \in DOMAIN e => xe[x] = e[x]
              /\ \A k \in Spellings[x] : Defined(xe, k) <=> x \in DOMAIN xe
              /\ x \in DOMAIN xe => \A k \in Spellings[x] : Lookup(xe, k) = xe[x]

\* the deviations are confined: where none of them applies the code model IS the documented meaning
DevApplies(f) ==
  \/ \E i \in 1..Len(f) : f[i].k \in {"env", "envpat"}          \* nameleak, dupmerge
  \/ \E i \in 1..Len(f) : f[i].k = "watcher" /\ HasRef(f[i]) /\ OptClass(f[i].r.o) # "S"
Inv_Confined ==
  (WNamesOf(file) # {} /\ ~DevApplies(file)) =>
     Result(CFile(file), CDaemon(file), AllDevs) = Result(CFile(file), CDaemon(file), {})

=============================================================================

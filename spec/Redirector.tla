------------------------------ MODULE Redirector ------------------------------
(***************************************************************************************************)
(* C17 -- captured worker output is delivered complete, in order, once, correctly labelled.        *)
(*                                                                                                 *)
(* The model follows circus/stream/redirector.py, the callers in circus/watcher.py                 *)
(* (spawn_process: start(); add_redirections -- kill_process: remove_redirections; process.stop()  *)
(* -- reap_process: process.stop() ONLY -- _stop: redirector.stop()) and                           *)
(* circus/process.py (stop -> close_output_channels), as they are.                                 *)
(*                                                                                                 *)
(*   worker slot w     one place of a watcher; holds at most one generation (pid) at a time        *)
(*   redirector r      one Redirector object (= one watcher); RedOf[w] says which one serves w;    *)
(*                     all redirectors share ONE event loop (as all watchers of a daemon do)       *)
(*   fd                a descriptor NUMBER of the daemon (read end of a pipe); numbers are reused   *)
(*   unit              a small piece of output; unit k of a generation is the integer k, so        *)
(*                     written[w][ch] = <<1, .., n>> and order/duplication/loss are all visible     *)
(*                                                                                                 *)
(* loop[f] is the handler table of the event loop (tornado: IOLoop.handlers, one entry per fd      *)
(* number, `add_handler` on a number already present raises ValueError("fd added twice")).         *)
(* `live` says whether the kernel still reports readiness for that entry: closing the descriptor   *)
(* silently drops it from epoll, the table entry stays.                                            *)
(*                                                                                                 *)
(* Deviation modelled as coded (TRUE = as the code behaves):                                       *)
(*   Dev_StaleAfterReap  Process.stop() closes the read ends and nobody tells the redirector       *)
(*                       (reap path: watcher.reap_process never calls remove_redirections): the    *)
(*                       entries of these fd numbers stay in Redirector.pipes / _active and in    *)
(*                       the loop's handler table.  The same redirector repairs this when it sees  *)
(*                       the number again (add_redirections starts with _stop_one(fd)); ANOTHER     *)
(*                       redirector on the same loop cannot: its add_handler raises, the exception *)
(*                       leaves add_redirections half-way, watcher.spawn_process swallows it       *)
(*                       (except (OSError, ValueError)) and the worker runs unwatched (`orphan`).  *)
(***************************************************************************************************)
EXTENDS Naturals, Sequences, FiniteSets, TLC

CONSTANTS Workers,            \* worker slots
          Reds,               \* redirector ids (positive integers)
          RedOf,              \* [Workers -> Reds]
          MaxFd,              \* descriptor numbers are 1..MaxFd
          FdAny,              \* TRUE: a new pipe pair gets any two free numbers; FALSE: the two lowest (kernel rule), in either order
          Buffer,             \* Redirector.buffer, in units
          MaxChunk,           \* a single write is 1..MaxChunk units
          MaxWrite,           \* units a generation writes per channel, at most
          PipeCap,            \* pipe capacity in units
          MaxGen,             \* generations per worker slot over the whole behaviour
          MaxWrites,          \* write calls over the whole behaviour (bounds the product of the channels' states)
          MaxCloses,          \* channels closed by running workers over the whole behaviour
          MaxChanges,         \* `set NAME stdout_stream.* / stderr_stream.*` requests over the whole behaviour
          Atomic,             \* see Next
          Record,             \* keep the history variable (simulation, counterexample search); FALSE: exhaustive runs
          DumpAt,             \* history lengths at which MC wrappers dump the history (simulation)
          Dev_StaleAfterReap

VARIABLES pid,        \* [w]      pid of the generation in slot w, 0 = none
          gen,        \* [w]      generations started in slot w so far; generation g of slot w has pid 10*w + g
          alive,      \* [w]      running(p): the worker process exists and has not exited
          wopen,      \* [w][ch]  the worker still holds the write end
          rfd,        \* [w][ch]  fd number of the read end held by the Process object, 0 = closed / none
          phase,      \* [w]      none | spawned | redirected | removed | orphan
          written,    \* [w][ch]  what the generation wrote so far
          pipe,       \* [w][ch]  FIFO content of the pipe
          rstate,     \* [r]      new | running | stopped       (Redirector.running; stopped is final: watcher._stop drops it)
          pipes,      \* [r][f]   f \in DOMAIN Redirector.pipes (the value is never read back by what is modelled)
          loop,       \* [f]      handler table of the loop: [red, name, pid, live] or NoReg   (red's _active = entries with that red)
          fdOpen,     \* set of open read-end descriptors of the daemon
          eof,        \* [w][ch]  how often a handler saw EOF on the current file
          budget,     \* [writes, closes, changes] spent so far (bounds only)
          target,     \* [r][ch]  which stream object is configured for channel ch of watcher r (0 = the one it
                      \*          started with; every `set ...stream...` installs a new one)
          delivered,  \* sequence of records handed to the stream callables
          hist        \* history of actions with the observable model state after each (hidden from the VIEW)

vars == <<pid, gen, alive, wopen, rfd, phase, written, pipe, rstate, pipes, loop, fdOpen, eof, budget, target, delivered, hist>>

Chans   == {"stdout", "stderr"}
Fds     == 1..MaxFd
NoReg   == [red |-> 0, name |-> "", pid |-> 0, live |-> FALSE]
NoPipe  == FALSE
Stale(r) == [red |-> r, name |-> "", pid |-> 0, live |-> FALSE]    \* a dead entry never fires: its label is immaterial

PidOf(w, g) == 10 * w + g
Min(a, b) == IF a < b THEN a ELSE b
LowestFree(S) == CHOOSE f \in Fds \ S : \A g \in Fds \ S : f <= g
MyFds(w) == {rfd[w][ch] : ch \in Chans} \ {0}
Owner(f) == {o \in Workers \X Chans : rfd[o[1]][o[2]] = f}

IsPrefix(a, b) == Len(a) <= Len(b) /\ a = SubSeq(b, 1, Len(a))

RECURSIVE Cat(_)
Cat(ss) == IF ss = <<>> THEN <<>> ELSE Head(ss) \o Cat(Tail(ss))
DataOf(p, ch) == LET recs == SelectSeq(delivered, LAMBDA r : r.pid = p /\ r.name = ch)
                 IN  Cat([i \in DOMAIN recs |-> recs[i].data])

(* the kernel reports f readable to the loop *)
Readable(f) == /\ loop[f].red # 0 /\ loop[f].live
               /\ \E o \in Owner(f) : pipe[o[1]][o[2]] # <<>> \/ ~wopen[o[1]][o[2]]

Obs == [reg  |-> {[f |-> f, red |-> loop[f].red, name |-> loop[f].name, pid |-> loop[f].pid] :
                     f \in {g \in Fds : loop[g].red # 0}},
        open |-> fdOpen,
        rd   |-> {f \in Fds : Readable(f)},
        run  |-> {w \in Workers : pid[w] # 0 /\ alive[w]},
        nd   |-> Len(delivered)]

Log(e) == hist' = IF Record THEN Append(hist, e @@ [obs |-> Obs']) ELSE hist     \* last conjunct of every action

-----------------------------------------------------------------------------------------------------
Init ==
  /\ pid = [w \in Workers |-> 0] /\ gen = [w \in Workers |-> 0]
  /\ alive = [w \in Workers |-> FALSE]
  /\ wopen = [w \in Workers |-> [ch \in Chans |-> FALSE]]
  /\ rfd = [w \in Workers |-> [ch \in Chans |-> 0]]
  /\ phase = [w \in Workers |-> "none"]
  /\ written = [w \in Workers |-> [ch \in Chans |-> <<>>]]
  /\ pipe = [w \in Workers |-> [ch \in Chans |-> <<>>]]
  /\ rstate = [r \in Reds |-> "new"]
  /\ pipes = [r \in Reds |-> [f \in Fds |-> NoPipe]]
  /\ loop = [f \in Fds |-> NoReg]
  /\ fdOpen = {}
  /\ eof = [w \in Workers |-> [ch \in Chans |-> 0]]
  /\ budget = [writes |-> 0, closes |-> 0, changes |-> 0]
  /\ target = [r \in Reds |-> [ch \in Chans |-> 0]]
  /\ delivered = <<>>
  /\ hist = <<>>

(* Redirector.start() -- watcher.spawn_process calls it before every spawn; only the first call does anything *)
Start(r) ==
  /\ rstate[r] = "new"
  /\ rstate' = [rstate EXCEPT ![r] = "running"]
  /\ UNCHANGED <<budget, target, pid, gen, alive, wopen, rfd, phase, written, pipe, pipes, loop, fdOpen, eof, delivered>>
  /\ Log([a |-> "start", r |-> r])

(* Redirector.stop(): every handler of this redirector leaves the loop (stale ones included); pipes stays *)
Stop(r) ==
  /\ rstate[r] = "running"
  /\ rstate' = [rstate EXCEPT ![r] = "stopped"]
  /\ loop' = [f \in Fds |-> IF loop[f].red = r THEN NoReg ELSE loop[f]]
  /\ UNCHANGED <<budget, target, pid, gen, alive, wopen, rfd, phase, written, pipe, pipes, fdOpen, eof, delivered>>
  /\ Log([a |-> "stop", r |-> r])

(* Process(...): Popen with stdout=PIPE, stderr=PIPE: two new descriptors, a new pid *)
Spawn(w) ==
  /\ phase[w] = "none" /\ gen[w] < MaxGen /\ rstate[RedOf[w]] = "running"
  /\ \E fo, fe \in Fds \ fdOpen :
       /\ fo # fe
       /\ FdAny \/ {fo, fe} = {LowestFree(fdOpen), LowestFree(fdOpen \cup {LowestFree(fdOpen)})}
       /\ pid' = [pid EXCEPT ![w] = PidOf(w, gen[w] + 1)] /\ gen' = [gen EXCEPT ![w] = @ + 1]
       /\ alive' = [alive EXCEPT ![w] = TRUE]
       /\ wopen' = [wopen EXCEPT ![w] = [ch \in Chans |-> TRUE]]
       /\ rfd' = [rfd EXCEPT ![w] = [ch \in Chans |-> IF ch = "stdout" THEN fo ELSE fe]]
       /\ phase' = [phase EXCEPT ![w] = "spawned"]
       /\ fdOpen' = fdOpen \cup {fo, fe}
       /\ UNCHANGED <<budget, target, written, pipe, rstate, pipes, loop, eof, delivered>>
       /\ Log([a |-> "spawn", w |-> w, pid |-> PidOf(w, gen[w] + 1), fo |-> fo, fe |-> fe])

(* Redirector.add_redirections(process): stdout then stderr;
     fd = pipe.fileno(); _stop_one(fd); pipes[fd] = ..; if running: _start_one(fd) -> loop.add_handler  *)
AddStep(st, r, p, f, ch) ==
  IF ~st.ok THEN st
  ELSE LET l1 == IF st.loop[f].red = r THEN [st.loop EXCEPT ![f] = NoReg] ELSE st.loop      \* _stop_one: own entries only
           p1 == [st.pipes EXCEPT ![r][f] = TRUE]
       IN  IF rstate[r] # "running" THEN [loop |-> l1, pipes |-> p1, ok |-> TRUE]
           ELSE IF l1[f].red # 0 THEN [loop |-> l1, pipes |-> p1, ok |-> FALSE]            \* "fd added twice"
           ELSE [loop |-> [l1 EXCEPT ![f] = [red |-> r, name |-> ch, pid |-> p, live |-> TRUE]],
                 pipes |-> p1, ok |-> TRUE]

AddRedirections(w) ==
  LET r  == RedOf[w]
      s0 == [loop |-> loop, pipes |-> pipes, ok |-> TRUE]
      s1 == AddStep(s0, r, pid[w], rfd[w]["stdout"], "stdout")
      s2 == AddStep(s1, r, pid[w], rfd[w]["stderr"], "stderr")
  IN  /\ phase[w] = "spawned" /\ rstate[r] # "new"
      /\ loop' = s2.loop /\ pipes' = s2.pipes
      /\ phase' = [phase EXCEPT ![w] = IF s2.ok THEN "redirected" ELSE "orphan"]
      /\ UNCHANGED <<budget, target, pid, gen, alive, wopen, rfd, written, pipe, rstate, fdOpen, eof, delivered>>
      /\ Log([a |-> "add", w |-> w, ok |-> s2.ok])

WorkerWrite(w, ch, n) ==
  /\ pid[w] # 0 /\ alive[w] /\ wopen[w][ch]
  /\ Len(written[w][ch]) + n <= MaxWrite
  /\ Len(pipe[w][ch]) + n <= PipeCap
  /\ budget.writes < MaxWrites /\ budget' = [budget EXCEPT !.writes = @ + 1]
  /\ LET new == [i \in 1..n |-> Len(written[w][ch]) + i]
     IN  /\ written' = [written EXCEPT ![w][ch] = @ \o new]
         /\ pipe' = [pipe EXCEPT ![w][ch] = @ \o new]
  /\ UNCHANGED <<target, pid, gen, alive, wopen, rfd, phase, rstate, pipes, loop, fdOpen, eof, delivered>>
  /\ Log([a |-> "write", w |-> w, ch |-> ch, n |-> n])

(* the worker closes one of its output channels and keeps running *)
WorkerClose(w, ch) ==
  /\ pid[w] # 0 /\ alive[w] /\ wopen[w][ch]
  /\ wopen' = [wopen EXCEPT ![w][ch] = FALSE]
  /\ budget.closes < MaxCloses /\ budget' = [budget EXCEPT !.closes = @ + 1]
  /\ UNCHANGED <<target, pid, gen, alive, rfd, phase, written, pipe, rstate, pipes, loop, fdOpen, eof, delivered>>
  /\ Log([a |-> "wclose", w |-> w, ch |-> ch])

(* the worker exits or is killed: every write end goes *)
WorkerExit(w) ==
  /\ pid[w] # 0 /\ alive[w]
  /\ alive' = [alive EXCEPT ![w] = FALSE]
  /\ wopen' = [wopen EXCEPT ![w] = [ch \in Chans |-> FALSE]]
  /\ UNCHANGED <<budget, target, pid, gen, rfd, phase, written, pipe, rstate, pipes, loop, fdOpen, eof, delivered>>
  /\ Log([a |-> "exit", w |-> w])

(* the loop invokes the handler registered for f: os.read(fd, buffer); b"" -> remove_fd(fd) *)
DaemonRead(f) ==
  /\ Readable(f)
  /\ \E o \in Owner(f) :
       LET w == o[1]  ch == o[2]  k == Min(Buffer, Len(pipe[w][ch])) IN
       IF k > 0
       THEN /\ delivered' = Append(delivered, [pid |-> loop[f].pid, name |-> loop[f].name, red |-> loop[f].red,
                                               data |-> SubSeq(pipe[w][ch], 1, k),
                                               sid  |-> target[loop[f].red][loop[f].name],   \* redirect[name] is looked up per record
                                               opid |-> pid[w], och |-> ch, ored |-> RedOf[w],
                                               osid |-> target[RedOf[w]][ch]])
            /\ pipe' = [pipe EXCEPT ![w][ch] = SubSeq(@, k + 1, Len(@))]
            /\ UNCHANGED <<budget, target, pid, gen, alive, wopen, rfd, phase, written, rstate, pipes, loop, fdOpen, eof>>
            /\ Log([a |-> "read", f |-> f, k |-> k, pid |-> loop[f].pid, name |-> loop[f].name, red |-> loop[f].red,
                    sid |-> target[loop[f].red][loop[f].name], data |-> SubSeq(pipe[w][ch], 1, k)])
       ELSE /\ loop' = [loop EXCEPT ![f] = NoReg]
            /\ pipes' = [pipes EXCEPT ![loop[f].red][f] = NoPipe]
            /\ eof' = [eof EXCEPT ![w][ch] = @ + 1]
            /\ UNCHANGED <<budget, target, pid, gen, alive, wopen, rfd, phase, written, pipe, rstate, fdOpen, delivered>>
            /\ Log([a |-> "read", f |-> f, k |-> 0, pid |-> loop[f].pid, name |-> loop[f].name, red |-> loop[f].red,
                    sid |-> target[loop[f].red][loop[f].name], data |-> <<>>])

(* `set NAME stdout_stream.KEY VALUE` (watcher.set_opt -> _reload_stream): a new stream object is built from    *)
(* the changed configuration, Redirector.change_stream(ch, new) swaps redirect[ch], the old stream is closed.   *)
(* The redirector, its pipes and its handlers stay as they are: the workers keep running (action 0, no restart) *)
(* and what they write from now on belongs to the new stream.  (A watcher that is stopped has no redirector:     *)
(* _stop sets it to None; that branch builds a fresh one and is outside this model.)                           *)
ChangeStream(r, ch) ==
  /\ rstate[r] # "stopped"
  /\ budget.changes < MaxChanges /\ budget' = [budget EXCEPT !.changes = @ + 1]
  /\ target' = [target EXCEPT ![r][ch] = @ + 1]
  /\ UNCHANGED <<pid, gen, alive, wopen, rfd, phase, written, pipe, rstate, pipes, loop, fdOpen, eof, delivered>>
  /\ Log([a |-> "chstream", r |-> r, ch |-> ch, sid |-> target[r][ch] + 1])

(* watcher.kill_process, after the worker is gone: Redirector.remove_redirections(process) *)
RemoveRedirections(w) ==
  LET r == RedOf[w] IN
  /\ phase[w] = "redirected" /\ ~alive[w]
  /\ loop' = [f \in Fds |-> IF f \in MyFds(w) /\ loop[f].red = r THEN NoReg ELSE loop[f]]
  /\ pipes' = [pipes EXCEPT ![r] = [f \in Fds |-> IF f \in MyFds(w) THEN NoPipe ELSE @[f]]]
  /\ phase' = [phase EXCEPT ![w] = "removed"]
  /\ UNCHANGED <<budget, target, pid, gen, alive, wopen, rfd, written, pipe, rstate, fdOpen, eof, delivered>>
  /\ Log([a |-> "remove", w |-> w])

(* Process.stop() -> close_output_channels(): both read ends are closed; whatever was unread is gone.
   Reached from kill_process (after remove_redirections) and from reap_process (WITHOUT it).        *)
CloseOutputs(w) ==
  LET r == RedOf[w] IN
  /\ phase[w] \in {"spawned", "redirected", "removed"} /\ pid[w] # 0 /\ ~alive[w]
  /\ IF Dev_StaleAfterReap
     THEN /\ loop' = [f \in Fds |-> IF f \in MyFds(w) /\ loop[f].red # 0 THEN Stale(loop[f].red) ELSE loop[f]]
          /\ pipes' = pipes
     ELSE /\ loop' = [f \in Fds |-> IF f \in MyFds(w) THEN NoReg ELSE loop[f]]
          /\ pipes' = [pipes EXCEPT ![r] = [f \in Fds |-> IF f \in MyFds(w) THEN NoPipe ELSE @[f]]]
  /\ fdOpen' = fdOpen \ MyFds(w)
  /\ pid' = [pid EXCEPT ![w] = 0]
  /\ rfd' = [rfd EXCEPT ![w] = [ch \in Chans |-> 0]]
  /\ wopen' = [wopen EXCEPT ![w] = [ch \in Chans |-> FALSE]]
  /\ phase' = [phase EXCEPT ![w] = "none"]
  /\ written' = [written EXCEPT ![w] = [ch \in Chans |-> <<>>]]
  /\ pipe' = [pipe EXCEPT ![w] = [ch \in Chans |-> <<>>]]
  /\ eof' = [eof EXCEPT ![w] = [ch \in Chans |-> 0]]
  /\ UNCHANGED <<budget, target, gen, alive, rstate, delivered>>
  /\ Log([a |-> "pstop", w |-> w])

(* watcher.spawn_process runs Process(...) and add_redirections in one callback, watcher.kill_process runs  *)
(* remove_redirections and process.stop() in one callback: while such a pair is half done nothing else of  *)
(* the daemon runs, and what a worker does meanwhile commutes with it.  (Atomic = TRUE encodes that; with  *)
(* FALSE every interleaving of the halves is explored as well.)                                           *)
Pending == {w \in Workers : phase[w] \in {"spawned", "removed"}}
Next ==
  \/ \E w \in Workers : AddRedirections(w) \/ (phase[w] = "removed" /\ CloseOutputs(w))
  \/ /\ Atomic => Pending = {}
     /\ \/ \E r \in Reds : Start(r) \/ Stop(r) \/ \E ch \in Chans : ChangeStream(r, ch)
        \/ \E w \in Workers : \/ Spawn(w) \/ WorkerExit(w)
                              \/ RemoveRedirections(w) \/ (phase[w] # "removed" /\ CloseOutputs(w))
                              \/ \E ch \in Chans : \/ WorkerClose(w, ch)
                                                   \/ \E n \in 1..MaxChunk : WorkerWrite(w, ch, n)
        \/ \E f \in Fds : DaemonRead(f)

Spec == Init /\ [][Next]_vars

-----------------------------------------------------------------------------------------------------
(* The property.  Records of past generations are frozen together with what those generations wrote *)
(* (nothing is delivered for a closed file, see C17_Label), so the clauses about payload range over  *)
(* the current generations and are invariants of every state.                                        *)

C17_Prefix == \A w \in Workers, ch \in Chans : pid[w] # 0 => IsPrefix(DataOf(pid[w], ch), written[w][ch])

C17_Done   == \A w \in Workers, ch \in Chans :
                 pid[w] # 0 /\ alive[w] /\ pipe[w][ch] = <<>> => DataOf(pid[w], ch) = written[w][ch]

LabelOK(r) == r.pid = r.opid /\ r.name = r.och /\ r.red = r.ored /\ r.sid = r.osid /\ r.data # <<>> /\ Len(r.data) <= Buffer
C17_Label  == \A i \in DOMAIN delivered : LabelOK(delivered[i])

C17_EOF    == \A w \in Workers, ch \in Chans :
                 /\ eof[w][ch] <= 1
                 /\ eof[w][ch] = 1 => /\ loop[rfd[w][ch]].red = 0
                                      /\ pipes[RedOf[w]][rfd[w][ch]] = NoPipe

C17_Fds    == /\ fdOpen = UNION {MyFds(w) : w \in Workers}
              /\ Cardinality(fdOpen) = 2 * Cardinality({w \in Workers : pid[w] # 0})

(* safety core of "reaches the stream": once spawn_process is through with a running worker and the *)
(* redirector runs, each channel not yet at EOF is watched by a live handler with the right label    *)
Watched(w) == \A ch \in Chans :
                 eof[w][ch] = 0 => loop[rfd[w][ch]] = [red |-> RedOf[w], name |-> ch, pid |-> pid[w], live |-> TRUE]
C17_Watched    == \A w \in Workers :
                     pid[w] # 0 /\ alive[w] /\ phase[w] \in {"redirected", "orphan"} /\ rstate[RedOf[w]] = "running"
                        => Watched(w)
(* the same, modulo the proposed finding (signature: the worker is an orphan of a raising add_redirections) *)
C17_Watched_KF == \A w \in Workers :
                     pid[w] # 0 /\ alive[w] /\ phase[w] = "redirected" /\ rstate[RedOf[w]] = "running"
                        => Watched(w)
NoOrphan == \A w \in Workers : phase[w] # "orphan"

TypeOK == /\ \A w \in Workers : phase[w] \in {"none", "spawned", "redirected", "removed", "orphan"}
          /\ \A r \in Reds : rstate[r] \in {"new", "running", "stopped"}
          /\ \A f \in Fds : loop[f].live => f \in fdOpen
          /\ \A w \in Workers, ch \in Chans : Len(pipe[w][ch]) <= PipeCap /\ Len(written[w][ch]) <= MaxWrite
=====================================================================================================

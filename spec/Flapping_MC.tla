---------------------------- MODULE Flapping_MC ----------------------------
(* Model-checking / simulation wrapper of Flapping: constants a cfg cannot express, and the dumping of histories *)
(* as JSON for the replay on the real plugin class (harness/check_flapping.py).  Time unit: 1 s.                *)
EXTENDS Flapping, Json

W1 == {"w1"}
W2 == {"w1", "w2"}
Def == [attempts |-> 2, window |-> 1, retry_in |-> 3, max_retry |-> 2, active |-> TRUE]
Ovr == { [attempts |-> 1, window |-> 1, retry_in |-> 1, max_retry |-> 1, active |-> TRUE],
         [attempts |-> 3, window |-> 0, retry_in |-> 5, max_retry |-> -1, active |-> TRUE],
         [attempts |-> 2, window |-> 2, retry_in |-> 2, max_retry |-> 0, active |-> TRUE],
         [attempts |-> 2, window |-> 1, retry_in |-> 3, max_retry |-> 2, active |-> FALSE] }
NoOvr == {}
DumpAt == {8, 16, 24}
DumpAction == /\ Len(out) \in DumpAt
              /\ PrintT(<<"BEH", ToJson(out)>>)
              /\ FALSE
              /\ UNCHANGED vars
MCNext == Next \/ DumpAction
(* counterexample searches: print the history of the first state that breaks the formula, and stop *)
OnePendingDump    == OnePending \/ (PrintT(<<"CEX", ToJson(out)>>) /\ FALSE)
TimelineShortDump == TimelineShort \/ (PrintT(<<"CEX", ToJson(out)>>) /\ FALSE)
=============================================================================

------------------------------ MODULE TraceMon ------------------------------
(***************************************************************************)
(* Monitor pass of trace validation: replays behaviours RECORDED FROM THE  *)
(* REAL IMPLEMENTATION (sim or live binding) and evaluates every property  *)
(* clause of Monitors.tla at every step.  One TLC run checks a whole batch *)
(* of traces (one initial state per trace); verdicts are printed, one line *)
(* per trace, as <<"VERDICT", trace index, {<<clause, line>>, ...}>>.      *)
(***************************************************************************)
EXTENDS Monitors, Json, IOUtils

Traces == JsonDeserialize(IOEnv.TRACE_FILE)

VARIABLES tid, l, o, g, bad

EmptyObs == [slot |-> "", stopping |-> FALSE, restarting |-> FALSE, wl |-> <<>>, wll |-> <<>>, wn |-> <<>>,
             w |-> <<>>, k |-> <<>>, fl |-> 0]

Init == /\ tid \in 1..Len(Traces)
        /\ l = 0 /\ o = EmptyObs /\ g = GhostInit /\ bad = {}

Next == /\ l < Len(Traces[tid])
        /\ LET ln == Traces[tid][l + 1]
               o2 == IF "s" \in DOMAIN ln THEN ln.s ELSE o
               g2 == Upd(g, o, ln, o2)
               b  == BadKF(g, o, ln, o2, g2)
               \* first occurrence of every (clause, finding) pair
               nb == bad \cup { <<e[1], ln.i, e[2]>> : e \in { m \in b : ~\E e \in bad : e[1] = m[1] /\ e[3] = m[2] } }
           IN /\ l' = l + 1 /\ o' = o2 /\ g' = g2 /\ bad' = nb /\ tid' = tid
              /\ (l + 1 = Len(Traces[tid]) => PrintT(<<"VERDICT", tid, l + 1, nb>>))

View == <<tid, l>>

Spec == Init /\ [][Next]_<<tid, l, o, g, bad>>
=============================================================================

\* Family E (env structure) of C16 at the quick bounds, model-checking half: the state space is the set of
\* abstract files; the invariants check the oracle's fold against the declarative reading of the text.
\* harness/check_c16.py writes this file (and the one of family R, and the Stutter/POSTCONDITION Emit
\* variants that write the cases out) into its scratch directory; this copy is for running TLC by hand:
\*   java -cp tla2tools.jar:CommunityModules-deps.jar tlc2.TLC -workers 16 -config ConfigEnv.cfg ConfigEnv_MC.tla
CONSTANTS
  GlobMatch <- mc_GlobMatch
  Spellings <- mc_Spellings
  LowerOf <- mc_LowerOf
  DaemonAtoms <- mc_DaemonAtoms
  ValStr <- mc_ValStr
  WatcherSyms <- E_WatcherSyms
  EnvSyms <- E_EnvSyms
  NoiseSyms <- E_NoiseSyms
  MaxLen = 4
  MaxEnv = 3
  MaxNoise = 1
  MaxRefs = 0
  AllowDup = TRUE
  Dev_NameLeak = TRUE
  Dev_DupMerge = TRUE
  Dev_EarlyExpand = TRUE
  Dev_NoExpand = TRUE
INIT Init
NEXT Next
CHECK_DEADLOCK FALSE
INVARIANT Inv_Precedence
INVARIANT Inv_Expand
INVARIANT Inv_Confined

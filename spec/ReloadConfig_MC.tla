--------------------------- MODULE ReloadConfig_MC ---------------------------
(* Model-checking constants of ReloadConfig (cfg files cannot express records). *)
EXTENDS ReloadConfig

R(np, c, e, o) == [np |-> np, cmd |-> c, env |-> e, opt |-> o]

two_NameSeq   == <<"a", "b">>
three_NameSeq == <<"a", "b", "c">>

mc_CmdVers == {1, 2}
mc_EnvVers == {1, 2}
mc_OptVals == {1, 2}
mc_AddRecs == {R(1, 1, 1, 0), R(2, 2, 2, 1)}

\* two names: one watcher only (the other name is free for "add"), and two watchers of which one spells the optional key
two_InitFiles ==
    { [n \in {"a", "b"} |-> IF n = "a" THEN R(1, 1, 1, 0) ELSE NoRec],
      [n \in {"a", "b"} |-> IF n = "a" THEN R(2, 1, 1, 1) ELSE R(1, 2, 1, 0)] }

three_InitFiles ==
    { [n \in {"a", "b", "c"} |-> CASE n = "a" -> R(1, 1, 1, 0) [] n = "b" -> R(2, 1, 2, 1) [] OTHER -> NoRec],
      [n \in {"a", "b", "c"} |-> CASE n = "a" -> R(3, 2, 1, 2) [] n = "b" -> R(1, 1, 1, 0) [] OTHER -> R(2, 2, 2, 0)] }
=============================================================================

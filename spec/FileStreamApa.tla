--------------------------- MODULE FileStreamApa ---------------------------
(***************************************************************************)
(* C20, thorough-tier extra: the rotation of FileStream.tla (ASCII text,   *)
(* no time_format: bytes appended = len(data)) restated for Apalache, with *)
(* UNBOUNDED max_bytes M and write sizes, backup_count N in 0..3, and the  *)
(* shift loop of _do_rollover unrolled for N <= 3.  Apalache discharges    *)
(*     Init => IndInv,   IndInv /\ Next => IndInv',   IndInv => C20_All    *)
(* i.e. C20_Size /\ C20_Count /\ C20_Tail hold in every reachable state,   *)
(* whatever the parameters, the pre-existing directory and the number of   *)
(* writes.  Same action definitions as FileStream.tla (Write, Rollover,    *)
(* ShiftLoop); only the recursion is unrolled and NextLo avoids CHOOSE.    *)
(***************************************************************************)
EXTENDS Integers, FiniteSets, Apalache

VARIABLES
    \* @type: Int;
    M,
    \* @type: Int;
    N,
    \* @type: { lo: Int, hi: Int };
    active,
    \* @type: Int -> { ex: Bool, lo: Int, hi: Int };
    backup,
    \* @type: Int;
    total,
    \* @type: Bool;
    small

MaxN == 3

None      == [ex |-> FALSE, lo |-> 0, hi |-> 0]
File(l,h) == [ex |-> TRUE, lo |-> l, hi |-> h]
\* @type: ({ lo: Int, hi: Int }) => Int;
FLen(f)   == f.hi - f.lo
Existing  == {i \in 1..MaxN : backup[i].ex}

\* one iteration of the loop of _do_rollover
\* @type: (Int -> { ex: Bool, lo: Int, hi: Int }, Int) => (Int -> { ex: Bool, lo: Int, hi: Int });
Iter(b, i) == IF b[i].ex THEN [b EXCEPT ![i + 1] = b[i], ![i] = None] ELSE b

\* for i in range(N - 1, 0, -1), N <= 3
\* @type: (Int -> { ex: Bool, lo: Int, hi: Int }) => (Int -> { ex: Bool, lo: Int, hi: Int });
ShiftLoop(b) == IF N = 3 THEN Iter(Iter(b, 2), 1) ELSE IF N = 2 THEN Iter(b, 1) ELSE b

Write(n) ==
    LET roll == M > 0 /\ FLen(active) + n >= M
        ra   == IF roll /\ N > 0 THEN [lo |-> total, hi |-> total] ELSE active
        rb   == IF roll /\ N > 0 THEN [ShiftLoop(backup) EXCEPT ![1] = File(active.lo, active.hi)] ELSE backup
    IN  /\ active' = [lo |-> ra.lo, hi |-> ra.hi + n]
        /\ backup' = rb
        /\ total' = total + n
        /\ small' = (small /\ n < M)
        /\ UNCHANGED <<M, N>>

Next == \E n \in Nat : n >= 1 /\ Write(n)      \* CloseReopen changes nothing

\* the initial directory of FileStream.tla, generalized: any layout satisfying the invariant
NextLo(i) == IF i = 3 /\ backup[2].ex THEN backup[2].lo
             ELSE IF i >= 2 /\ backup[1].ex THEN backup[1].lo
             ELSE active.lo

C20_Size  == (M > 0 /\ N >= 1 /\ small) => FLen(active) < M
C20_Count == Cardinality(Existing) <= N
C20_Tail  == /\ active.hi = total
             /\ active.lo <= active.hi
             /\ \A i \in Existing : /\ 0 <= backup[i].lo
                                    /\ backup[i].lo <= backup[i].hi
                                    /\ backup[i].hi = NextLo(i)
C20_All   == C20_Size /\ C20_Count /\ C20_Tail

IndInv ==
    /\ M >= 0
    /\ N \in 0..MaxN
    /\ M > 0 => N >= 1
    /\ DOMAIN backup = 1..MaxN
    /\ \A i \in 1..MaxN : backup[i].ex => i <= N          \* strengthening of C20_Count
    /\ \A i \in 1..MaxN : ~backup[i].ex => backup[i] = None
    /\ 0 <= active.lo
    /\ C20_Size
    /\ C20_Tail

\* arbitrary state of the right shape satisfying IndInv (for the inductive step and IndInv => C20_All)
IndInit ==
    /\ M = Gen(1)
    /\ N = Gen(1)
    /\ active = Gen(1)
    /\ backup = Gen(3)
    /\ total = Gen(1)
    /\ small = Gen(1)
    /\ IndInv

\* base case: the initial directories of FileStream.tla for arbitrary sizes s1,s2,s3,pa (absent = -1)
Init ==
    \E s1, s2, s3, pa \in Int :
        /\ M = Gen(1) /\ N = Gen(1) /\ M >= 0 /\ N \in 0..MaxN /\ (M > 0 => N >= 1)
        /\ s1 >= -1 /\ s2 >= -1 /\ s3 >= -1 /\ pa >= 0 /\ (M > 0 => pa < M)
        /\ (N < 3 => s3 = -1) /\ (N < 2 => s2 = -1) /\ (N < 1 => s1 = -1)
        /\ LET z3 == IF s3 >= 0 THEN s3 ELSE 0
               z2 == IF s2 >= 0 THEN s2 ELSE 0
               z1 == IF s1 >= 0 THEN s1 ELSE 0
               f  == [i \in 1..MaxN |-> IF i = 3 THEN (IF s3 >= 0 THEN File(0, z3) ELSE None)
                                        ELSE IF i = 2 THEN (IF s2 >= 0 THEN File(z3, z3 + z2) ELSE None)
                                        ELSE (IF s1 >= 0 THEN File(z3 + z2, z3 + z2 + z1) ELSE None)]
           IN  /\ backup = f
               /\ active = [lo |-> z3 + z2 + z1, hi |-> z3 + z2 + z1 + pa]
               /\ total = z3 + z2 + z1 + pa
        /\ small = TRUE
=============================================================================

----------------------------- MODULE FileStream -----------------------------
(***************************************************************************)
(* C20 -- size-based log rotation of circus.stream.file_stream.FileStream, *)
(* as coded (circus/stream/file_stream.py:65-146 and write_data 38-62).    *)
(*                                                                         *)
(* Everything that is ever appended to the log is laid out on one global   *)
(* byte offset 0,1,2,...  A file is the half-open interval [lo,hi) of that *)
(* offset that it holds:                                                   *)
(*     active      the file `<filename>`            (always exists: 'a+')  *)
(*     backup[i]   the file `<filename>.<i>`, i in 1..MaxN, if it exists   *)
(*     total       number of bytes written so far (end of the offset)      *)
(* Files that exist before the stream is created (an earlier incarnation)  *)
(* occupy the offsets before `base`.                                       *)
(*                                                                         *)
(* One step of the model is one call of the real object:                   *)
(*     Write(n,x)    stream({'data': d, ...}) with len(d) = n and          *)
(*                   n + x bytes appended by write_data                    *)
(*                   (x = 0 for ASCII text without time_format)            *)
(*     CloseReopen   stream.close(); stream.open()  (or a new FileStream   *)
(*                   object on the same filename)                          *)
(* Rollover is not a step of its own: it runs inside Write, as in          *)
(* FileStream.__call__.                                                    *)
(***************************************************************************)
EXTENDS Integers, Sequences, FiniteSets, TLC, Json

CONSTANTS
    Ms,            \* values of max_bytes explored     (Init chooses one)
    Ns,            \* values of backup_count explored  (Init chooses one)
    MaxN,          \* largest backup index modelled (>= every element of Ns)
    Sizes(_),      \* Sizes(m): the lengths len(data['data']) offered when max_bytes = m
    Extras(_),     \* Extras(n): possible values of (bytes appended - n) for a write with len n
    PreSizes,      \* sizes of backup files that exist before the stream is created
    PreActive,     \* sizes of an active file that exists before the stream is created
    MaxWrites,     \* number of writes in a behaviour (close/reopen steps come on top)
    EmitHist,      \* TRUE in the simulation runs that feed the replay: record and print the history
    Dev_RawLenTest \* TRUE = as coded: _should_rollover tests len(data['data']), which is not the
                   \* number of bytes write_data appends (time_format prefix + newline, non-ASCII text)

VARIABLES
    M, N,          \* parameters max_bytes, backup_count: chosen in Init, never change
    base,          \* offset at which this incarnation's active file started (pre-existing backups before it)
    active,        \* [lo, hi]
    backup,        \* [1..MaxN -> [ex, lo, hi]]
    total,
    small,         \* premise of C20_Size: every write so far appended fewer than M bytes
    lastExtra,     \* x of the latest write (0 initially): used by the finding signature only
    nw,            \* writes done
    hist           \* history of the behaviour, for the replay on the real object (not in the VIEW)

vars == <<M, N, base, active, backup, total, small, lastExtra, nw, hist>>
View == <<M, N, base, active, backup, total, small, lastExtra, nw>>

\* simulation runs that feed the replay on the real object set EmitHist; only then is hist recorded
Emitting  == EmitHist

None      == [ex |-> FALSE, lo |-> 0, hi |-> 0]
File(l,h) == [ex |-> TRUE, lo |-> l, hi |-> h]
FLen(f)   == f.hi - f.lo

Existing  == {i \in 1..MaxN : backup[i].ex}

(***************************************************************************)
(* Initial directory: any subset of .1 .. .N exists (gaps allowed), sizes  *)
(* from PreSizes, holding -- oldest = highest index first -- consecutive   *)
(* pieces of what an earlier incarnation wrote; possibly a non-empty       *)
(* active file after them (smaller than M, or C20_Size is void from the    *)
(* outset).                                                                *)
(***************************************************************************)
RECURSIVE SumAbove(_, _)
SumAbove(sz, i) ==       \* bytes held by the pre-existing backups with index > i
    IF i >= MaxN THEN 0 ELSE (IF sz[i + 1] >= 0 THEN sz[i + 1] ELSE 0) + SumAbove(sz, i + 1)

Snapshot == <<active.lo, active.hi, [i \in 1..MaxN |-> <<IF backup[i].ex THEN 1 ELSE 0, backup[i].lo, backup[i].hi>>]>>

Init ==
    /\ M \in Ms
    /\ N \in Ns
    /\ M > 0 => N >= 1                   \* C20 speaks of rotation with backup_count >= 1 only
    /\ \E sz \in [1..MaxN -> PreSizes \cup {-1}], pa \in PreActive :
          /\ \A i \in 1..MaxN : i > N => sz[i] = -1
          /\ M > 0 => pa < M
          /\ backup = [i \in 1..MaxN |-> IF sz[i] >= 0 THEN File(SumAbove(sz, i), SumAbove(sz, i) + sz[i])
                                                       ELSE None]
          /\ base = SumAbove(sz, 0)
          /\ active = [lo |-> SumAbove(sz, 0), hi |-> SumAbove(sz, 0) + pa]
          /\ total = SumAbove(sz, 0) + pa
    /\ small = TRUE
    /\ lastExtra = 0
    /\ nw = 0
    /\ hist = << <<0, 0, 0, 0, Snapshot>> >>      \* step 0: the directory before the stream exists

(***************************************************************************)
(* _do_rollover, file_stream.py:110-131                                    *)
(*     for i in range(backup_count - 1, 0, -1):                            *)
(*         if exists(name.i): remove name.(i+1) if it exists; rename name.i -> name.(i+1)   *)
(*     remove name.1 if it exists; rename name -> name.1                   *)
(*     open(name, 'a+')                                                    *)
(* With backup_count = 0 the file is closed and reopened for append:       *)
(* nothing changes.                                                        *)
(***************************************************************************)
RECURSIVE ShiftLoop(_, _)
ShiftLoop(b, i) ==
    IF i < 1 THEN b
    ELSE ShiftLoop(IF b[i].ex THEN [b EXCEPT ![i + 1] = b[i], ![i] = None] ELSE b, i - 1)

Rollover ==
    IF N > 0
    THEN [a |-> [lo |-> total, hi |-> total],
          b |-> [ShiftLoop(backup, N - 1) EXCEPT ![1] = File(active.lo, active.hi)]]
    ELSE [a |-> active, b |-> backup]

(***************************************************************************)
(* __call__: if _should_rollover(data['data']): _do_rollover(); write_data *)
(* _should_rollover, file_stream.py:142-145:                               *)
(*     if max_bytes > 0: seek(0,2); if tell() + len(raw_data) >= max_bytes *)
(***************************************************************************)
Write(n, x) ==
    LET w      == n + x
        tested == IF Dev_RawLenTest THEN n ELSE w
        roll   == M > 0 /\ FLen(active) + tested >= M
        st     == IF roll THEN Rollover ELSE [a |-> active, b |-> backup]
    IN  /\ active' = [lo |-> st.a.lo, hi |-> st.a.hi + w]
        /\ backup' = st.b
        /\ total' = total + w
        /\ small' = (small /\ w < M)
        /\ lastExtra' = x
        /\ nw' = nw + 1
        /\ hist' = IF Emitting THEN Append(hist, <<1, n, x, IF roll THEN 1 ELSE 0, Snapshot'>>) ELSE hist
        /\ UNCHANGED <<M, N, base>>

\* No effect on the files, hence a self-loop of the state graph (hist is outside the VIEW); in the emitted
\* behaviours it is a step of its own, replayed as close()/open() or as a new FileStream object.
CloseReopen ==
    /\ nw <= MaxWrites
    /\ Emitting => hist[Len(hist)][1] # 2      \* emitted behaviours: no two reopens in a row
    /\ hist' = IF Emitting THEN Append(hist, <<2, 0, 0, 0, Snapshot>>) ELSE hist
    /\ UNCHANGED <<M, N, base, active, backup, total, small, lastExtra, nw>>

\* closing step of an emitted behaviour: a single successor, so that Emit (a CONSTRAINT, which the
\* simulator evaluates on every candidate successor) fires once per behaviour
Finish ==
    /\ Emitting
    /\ nw = MaxWrites
    /\ nw' = MaxWrites + 1
    /\ UNCHANGED <<M, N, base, active, backup, total, small, lastExtra, hist>>

Next ==
    \/ /\ nw < MaxWrites
       /\ \E n \in Sizes(M) : \E x \in Extras(n) : Write(n, x)
    \/ CloseReopen
    \/ Finish

Spec == Init /\ [][Next]_vars

(***************************************************************************)
(* C20                                                                     *)
(***************************************************************************)
C20_Size  == (M > 0 /\ N >= 1 /\ small) => FLen(active) < M

C20_Count == Cardinality(Existing) <= N

\* what follows backup i in the concatenation oldest -> newest, then active
NextLo(i) == IF \E j \in Existing : j < i
             THEN backup[CHOOSE j \in Existing : j < i /\ \A k \in Existing : k < i => k <= j].lo
             ELSE active.lo

C20_Tail  == /\ active.hi = total
             /\ active.lo <= active.hi
             /\ \A i \in Existing : /\ 0 <= backup[i].lo
                                    /\ backup[i].lo <= backup[i].hi
                                    /\ backup[i].hi = NextLo(i)

C20_Plain == M = 0 => (active.lo = base /\ active.hi = total)

(***************************************************************************)
(* Finding signature (C20-RAWLEN): the active file reaches max_bytes only  *)
(* by the bytes that the latest write appended beyond len(data['data']).   *)
(* A size test that is wrong in any other way (say > for >=) leaves        *)
(* FLen(active) - lastExtra >= M somewhere and is not explained.            *)
(***************************************************************************)
KF_RawLen   == lastExtra > 0 /\ FLen(active) - lastExtra < M
C20_Size_KF == C20_Size \/ KF_RawLen

(***************************************************************************)
(* Behaviours for the replay: with EmitHist = TRUE, every                  *)
(* behaviour that completes MaxWrites is printed (simulation mode) as         *)
(* <<M, N, base, <<op, n, x, rolled, <<active.lo, active.hi, backups>>>>>> *)
(* with op 0 = initial directory, 1 = Write, 2 = CloseReopen.              *)
(***************************************************************************)
Emit ==
    (nw = MaxWrites + 1 /\ Emitting) => PrintT("BEH " \o ToJson(<<M, N, base, hist>>))

=============================================================================

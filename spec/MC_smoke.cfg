CONSTANTS
  MaxFrames = 14
  Dev_PruneWithoutReap = FALSE
  Dev_AfterSpawnKillDetached = TRUE
  Dev_BuiltinIgnoreList = TRUE
  Dev_AddEmptyNameReturns = FALSE
  Dev_QuitRefusedWhenBusy = FALSE
  Dev_SocketEventStartsAll = FALSE
  Dev_OpsAfterStop = FALSE
  Dev_ChildrenRelisted = TRUE
  Configs <- mc_Configs
  Requests <- mc_Requests
  MaxReq = 1
  MaxDie = 1
  MaxExt = 0
  MaxFork = 0
  MaxSig = 0
  MaxSock = 0
  MaxNow = 8
  MaxPid = 4
  DieStatuses <- mc_DieStatuses
  ObeyChoices <- mc_ObeyChoices
  FaultSeqs <- mc_FaultSeqs
  Reduce = TRUE
  ReqUntil = 4
  DieUntil = 5
INIT Init
NEXT Next
CONSTRAINT PidBound
INVARIANT Inv_all
CHECK_DEADLOCK FALSE
ALIAS Alias
VIEW View

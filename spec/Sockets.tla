------------------------------ MODULE Sockets ------------------------------
(***************************************************************************)
(* C07 -- managed sockets reach every worker generation and are never      *)
(* rebound.                                                                *)
(*                                                                         *)
(* Real code: circus/sockets.py (CircusSocket: set_inheritable(True) in    *)
(* the constructor, bind_and_listen once from Arbiter.initialize through   *)
(* CircusSockets.bind_and_listen_all, so_reuseport sockets skipped there), *)
(* circus/process.py (_get_sockets_fds: name -> fileno of the arbiter's    *)
(* sockets, a fresh bound socket per worker for every so_reuseport socket  *)
(* the command refers to; format_args substitutes the numbers for          *)
(* $(circus.sockets.NAME); Popen(close_fds = not use_fds)), and            *)
(* circus/watcher.py (spawn_process, manage_processes, _restart, _reload,  *)
(* incr/decr).                                                             *)
(*                                                                         *)
(* The model is the descriptor-level mechanism: a daemon descriptor table  *)
(* fd -> (inode, inheritable), the arbiter's socket table name -> (fd,     *)
(* inode), the kernel's set of bound listening inodes, and workers whose   *)
(* descriptor tables are computed at fork/exec time from the daemon's by   *)
(* the close_fds / inheritable rules of subprocess.Popen.  Hypothetical    *)
(* faults (Fault_*, all FALSE for the code as it is) are kept as named     *)
(* branches: with one of them TRUE the corresponding invariant must fail   *)
(* (vacuity guard, run by harness/check_c07.py).                           *)
(*                                                                         *)
(* The whole state is a function of the history of events, which are       *)
(* environment stimuli (worker death, restart, reload, stop+start, incr,   *)
(* decr), each taken up to the next quiescent point.  TLC explores every   *)
(* history of at most MaxEvents events, and writes the maximal ones as     *)
(* JSON (IOEnv.OUT_FILE); the harness drives a REAL circusd through a      *)
(* sample of them and SocketsTrace.tla validates what was observed.        *)
(***************************************************************************)
EXTENDS Integers, Sequences, FiniteSets, TLC, Json, IOUtils, SequencesExt

CONSTANTS MaxEvents,        \* length bound of the histories
          MaxProcs,         \* bound of numprocesses
          Fault_CloseFds,   \* Popen(close_fds=True) whatever use_sockets says
          Fault_KeepFds,    \* Popen(close_fds=False) whatever use_sockets says
          Fault_KeepFdsStdin, \* Popen(close_fds=False) also for watchers with a stdin_socket
          Fault_NoInherit,  \* CircusSocket does not make its descriptor inheritable
          Fault_Rebind      \* the managed sockets are created and bound again at every spawn

SockSeq    == <<"inet", "unix">>            \* creation order (config order)
Socks      == {"inet", "unix"}
\* three kinds of watcher:  ws  use_sockets, the command refers to both sockets
\*                          wn  neither use_sockets nor stdin_socket
\*                          wi  stdin_socket = NAME, no use_sockets: preexec dup2()s the managed socket onto
\*                              descriptor 0 of the child (process.py: os.dup2(stdin_socket_fd, 0)), which happens
\*                              before Popen closes the other descriptors
AllWatchers == {"wi", "wn", "ws"}
WIdx       == [wi |-> 0, wn |-> 1, ws |-> 2]
UseSockets == [wi |-> FALSE, wn |-> FALSE, ws |-> TRUE]
Refs       == [wi |-> {}, wn |-> {}, ws |-> {"inet", "unix"}]   \* $(circus.sockets.NAME) occurring in cmd
Np0        == [wi |-> 1, wn |-> 1, ws |-> 2]
\* a configuration: so_reuseport flags (meaningful for inet sockets only), the watchers present, and the socket
\* named by stdin_socket of wi ("none" when wi is absent; never a so_reuseport socket, which the daemon never binds)
Configs    == {[rp |-> [inet |-> FALSE, unix |-> FALSE], ws |-> {"wn", "ws"}, si |-> "none"],
               [rp |-> [inet |-> TRUE,  unix |-> FALSE], ws |-> {"wn", "ws"}, si |-> "none"],
               [rp |-> [inet |-> FALSE, unix |-> FALSE], ws |-> {"wi", "ws"}, si |-> "unix"],
               [rp |-> [inet |-> FALSE, unix |-> FALSE], ws |-> {"wi", "ws"}, si |-> "inet"],
               [rp |-> [inet |-> TRUE,  unix |-> FALSE], ws |-> {"wi", "ws"}, si |-> "unix"]}
StdinOf(s, w) == IF w = "wi" THEN s.si ELSE "none"

Stdio == {0, 1, 2}

(***************************************************************************)
(* Descriptor tables                                                       *)
(***************************************************************************)
LowestFree(tbl) == CHOOSE f \in 0..Cardinality(DOMAIN tbl) :
                      f \notin DOMAIN tbl /\ \A g \in 0..(f - 1) : g \in DOMAIN tbl
Without(tbl, fd) == [f \in DOMAIN tbl \ {fd} |-> tbl[f]]
Inos(tbl) == {tbl[f].ino : f \in DOMAIN tbl}

\* socket(): lowest free descriptor, fresh inode
NewSocket(s, inh) ==
  LET fd == LowestFree(s.dfd)
  IN  [s EXCEPT !.dfd = (fd :> [ino |-> s.nino, inh |-> inh]) @@ @, !.nino = @ + 1]
LastIno(s) == s.nino - 1
FdOf(s, ino) == CHOOSE f \in DOMAIN s.dfd : s.dfd[f].ino = ino

(***************************************************************************)
(* Boot: CircusSocket(...) for every [socket:NAME] while the configuration *)
(* is loaded, then Arbiter.initialize -> bind_and_listen_all (so_reuseport *)
(* sockets are not bound there), then the watchers spawn.                  *)
(***************************************************************************)
RECURSIVE CreateAll(_, _)
CreateAll(s, names) ==
  IF names = <<>> THEN s
  ELSE LET n  == Head(names)
           s1 == NewSocket(s, ~Fault_NoInherit)
           s2 == [s1 EXCEPT !.sock = (n :> [fd |-> FdOf(s1, LastIno(s1)), ino |-> LastIno(s1)]) @@ @,
                            !.bound = IF s.rp[n] THEN @ ELSE @ \cup {<<LastIno(s1), n>>}]
       IN  CreateAll(s2, Tail(names))

Blank(c) ==
  [rp    |-> c.rp,
   ws    |-> c.ws,           \* the watchers of this configuration
   si    |-> c.si,           \* stdin_socket of wi
   \* 0,1,2: one open file (the log); 3,4: control and event channel, close-on-exec
   dfd   |-> (0 :> [ino |-> 1, inh |-> TRUE]) @@ (1 :> [ino |-> 1, inh |-> TRUE]) @@ (2 :> [ino |-> 1, inh |-> TRUE])
             @@ (3 :> [ino |-> 2, inh |-> FALSE]) @@ (4 :> [ino |-> 3, inh |-> FALSE]),
   sock  |-> <<>>,           \* Arbiter.sockets: name -> [fd, ino]
   sock0 |-> <<>>,           \* ghost: the table as bound at startup
   bound |-> {},             \* kernel: <<inode, name>> bound to the address of `name` and listening
   procs |-> {},             \* live workers
   np    |-> [w \in c.ws |-> Np0[w]],
   nord  |-> [w \in c.ws |-> 1],
   nino  |-> 10]

(***************************************************************************)
(* Spawn (watcher.spawn_process -> Process.__init__ -> spawn)              *)
(***************************************************************************)
\* Fault_Rebind: a new socket object per managed socket, bound again, the old one dropped
RECURSIVE RebindAll(_, _)
RebindAll(s, names) ==
  IF names = <<>> THEN s
  ELSE LET n == Head(names) IN
       IF s.rp[n] THEN RebindAll(s, Tail(names))
       ELSE LET s1 == NewSocket(s, ~Fault_NoInherit)
                nw == [fd |-> FdOf(s1, LastIno(s1)), ino |-> LastIno(s1)]
                s2 == [s1 EXCEPT !.dfd = Without(@, s.sock[n].fd),
                                 !.sock = [@ EXCEPT ![n] = nw],
                                 !.bound = @ \cup {<<nw.ino, n>>}]
            IN  RebindAll(s2, Tail(names))

\* Process._get_sockets_fds: a fresh bound socket for every so_reuseport socket the command refers to
\* (whatever use_sockets says); x = [s, map]
RECURSIVE Extras(_, _, _)
Extras(x, w, names) ==
  IF names = <<>> THEN x
  ELSE LET n == Head(names) IN
       IF ~(x.s.rp[n] /\ n \in Refs[w]) THEN Extras(x, w, Tail(names))
       ELSE LET s1 == NewSocket(x.s, ~Fault_NoInherit)
                s2 == [s1 EXCEPT !.bound = @ \cup {<<LastIno(s1), n>>}]
            IN  Extras([s |-> s2, map |-> (n :> FdOf(s1, LastIno(s1))) @@ x.map], w, Tail(names))

SpawnOne(s0, w) ==
  LET s     == IF Fault_Rebind THEN RebindAll(s0, SockSeq) ELSE s0
      x     == Extras([s |-> s, map |-> <<>>], w, SockSeq)
      tbl   == x.s.dfd                                  \* the daemon's table at fork time
      close == IF Fault_CloseFds THEN TRUE ELSE IF Fault_KeepFds THEN FALSE
               ELSE IF Fault_KeepFdsStdin /\ StdinOf(s0, w) # "none" THEN FALSE ELSE ~UseSockets[w]
      keep  == IF close THEN Stdio ELSE {f \in DOMAIN tbl : f \in Stdio \/ tbl[f].inh}
      si    == StdinOf(s, w)
      p     == [w     |-> w,
                ord   |-> s.nord[w],
                \* preexec: dup2(fileno of the stdin socket, 0) -- the copy is not close-on-exec
                fds   |-> [f \in keep |-> IF f = 0 /\ si # "none" THEN s.sock[si].ino ELSE tbl[f].ino],
                argfd |-> [n \in Refs[w] |-> IF n \in DOMAIN x.map THEN x.map[n] ELSE s.sock[n].fd]]
  IN  \* `self._sockets = []` after Popen: the per-worker sockets are closed in the daemon
      [x.s EXCEPT !.dfd = s.dfd, !.procs = @ \cup {p}, !.nord = [@ EXCEPT ![w] = @ + 1]]

RECURSIVE SpawnN(_, _, _)
SpawnN(s, w, k) == IF k <= 0 THEN s ELSE SpawnN(SpawnOne(s, w), w, k - 1)

RECURSIVE SpawnAll(_, _)
SpawnAll(s, todo) == IF todo = {} THEN s
                     ELSE LET w == CHOOSE v \in todo : \A u \in todo : WIdx[v] >= WIdx[u]
                          IN  SpawnAll(SpawnN(s, w, Np0[w]), todo \ {w})
Boot(c) ==
  LET s1 == CreateAll(Blank(c), SockSeq)
      s2 == [s1 EXCEPT !.sock0 = s1.sock]
  IN  SpawnAll(s2, c.ws)

(***************************************************************************)
(* Events, each up to the next quiescent point                             *)
(***************************************************************************)
Live(s, w) == {p \in s.procs : p.w = w}
Kill(s, P) == [s EXCEPT !.procs = @ \ P]
\* the i-th oldest live worker of w
Nth(s, w, i) == CHOOSE p \in Live(s, w) : Cardinality({q \in Live(s, w) : q.ord < p.ord}) = i - 1

Rank(s, p) == Cardinality({q \in Live(s, p.w) : q.ord < p.ord}) + 1
Events(s) ==
       {<<"death", p.w, Rank(s, p)>> : p \in s.procs}
  \cup {<<k, w, 0>> : k \in {"restart", "reload", "stopstart"}, w \in {v \in s.ws : s.np[v] > 0}}
  \cup {<<"incr", w, 0>> : w \in {v \in s.ws : s.np[v] < MaxProcs}}
  \cup {<<"decr", w, 0>> : w \in {v \in s.ws : s.np[v] > 0}}
  \cup {<<"rcfg", "ws", 0>>}          \* reloadconfig of the unchanged file: nothing moves, no socket is touched

Apply(s, ev) ==
  LET k == ev[1]
      w == ev[2]
  IN CASE k = "death"     -> \* killed from outside; reaped and replaced by the next periodic check
                             SpawnN(Kill(s, {Nth(s, w, ev[3])}), w, 1)
       [] k = "restart"   -> SpawnN(Kill(s, Live(s, w)), w, s.np[w])       \* _stop; _start
       [] k = "stopstart" -> SpawnN(Kill(s, Live(s, w)), w, s.np[w])
       [] k = "reload"    -> \* graceful: numprocesses new workers first, then the surplus (the oldest) goes
                             Kill(SpawnN(s, w, s.np[w]), Live(s, w))
       [] k = "rcfg"      -> s
       [] k = "incr"      -> SpawnN([s EXCEPT !.np = [@ EXCEPT ![w] = @ + 1]], w, 1)
       [] k = "decr"      -> LET s1 == [s EXCEPT !.np = [@ EXCEPT ![w] = @ - 1]]
                             IN  Kill(s1, {Nth(s1, w, 1)})                  \* manage_processes: oldest first

(***************************************************************************)
(* The property, on the descriptor-level state                             *)
(***************************************************************************)
DaemonHolds(s, ino) == ino \in Inos(s.dfd)
Held(s, ino) == DaemonHolds(s, ino) \/ \E p \in s.procs : \E f \in DOMAIN p.fds : p.fds[f] = ino

C07_Same(s) ==
  \A p \in s.procs : UseSockets[p.w] =>
     \A n \in Refs[p.w] : ~s.rp[n] =>
        /\ p.argfd[n] \in DOMAIN p.fds
        /\ p.fds[p.argfd[n]] = s.sock0[n].ino

C07_Stable(s) ==
  \A n \in Socks : ~s.rp[n] =>
     /\ s.sock[n] = s.sock0[n]
     /\ s.sock[n].fd \in DOMAIN s.dfd /\ s.dfd[s.sock[n].fd].ino = s.sock0[n].ino
     /\ <<s.sock0[n].ino, n>> \in s.bound

C07_NoLeak(s) ==
  \A p \in s.procs : ~UseSockets[p.w] =>
     \A f \in DOMAIN p.fds \ Stdio : ~DaemonHolds(s, p.fds[f])

(***************************************************************************)
(* Projection: what the harness can see of a real daemon and its workers   *)
(***************************************************************************)
At(s, p, n) ==
  IF n \notin Refs[p.w] THEN "na"
  ELSE LET fd == p.argfd[n] IN
       IF fd \notin DOMAIN p.fds THEN "none"
       ELSE LET ino == p.fds[fd] IN
            IF ino = s.sock0[n].ino THEN "boot"
            ELSE IF /\ <<ino, n>> \in s.bound
                    /\ ~DaemonHolds(s, ino)
                    /\ \A q \in s.procs \ {p} : \A f \in DOMAIN q.fds : q.fds[f] # ino
                 THEN "fresh" ELSE "other"

WorkerObs(s, p) ==
  [w     |-> p.w,
   ord   |-> p.ord,
   at    |-> [n \in Socks |-> At(s, p, n)],
   \* holds, at the daemon's descriptor number, the socket bound at startup (not observed for so_reuseport)
   holds |-> [n \in Socks |-> /\ ~s.rp[n]
                              /\ s.sock0[n].fd \in DOMAIN p.fds
                              /\ p.fds[s.sock0[n].fd] = s.sock0[n].ino],
   \* descriptors besides stdio that refer to something the daemon has open
   extra |-> Cardinality({f \in DOMAIN p.fds \ Stdio : DaemonHolds(s, p.fds[f])}),
   \* what is at descriptor 0 of a worker of a stdin_socket watcher
   stdin |-> LET si == StdinOf(s, p.w) IN
             IF si = "none" THEN "na"
             ELSE IF 0 \in DOMAIN p.fds /\ p.fds[0] = s.sock0[si].ino THEN "boot" ELSE "other"]

SockObs(s, n) ==
  IF s.rp[n] THEN [same |-> TRUE, inl |-> TRUE, probe |-> TRUE]         \* excepted by the statement: not observed
  ELSE [same  |-> s.sock0[n].fd \in DOMAIN s.dfd /\ s.dfd[s.sock0[n].fd].ino = s.sock0[n].ino,
        inl   |-> <<s.sock0[n].ino, n>> \in s.bound /\ Held(s, s.sock0[n].ino),
        probe |-> \E b \in s.bound : b[2] = n /\ Held(s, b[1])]

Proj(s) ==
  [socks   |-> [n \in Socks |-> SockObs(s, n)],
   np      |-> s.np,                    \* a record over the watchers present
   workers |-> SetToSortSeq({WorkerObs(s, p) : p \in s.procs},
                            LAMBDA a, b : WIdx[a.w] * 1000 + a.ord < WIdx[b.w] * 1000 + b.ord)]

\* the same property on observations (used on model states and on recorded real behaviour alike)
RangeOf(seq) == {seq[i] : i \in 1..Len(seq)}
MonSame(rp, o)   == \A p \in RangeOf(o.workers) : UseSockets[p.w] =>
                       \A n \in Refs[p.w] : ~rp[n] => p.at[n] = "boot"
MonStable(rp, o) == \A n \in Socks : ~rp[n] => o.socks[n].same /\ o.socks[n].inl /\ o.socks[n].probe
MonNoLeak(rp, o) == \A p \in RangeOf(o.workers) : ~UseSockets[p.w] => p.extra = 0

(***************************************************************************)
(* State machine                                                           *)
(***************************************************************************)
VARIABLES s, hist

Init == /\ \E c \in Configs : s = Boot(c)
        /\ hist = <<>>

Next == /\ Len(hist) < MaxEvents
        /\ \E ev \in Events(s) : s' = Apply(s, ev) /\ hist' = Append(hist, ev)

vars == <<s, hist>>
Spec == Init /\ [][Next]_vars

Inv_Same    == C07_Same(s)
Inv_Stable  == C07_Stable(s)
Inv_NoLeak  == C07_NoLeak(s)
\* the sock table never changes (action form of C07_Stable)
Act_Stable  == [][\A n \in Socks : ~s.rp[n] => s'.sock[n] = s.sock[n]]_vars
\* the observable formulation says the same as the descriptor-level one
Inv_ProjFaithful == /\ C07_Same(s)   <=> MonSame(s.rp, Proj(s))
                    /\ C07_NoLeak(s) <=> MonNoLeak(s.rp, Proj(s))
                    /\ C07_Stable(s) => MonStable(s.rp, Proj(s))
                    /\ MonStable(s.rp, Proj(s)) => \A n \in Socks : ~s.rp[n] =>
                                                      s.dfd[s.sock0[n].fd].ino = s.sock0[n].ino
\* sanity: the accounting of the model itself
Inv_Count == \A w \in s.ws : Cardinality(Live(s, w)) = s.np[w]
\* descriptor 0 of every worker of the stdin_socket watcher is the socket bound at startup (documented behaviour of
\* stdin_socket; C07 itself only says that nothing else of the daemon is inherited)
Inv_Stdin == \A p \in s.procs : StdinOf(s, p.w) # "none" =>
                0 \in DOMAIN p.fds /\ p.fds[0] = s.sock0[StdinOf(s, p.w)].ino
\* reachability companions (must be VIOLATED when checked: the antecedents are reached)
Reach_ThirdGeneration == ~(\E p \in s.procs : UseSockets[p.w] /\ p.ord > 2 * MaxProcs)
Reach_Fresh == ~(\E p \in s.procs : \E n \in Socks : At(s, p, n) = "fresh")
Reach_StdinThird == ~(\E p \in s.procs : StdinOf(s, p.w) # "none" /\ p.ord >= 3)

(***************************************************************************)
(* Histories for the live binding.  Two ways out of TLC:                   *)
(*  - simulation (Sockets_sim.cfg, -simulate num=N -depth MaxEvents+1      *)
(*    -seed S): the invariant Emit prints every behaviour that reached the *)
(*    length bound, as JSON;                                               *)
(*  - the complete set of maximal histories, written to IOEnv.OUT_FILE     *)
(*    when that variable is set (about 10 s for MaxEvents = 4).            *)
(***************************************************************************)
Emit == Len(hist) = MaxEvents =>
           PrintT(<<"HIST", ToJson([rp |-> s.rp, si |-> s.si, watchers |-> SetToSeq(s.ws), events |-> hist])>>)

RECURSIVE Hists(_, _)
Hists(st, k) ==
  IF k = 0 \/ Events(st) = {} THEN {<<>>}
  ELSE UNION {{<<ev>> \o h : h \in Hists(Apply(st, ev), k - 1)} : ev \in Events(st)}

ASSUME "OUT_FILE" \in DOMAIN IOEnv =>
          JsonSerialize(IOEnv.OUT_FILE,
                        [max_events |-> MaxEvents,
                         configs |-> SetToSeq({[rp |-> c.rp, si |-> c.si, watchers |-> SetToSeq(c.ws),
                                                boot |-> Proj(Boot(c)),
                                                histories |-> SetToSeq(Hists(Boot(c), MaxEvents))] :
                                               c \in Configs})])
=============================================================================

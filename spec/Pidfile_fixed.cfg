\* the code as the statement wants it: no Dev_ branch: AsCoded must satisfy Demanded at every step
CONSTANTS
  MaxOps = 3
  Dev_HugeOverflow = FALSE
  Dev_EpermOSError = FALSE
INIT Init
NEXT Next
CHECK_DEADLOCK FALSE
INVARIANT Inv_RefuseIffLive
INVARIANT Inv_DevsExplain
INVARIANT Inv_EpermHarmless
INVARIANT Inv_Fixed
INVARIANT Inv_CreateUnlink

CONSTANTS
  Ms <- big_Ms
  Ns <- big_Ns
  MaxN = 5
  Sizes <- big_Sizes
  Extras <- small_Extras
  PreSizes <- big_Pre
  PreActive <- big_PreActive
  MaxWrites = 40
  Dev_RawLenTest = TRUE
  EmitHist = FALSE
INIT Init
NEXT Next
VIEW View
CONSTRAINT Emit
CHECK_DEADLOCK FALSE
INVARIANT C20_Size
INVARIANT C20_Count
INVARIANT C20_Tail
INVARIANT C20_Plain

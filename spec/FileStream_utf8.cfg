CONSTANTS
  Ms <- utf8_Ms
  Ns <- utf8_Ns
  MaxN = 2
  Sizes <- utf8_Sizes
  Extras <- utf8_Extras
  PreSizes <- utf8_Pre
  PreActive <- Zero
  MaxWrites = 6
  Dev_RawLenTest = TRUE
  EmitHist = FALSE
INIT Init
NEXT Next
VIEW View
CONSTRAINT Emit
CHECK_DEADLOCK FALSE
INVARIANT C20_Size_KF
INVARIANT C20_Count
INVARIANT C20_Tail
INVARIANT C20_Plain

---------------------------- MODULE ConfigEnv_MC ----------------------------
(* Constant sets for the enumerations of ConfigEnv, and the writing-out of the cases.              *)
(*   family E (env structure): files of <= MaxLen sections over 2 watcher names (with / without    *)
(*       copy_env), [env] and [env:PATTERN] sections over 2 variables and 2 values with the         *)
(*       patterns w1, w2, w*, "w1,w2", socket / plugin sections holding a reference, in every order *)
(*   family R (references): one watcher holds a reference, in either syntax, to a variable in one   *)
(*       option of each documented type; fewer env sections                                         *)
(* The cfg (written by harness/check_c16.py; ConfigEnv.cfg is family E, unsharded, for running by    *)
(* hand) picks one family with  WatcherSyms <- E_WatcherSyms  etc.                                  *)
EXTENDS ConfigEnv, Json, IOUtils, SequencesExt

mc_GlobMatch == ("w1" :> {"w1"}) @@ ("w2" :> {"w2"}) @@ ("w*" :> {"w1", "w2"})
mc_PatLists == { <<"w1">>, <<"w2">>, <<"w*">>, <<"w1", "w2">> }

\* variable names as they stand in the env sections / in os.environ (case is kept: they are
\* different from their other spellings as environment variables, equal as reference keys)
mc_Spellings == ("VA" :> {"VA", "va", "Va"}) @@ ("vb" :> {"vb", "VB", "vB"}) @@ ("Dv" :> {"Dv", "DV", "dv"})
mc_LowerOf == [k \in {"VA", "va", "Va"} |-> "va"] @@ [k \in {"vb", "VB", "vB"} |-> "vb"]
              @@ [k \in {"Dv", "DV", "dv"} |-> "dv"] @@ ("__name__" :> "__name__")
mc_DaemonAtoms == ("VA" :> "d0") @@ ("Dv" :> "d1")

mc_ValStr ==
  [str    |-> [v1 |-> "lie",    v2 |-> "/bin:x", d0 |-> "dval",    d1 |-> "only"],
   int    |-> [v1 |-> "2",      v2 |-> "3",      d0 |-> "4",       d1 |-> "5"],
   rlimit |-> [v1 |-> "2",      v2 |-> "3",      d0 |-> "4",       d1 |-> "5"],
   secs   |-> [v1 |-> "2.5",    v2 |-> "30",     d0 |-> "0.5",     d1 |-> "1.5"],
   bool   |-> [v1 |-> "yes",    v2 |-> "off",    d0 |-> "1",       d1 |-> "no"],
   sig    |-> [v1 |-> "quit",   v2 |-> "9",      d0 |-> "sigint",  d1 |-> "usr1"],
   hook   |-> [v1 |-> "getpid", v2 |-> "getcwd", d0 |-> "getppid", d1 |-> "getuid"]]

\* bodies of env sections: both variables take both values, one section sets two variables
mc_Assigns == { ("VA" :> "v1"), ("VA" :> "v2") @@ ("vb" :> "v1"), ("vb" :> "v2") }
mc_AssignsA == { ("VA" :> "v1"), ("VA" :> "v2") }
mc_AssignsB == { ("VA" :> "v1"), ("vb" :> "v2") }

EnvSymsOf(as, pats) == { EnvSec(a) : a \in as } \cup { PatSec(g, a) : g \in pats, a \in as }

\* ---- family E
E_WatcherSyms == { WatcherSec(n, c, NoRef) : n \in {"w1", "w2"}, c \in BOOLEAN }
E_EnvSyms == EnvSymsOf(mc_Assigns, mc_PatLists)
E_NoiseSyms == { NoiseSec("socket", "s1", Ref("host", "VA", "dollar")),
                 NoiseSec("plugin", "p1", Ref("param", "Dv", "paren")) }

\* ---- family R
mc_RefOpts == { "cmd", "args", "foo", "stdout_stream.x", "working_dir",      \* strings
                "numprocesses", "graceful_timeout", "shell",                  \* int, seconds, bool
                "stop_signal", "rlimit_nofile", "hooks.before_start" }
R_WatcherSyms == { WatcherSec("w1", c, Ref(o, x, y)) : c \in BOOLEAN, o \in mc_RefOpts, x \in {"VA", "vb"},
                                                       y \in {"dollar", "paren"} }
                 \cup { WatcherSec("w2", FALSE, NoRef) }
\* quick tier: the watcher holding the reference does not copy the daemon environment
R_WatcherSymsQ == { s \in R_WatcherSyms : s.n = "w2" \/ ~s.c }
R_EnvSyms == EnvSymsOf(mc_AssignsB \cup {("VA" :> "v2")}, mc_PatLists)
R_NoiseSyms == {}

---------------------------------------------------------------------------------------------------
(* Sharded exploration and writing out.  Process k of n (environment C16_SHARD / C16_SHARDS, one      *)
(* worker) explores its part of the files, checks the invariants on each, and collects the cases in  *)
(* TLC register 1 (invariant Collect, evaluated once per distinct state); the POSTCONDITION writes    *)
(* them, with the expectation computed by Case, to OUT_FILE.                                          *)
ShardK == IF "C16_SHARD" \in DOMAIN IOEnv THEN atoi(IOEnv.C16_SHARD) ELSE 0
ShardN == IF "C16_SHARDS" \in DOMAIN IOEnv THEN atoi(IOEnv.C16_SHARDS) ELSE 1

ShardInit == file \in ShardRoots(ShardK, ShardN) /\ TLCSet(1, <<>>)
\* (the roots are states of the main thread, whose registers are not the worker's: they are added in Emit)
Collect == (Len(file) > 2 /\ IsCase(file)) => TLCSet(1, Append(TLCGet(1), Case(file)))
RootCases == SetToSeq({ Case(f) : f \in { g \in ShardRoots(ShardK, ShardN) : IsCase(g) } })

Emit ==
  /\ TLCGet("stats").distinct > 0          \* (a postcondition must not be a constant expression)
  /\ JsonSerialize(IOEnv.OUT_FILE,
        [meta |-> [files |-> TLCGet("stats").distinct, cases |-> Len(RootCases) + Len(TLCGet(1)), shard |-> ShardK, shards |-> ShardN,
                   devs |-> ActiveDevs, maxlen |-> MaxLen, maxenv |-> MaxEnv, maxnoise |-> MaxNoise,
                   maxrefs |-> MaxRefs, allowdup |-> AllowDup, spellings |-> Spellings],
         literals |-> IF ShardK = 0 THEN LiteralRows ELSE {},
         defaults |-> IF ShardK = 0 THEN DefaultRows ELSE {},
         types |-> [o \in OptNames |-> OptType(o)],
         template |-> [o \in OptNames \cup {"host", "param"} |-> Template(o)],
         cases |-> RootCases \o TLCGet(1)])
  /\ PrintT(<<"C16_EMIT", ShardK, ShardN, TLCGet("stats").distinct, Len(RootCases) + Len(TLCGet(1))>>)

=============================================================================

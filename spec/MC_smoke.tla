------------------------------ MODULE MC_smoke ------------------------------
EXTENDS MCCore

WCfg(nm, np, G, Wd) == [n |-> nm, ln |-> nm, np |-> np, G |-> G, W |-> Wd, sing |-> FALSE, resp |-> TRUE, auto |-> TRUE, prio |-> 0,
                       ssig |-> 15, sch |-> FALSE, hup |-> FALSE, hooks |-> <<>>, retry |-> 2, ver |-> 1]
mc_Configs == { [cd |-> 3, wg |-> 0, ws |-> <<WCfg("w1", 1, 1, 0)>>, obeyset |-> {TRUE, FALSE}] }
Rq(cmd, nm, waiting) == [cmd |-> cmd, name |-> nm, lname |-> nm, hasname |-> nm # "", mid |-> "", waiting |-> waiting,
            cast |-> FALSE, pid |-> -1, signum |-> -1, children |-> FALSE, recursive |-> FALSE, childpid |-> -1,
            nb |-> 1, G |-> -1, nostop |-> FALSE, graceful |-> TRUE, sequential |-> FALSE, raw |-> FALSE,
            start |-> FALSE, addnp |-> 1, addG |-> 1, addW |-> 0, addsing |-> FALSE, nopts |-> 1, pattern |-> FALSE]
mc_Requests == { Rq("stop", "w1", TRUE), Rq("incr", "w1", FALSE) }
mc_DieStatuses == {256}
mc_ObeyChoices == {TRUE}
mc_FaultSeqs == {<<>>}
Inv_all == AnyBad
=============================================================================

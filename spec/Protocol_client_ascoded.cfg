CONSTANTS
  Dev_EmptyNoReply = TRUE
  Dev_NonObjectNoReply = TRUE
  Dev_NoCommandNoReply = TRUE
  Dev_WaitFailNoReply = TRUE
  Dev_DeepNoReply = TRUE
  Dev_StatusOverwrite = TRUE
  Dev_NonfiniteEcho = TRUE
  Dev_QuitWaitLost = TRUE
  Dev_GarbageAborts = TRUE
  Dev_AsyncNoTimeout = TRUE
  MaxFrames = 3
  Part = "client"
INIT Init
NEXT Next
CHECK_DEADLOCK FALSE
INVARIANT Inv_C_Explained
INVARIANT Inv_C_OnlyMine
INVARIANT Inv_C_Run

------------------------------ MODULE Monitors ------------------------------
(***************************************************************************)
(* The property formulas C01..C19 of the supervisor, written ONCE, over    *)
(* observables only.                                                        *)
(*                                                                          *)
(*   o, o2 : observable daemon state before / after a step (the projection  *)
(*           of DESIGN.md 4.1: slot, watcher directory, per-watcher status, *)
(*           numprocesses, tracked (pid, wid, stopping), kernel table)      *)
(*   ln    : the step itself: one effect at the daemon's boundary (a kernel *)
(*           call with its result, a published event, a reply, a hook call) *)
(*           or one environment action (request, death, tick, signal)       *)
(*   g     : ghost state, a pure function of the observable history         *)
(*           (Upd below); nothing in it looks at hidden daemon state        *)
(*                                                                          *)
(* The same operators are evaluated (a) on every state of the Core model by *)
(* TLC (MCCore: Obs / lastLine are projections of the model state) and (b)  *)
(* on every line of every trace recorded from the real implementation       *)
(* (TraceMon).  Bad(g) is the set of clause tags violated at this step.     *)
(***************************************************************************)
EXTENDS Integers, Sequences, FiniteSets, TLC

SIGKILL == 9

---------------------------------------------------------------------------
\* helpers over the observable state

SeqToSet(s) == { s[i] : i \in 1..Len(s) }
Max2(a, b) == IF a >= b THEN a ELSE b

WIdx(o)      == 1..Len(o.w)
HasWL(o, ln) == \E i \in WIdx(o) : o.w[i].ln = ln
WL(o, ln)    == o.w[CHOOSE i \in WIdx(o) : o.w[i].ln = ln]
Pids(wr)     == { wr.pr[j][1] : j \in 1..Len(wr.pr) }
Stopping(wr) == { wr.pr[j][1] : j \in { j \in 1..Len(wr.pr) : wr.pr[j][3] = 1 } }
Wids(wr, ps) == { wr.pr[j][2] : j \in { j \in 1..Len(wr.pr) : wr.pr[j][1] \in ps } }
NK(o)        == Len(o.k)                       \* pids are 1..NK(o), o.k[p] = <<p, st, wstatus, parent>>
KSt(o, p)    == IF p \in 1..NK(o) THEN o.k[p][2] ELSE "none"
KWs(o, p)    == IF p \in 1..NK(o) THEN o.k[p][3] ELSE -1
KPar(o, p)   == IF p \in 1..NK(o) THEN o.k[p][4] ELSE -1
Live(o, wr)  == { p \in Pids(wr) : KSt(o, p) = "run" }
AllTracked(o) == UNION { Pids(o.w[i]) : i \in WIdx(o) }
Decode(ws)   == IF ws % 128 # 0 THEN -(ws % 128) ELSE (ws \div 256) % 256

EnvKinds   == {"tick", "req", "die", "extkill", "dsig", "fork", "probe", "end", "boot", "spawnfault", "sockev", "badspawn"}
InjKinds   == {"die", "extkill", "sigdeath", "fork"}     \* what the environment may do in the middle of a callback
StimKinds  == {"die", "extkill", "sigdeath", "dsig", "fork", "boot", "spawnfail", "block", "exc"}
ROCmds     == {"status", "list", "numprocesses", "numwatchers", "options", "stats", "dstats", "get",
               "globaloptions", "listsockets"}
ExclCmds   == {"start", "stop", "restart", "reload", "incr", "decr", "set", "add", "rm", "reloadconfig",
               "quit"}
StartSlots == {"watcher_start", "watcher_restart", "watcher_reload", "arbiter_start_watchers",
               "arbiter_restart", "arbiter_reload", "arbiter_reload_config"}
WatcherSlots == {"watcher_start", "watcher_restart", "watcher_reload", "watcher_stop", "watcher_incr",
                 "watcher_decr", "watcher_set_opt", "watcher_do_action"}
SigKinds   == {"signal", "csignal", "oskill"}
GateHooks  == {"before_start", "before_spawn", "after_spawn", "after_start"}

NoCtx == [on |-> FALSE, cid |-> "", cmd |-> "", lname |-> "", hasname |-> FALSE, pattern |-> FALSE, pid |-> -1, signum |-> -1,
          children |-> FALSE, recursive |-> FALSE, childpid |-> -1, G |-> -1, nostop |-> FALSE,
          graceful |-> TRUE, seq |-> FALSE, cast |-> FALSE, waiting |-> FALSE, busy |-> FALSE, file |-> <<>>, arbchg |-> FALSE, setnp |-> -99, matches |-> {}]
NoOp  == [slot |-> "", cmd |-> "", lname |-> "", hasname |-> FALSE, pattern |-> FALSE, mark |-> 0, t0 |-> 0, faulty |-> FALSE,
          gatefail |-> {}, nostop |-> FALSE, graceful |-> TRUE, seq |-> FALSE, matches |-> {}]
NoTerm == [open |-> FALSE, sig |-> 0, t0 |-> 0, G |-> 0, killed |-> FALSE, kids |-> {}]

GhostInit ==
  [ cfg      |-> [cd |-> -1, wg |-> 0, ws |-> <<>>],
    t        |-> 0,            \* time of the previous line (ms)
    passes   |-> 0,            \* completed periodic passes since the last stimulus
    inPass   |-> FALSE,
    passFresh|-> FALSE,        \* the running pass began after the last stimulus
    passClean|-> FALSE,
    owner    |-> <<>>,         \* pid -> lower-cased watcher name ("" for a worker's child)
    badw     |-> {},           \* watchers (lower-cased names) whose every spawn fails: the environment said so ("badspawn")
    bornT    |-> <<>>,         \* pid -> time of its spawn line (ms), -1 unknown
    passT0   |-> 0,            \* time at which the running periodic pass began
    released |-> {},           \* pids released by rm nostop
    spawned  |-> {}, reaped |-> {}, killed |-> {},     \* pids with a spawn / reap / kill event
    envDied  |-> {},           \* pids that died by themselves / from outside while their watcher was active
    diedAt   |-> <<>>,         \* pid -> time at which the kernel table first showed it not running (-1)
    polledDead |-> {},
    lastEv   |-> <<>>,         \* sequence of <<lname, "start"|"stop">>  (last start/stop event per watcher)
    ctx      |-> NoCtx,        \* the request being handled synchronously
    op       |-> NoOp,         \* the exclusive operation holding the slot
    reqs     |-> <<>>,         \* [cid, mid, cast, n, t0, cmd, waiting, acc]
    roPending|-> "",
    refusing |-> FALSE, snap |-> <<>>, snapslot |-> "",
    pendKill |-> 0,            \* pid for which a requested SIGKILL is passing the before_signal hook right now
    ctxEff   |-> FALSE,        \* the request being handled has already caused an effect (signal, spawn, event)
    ctxHard  |-> FALSE,        \* ... an effect other than an `updated` event
    multiSet |-> FALSE,        \* ... and it is a set request carrying more than one option
    lastSig  |-> <<>>,         \* pid -> <<sig, t>> last supervisor signal
    term     |-> <<>>,         \* pid -> termination record
    csigs    |-> {},           \* <<child, sig>> signalled since the last `signal` line on a worker
    veto     |-> {},           \* pids whose pending signal was vetoed by before_signal
    hookOpen |-> "",           \* hook name whose hook_success/hook_failure event is still due
    blocked  |-> FALSE,
    termAt   |-> -1,           \* time of the first shutdown stimulus (accepted quit / TERM INT QUIT)
    closed   |-> {},
    bootDone |-> FALSE, booted |-> FALSE,
    idleSince|-> 0,            \* since when nothing has stood in the way of a periodic check (boot over, slot free)
    lastSpawn|-> [w |-> "", t |-> -1, prio |-> 0, first |-> -1],
    sigTargets |-> {},         \* pids signalled while handling the current signal/kill request
    snapk    |-> <<>>,         \* the kernel table when the current request arrived
    ctxDie   |-> FALSE,        \* a worker died while the current request was being handled
    ctxErr   |-> FALSE,        \* the current request has been answered with an error
    par0     |-> <<>>,         \* pid -> the parent it was forked by (0 for the daemon's own children)
    lastStatus |-> <<>>,       \* pid -> result of the last status() read ("" none)
    pruned   |-> {},           \* pids dropped from tracking right after a dead status read, never reaped (D4)
    detached |-> {},           \* pids forgotten after a failing after_spawn hook, stop signal attempted (D3)
    detPend  |-> {},           \* after_spawn failed; the attempt to signal the (still tracked) pid not yet seen
    vetoRaise |-> {},          \* pids whose before_signal hook RAISED with its ignore flag off (D11)
    reloaded |-> FALSE,        \* a reloadconfig operation has run
    drifted  |-> FALSE,        \* ... and it put two names that are equal ignoring case into the list (D9R)
    dsigBusy |-> FALSE,        \* a termination signal arrived while an exclusive operation held the slot (D6)         \* pids signalled while handling the current signal/kill request
    fm       |-> FALSE,        \* the arbiter was booted from a configuration file the recorder knows (file mode)
    file     |-> <<>>,         \* the watcher sections the daemon last loaded (boot, or the last completed reloadconfig)
    rl       |-> [on |-> FALSE, file |-> <<>>, w0 |-> <<>>],      \* the reloadconfig in flight: its file, the watchers before
    stepBad  |-> {} ]

---------------------------------------------------------------------------
\* configuration lookups

CfgKey(c) == IF "ln" \in DOMAIN c THEN c.ln ELSE c.n       \* (lookups are by lower-cased name)
CfgW(g, lname) == IF \E i \in 1..Len(g.cfg.ws) : CfgKey(g.cfg.ws[i]) = lname
                  THEN g.cfg.ws[CHOOSE i \in 1..Len(g.cfg.ws) : CfgKey(g.cfg.ws[i]) = lname]
                  ELSE [n |-> lname, np |-> 0, G |-> 0, W |-> 0, sing |-> FALSE, resp |-> TRUE, auto |-> TRUE,
                        prio |-> 0, ssig |-> 15, sch |-> FALSE, mage |-> 0, hup |-> FALSE, od |-> FALSE,
                        hooks |-> <<>>]
HookCfg(g, lname, h) == LET c == CfgW(g, lname) IN
                        IF \E i \in 1..Len(c.hooks) : c.hooks[i].h = h
                        THEN c.hooks[CHOOSE i \in 1..Len(c.hooks) : c.hooks[i].h = h]
                        ELSE [h |-> h, o |-> "absent", ig |-> FALSE]
\* documented meaning of a hook outcome: an exception counts as false unless its ignore flag is set
Effective(g, lname, h, outcome) == IF outcome = "raise" THEN HookCfg(g, lname, h).ig ELSE outcome = "true"

OwnerOf(g, p) == IF p \in 1..Len(g.owner) THEN g.owner[p] ELSE ""
OwnedBy(g, o, lname) == { p \in 1..NK(o) : OwnerOf(g, p) = lname /\ p \notin g.released }

\* a generous but finite completion bound (ms) for any single operation, from the current settings
Bound(g, o) == LET S[i \in 0..Len(o.w)] ==
                     IF i = 0 THEN 0
                     ELSE S[i-1] + (Max2(o.w[i].np, Len(o.w[i].pr)) + 2) * (o.w[i].G + o.w[i].W + 200)
               IN 2 * S[Len(o.w)] + Len(o.w) * (g.cfg.wg + 100) + 1000

---------------------------------------------------------------------------
\* ghost update, split by concern.  Each part returns the new value of the fields it owns.

Grow(s, n, d) == IF Len(s) >= n THEN s ELSE s \o [i \in 1..(n - Len(s)) |-> d]

IsStim(g, ln) == \/ ln.k \in StimKinds
                 \/ ln.k = "req" /\ ln.q.cmd \notin ROCmds
                 \/ ln.k = "reply" /\ ln.r = "error"   \* a failed operation is "something that happened"

PassStart(o, o2) == o.slot # "manage_watchers" /\ o2.slot = "manage_watchers"
PassEnd(o, o2)   == o.slot = "manage_watchers" /\ o2.slot # "manage_watchers"

CleanForPass(o) ==
   \A i \in WIdx(o) : LET wr == o.w[i] IN
      \/ wr.st = "stopped" /\ wr.pr = <<>> /\ ~wr.od
      \/ /\ wr.st = "active" /\ wr.mage = 0 /\ ~wr.od
         /\ Len(wr.pr) = wr.np /\ Live(o, wr) = Pids(wr) /\ Stopping(wr) = {}

\* ---- termination bookkeeping (C03): a termination starts when kill_process marks the worker `stopping`
StopFlips(o, o2) == { p \in AllTracked(o2) :
                        \E i \in WIdx(o2) : p \in Stopping(o2.w[i]) /\
                           ~(\E j \in WIdx(o) : p \in Stopping(o.w[j])) }
StopEnds(o, o2)  == { p \in AllTracked(o) \cap AllTracked(o2) :      \* (a pid that is forgotten while its kill
                        (\E j \in WIdx(o) : p \in Stopping(o.w[j])) /\     \*  is in flight keeps its termination open)
                           ~(\E i \in WIdx(o2) : p \in Stopping(o2.w[i])) }
WOfPid(o, p) == o.w[CHOOSE i \in WIdx(o) : p \in Pids(o.w[i])]
ChildrenOf(o, p) == { c \in 1..NK(o) : KPar(o, c) = p /\ KSt(o, c) = "run" }
RECURSIVE Desc(_, _)
Desc(o, ps) == LET cs == UNION { ChildrenOf(o, p) : p \in ps } IN
               IF cs \subseteq ps THEN ps ELSE Desc(o, ps \cup cs)

Upd(g, o, ln, o2) ==
  LET n2     == NK(o2)
      stim   == IsStim(g, ln)
      \* --- requests
      isReq  == ln.k = "req"
      isRep  == ln.k = "reply"
      ctx1   == IF isReq THEN [on |-> TRUE, cid |-> ln.x, cmd |-> ln.q.cmd, lname |-> ln.q.lname,
                               hasname |-> ln.q.hasname, pattern |-> ln.q.pattern, pid |-> ln.q.pid, signum |-> ln.q.signum,
                               children |-> ln.q.children, recursive |-> ln.q.recursive,
                               childpid |-> ln.q.childpid, G |-> ln.q.G, nostop |-> ln.q.nostop,
                               graceful |-> ln.q.graceful, seq |-> ln.q.sequential, cast |-> ln.q.cast, waiting |-> ln.q.waiting,
                               busy |-> o2.slot # "", file |-> ln.q.file,
                               arbchg |-> ("arbchg" \in DOMAIN ln.q /\ ln.q.arbchg), setnp |-> ln.q.setnp,
                               matches |-> IF "matches" \in DOMAIN ln.q THEN SeqToSet(ln.q.matches) ELSE {}]
                ELSE IF ln.cb = 0 \/ ln.k = "reqend" THEN NoCtx ELSE g.ctx
      reqs1  == IF isReq
                THEN Append(g.reqs, [cid |-> ln.x, mid |-> ln.q.mid, cast |-> ln.q.cast, n |-> 0, t0 |-> ln.t,
                                     cmd |-> ln.q.cmd, waiting |-> ln.q.waiting, raw |-> ln.q.raw])
                ELSE IF isRep
                THEN [i \in 1..Len(g.reqs) |-> IF g.reqs[i].cid = ln.x
                                               THEN [g.reqs[i] EXCEPT !.n = @ + 1] ELSE g.reqs[i]]
                ELSE g.reqs
      \* --- slot / operation
      acq    == o2.slot # "" /\ o2.slot # o.slot
      rel    == o.slot # "" /\ o2.slot # o.slot
      failing(h, lname, out) == h \in GateHooks /\ ~Effective(g, lname, h, out)
      op1    == IF acq THEN [slot |-> o2.slot, cmd |-> IF g.ctx.on THEN g.ctx.cmd ELSE "internal",
                             lname |-> IF g.ctx.on THEN g.ctx.lname ELSE "",
                             hasname |-> g.ctx.on /\ g.ctx.hasname, pattern |-> g.ctx.on /\ g.ctx.pattern,
                             mark |-> NK(o), t0 |-> ln.t,
                             faulty |-> FALSE, gatefail |-> {},
                             nostop |-> g.ctx.on /\ g.ctx.nostop, graceful |-> ~g.ctx.on \/ g.ctx.graceful,
                             seq |-> g.ctx.on /\ g.ctx.seq,
                             matches |-> IF g.ctx.on THEN g.ctx.matches ELSE {}]
                ELSE IF rel THEN NoOp
                ELSE [g.op EXCEPT !.faulty = @ \/ ln.k \in {"spawnfail", "exc", "block"}
                                              \/ (ln.k = "hook" /\ ln.r # "true"),
                                  !.gatefail = IF ln.k = "hook" /\ failing(ln.x, ln.w, ln.r)
                                               THEN @ \cup {ln.w} ELSE @]
      \* --- ownership, events
      owner1 == LET s == Grow(g.owner, n2, "") IN
                IF ln.k = "spawn" THEN [s EXCEPT ![ln.p] = ln.x] ELSE s
      bornT1 == LET s == Grow(g.bornT, n2, -1) IN
                IF ln.k = "spawn" THEN [s EXCEPT ![ln.p] = ln.t] ELSE s
      isEv   == ln.k = "ev"
      \* --- deaths
      diedAt1 == LET s == Grow(g.diedAt, n2, -1) IN
                 [p \in 1..Len(s) |-> IF s[p] = -1 /\ p <= n2 /\ KSt(o2, p) # "run" THEN ln.t ELSE s[p]]
      envDied1 == IF ln.k \in {"die", "extkill"} /\ OwnerOf(g, ln.p) # ""
                     /\ (\E i \in WIdx(o) : o.w[i].ln = OwnerOf(g, ln.p) /\ o.w[i].st = "active"
                                              /\ ln.p \in Pids(o.w[i]) /\ ln.p \notin Stopping(o.w[i]))
                  THEN g.envDied \cup {ln.p} ELSE g.envDied
      \* --- terminations
      lastSig1 == LET s == Grow(g.lastSig, n2, <<0, -1>>) IN
                  IF ln.k = "signal" THEN [s EXCEPT ![ln.p] = <<ln.a, ln.t>>]
                  \* the kill event marks the start of a termination even when a before_signal hook vetoed the signal
                  ELSE IF isEv /\ ln.x = "kill" /\ ln.p \in 1..Len(s) /\ s[ln.p][2] # ln.t
                       THEN [s EXCEPT ![ln.p] = <<0, ln.t>>]
                  ELSE s
      flips  == StopFlips(o, o2)
      ends   == StopEnds(o, o2)
      term0  == Grow(g.term, n2, NoTerm)
      term1  == [p \in 1..Len(term0) |->
                   IF p \in flips
                   THEN LET wr == WOfPid(o2, p) IN
                        [open |-> TRUE, sig |-> lastSig1[p][1], t0 |-> lastSig1[p][2],
                         G |-> IF g.ctx.on /\ g.ctx.cmd = "kill" /\ g.ctx.G >= 0 THEN g.ctx.G ELSE wr.G,
                         killed |-> FALSE,
                         \* the worker's children when the termination began (by original parent: a parent that
                         \* has already exited no longer "has" them in the kernel table)
                         kids |-> IF wr.sch THEN { c \in 1..NK(o) : c \in 1..Len(g.par0) /\ g.par0[c] = p /\ KSt(o, c) = "run" }
                                  ELSE {}]
                   ELSE IF p \in ends THEN [term0[p] EXCEPT !.open = FALSE]
                   ELSE IF ln.k = "signal" /\ ln.p = p /\ ln.a = SIGKILL /\ term0[p].open
                        THEN [term0[p] EXCEPT !.killed = TRUE]
                   ELSE term0[p]]
      csigs1 == IF ln.k = "signal" THEN {} ELSE
                IF ln.k = "csignal" THEN g.csigs \cup {<<ln.p, ln.a>>} ELSE g.csigs
      \* --- last start/stop event per watcher
      lastEv1 == IF isEv /\ ln.x \in {"start", "stop"}
                 THEN LET rest == SelectSeq(g.lastEv, LAMBDA e : e[1] # ln.w) IN Append(rest, <<ln.w, ln.x>>)
                 \* a name that is (re)added or removed starts a new life
                 ELSE IF isEv /\ ln.x \in {"add", "remove"} THEN SelectSeq(g.lastEv, LAMBDA e : e[1] # ln.w)
                 ELSE g.lastEv
      sdStim == \/ ln.k = "dsig" /\ ln.a \in {15, 2, 3}
                \/ acq /\ o2.slot = "arbiter_stop"
      g1 == [g EXCEPT
               !.cfg = IF ln.k = "init" THEN ln.cfg ELSE @,
               !.fm = IF ln.k = "init" THEN ("fm" \in DOMAIN ln.cfg /\ ln.cfg.fm) ELSE @,
               !.file = IF ln.k = "init" THEN (IF "file" \in DOMAIN ln.cfg THEN ln.cfg.file ELSE <<>>)
                        ELSE IF rel /\ o.slot = "arbiter_reload_config" /\ g.rl.on /\ ~g.op.faulty THEN g.rl.file
                        ELSE @,
               !.rl = IF acq /\ o2.slot = "arbiter_reload_config" /\ g.ctx.on /\ g.ctx.cmd = "reloadconfig"
                      THEN [on |-> ~g.ctx.arbchg, file |-> g.ctx.file, w0 |-> o2.w]      \* (a changed [circus] section: outside C12)
                      ELSE IF rel /\ o.slot = "arbiter_reload_config" THEN [on |-> FALSE, file |-> <<>>, w0 |-> <<>>]
                      ELSE @,
               !.t = ln.t,
               \* completed passes that BEGAN after the last stimulus (saturates at 3)
               !.passes = IF stim THEN 0 ELSE IF PassEnd(o, o2) /\ g.passFresh /\ @ < 3 THEN @ + 1 ELSE @,
               !.passFresh = IF stim THEN FALSE ELSE IF PassStart(o, o2) THEN TRUE ELSE @,
               !.inPass = o2.slot = "manage_watchers",
               !.passClean = IF PassStart(o, o2) THEN CleanForPass(o) /\ ~stim
                             ELSE IF stim \/ (ln.k = "req" /\ ln.q.cmd \in {"kill", "signal"}) THEN FALSE ELSE @,
               !.owner = owner1,
               !.bornT = bornT1,
               !.badw = IF ln.k = "badspawn" THEN @ \cup {ln.w} ELSE @,
               !.passT0 = IF PassStart(o, o2) THEN ln.t ELSE @,
               !.released = IF rel /\ g.op.slot = "arbiter_rm_watcher" /\ g.op.nostop
                            THEN @ \cup { p \in 1..NK(o2) : OwnerOf(g, p) = g.op.lname /\ KSt(o2, p) # "reaped" }
                            ELSE @,
               !.spawned = IF isEv /\ ln.x = "spawn" THEN @ \cup {ln.p} ELSE @,
               !.reaped  = IF isEv /\ ln.x = "reap"  THEN @ \cup {ln.p} ELSE @,
               !.killed  = IF isEv /\ ln.x = "kill"  THEN @ \cup {ln.p} ELSE @,
               !.envDied = envDied1,
               !.diedAt = diedAt1,
               !.polledDead = IF ln.k = "poll" /\ ln.r = "dead" THEN @ \cup {ln.p} ELSE @,
               !.lastEv = lastEv1,
               !.ctx = ctx1,
               !.op = op1,
               !.reqs = reqs1,
               !.roPending = IF isReq /\ ln.q.cmd \in ROCmds /\ ~ln.q.cast /\ ~ln.q.raw THEN ln.x
                             ELSE IF isRep /\ ln.x = @ THEN "" ELSE @,
               !.refusing = IF isReq THEN (o2.slot # "" /\ ln.q.cmd \in ExclCmds /\ ~ln.q.cast /\ ~ln.q.raw)
                            ELSE IF isRep /\ ln.x = g.ctx.cid THEN FALSE ELSE @,
               !.ctxEff = IF isReq THEN FALSE
                          ELSE @ \/ (ln.k \in SigKinds /\ ln.r # "nsp") \/ ln.k = "spawn"
                                 \/ (isEv /\ g.hookOpen = ""),        \* (hook_success / hook_failure events excepted)
               !.ctxHard = IF isReq THEN FALSE
                           ELSE @ \/ (ln.k \in SigKinds /\ ln.r # "nsp") \/ ln.k = "spawn"
                                  \/ (isEv /\ g.hookOpen = "" /\ ln.x # "updated"),
               !.multiSet = IF isReq THEN (ln.q.cmd = "set" /\ ln.q.nopts > 1) ELSE @,
               !.snap = IF isReq THEN <<o2.w, o2.wl, o2.wn>> ELSE @,
               !.snapslot = IF isReq THEN o2.slot ELSE @,
               !.pendKill = IF ln.k = "hook" /\ ln.x = "before_signal" /\ g.ctx.on /\ g.ctx.cmd = "signal" /\ g.ctx.signum = SIGKILL
                            THEN ln.p
                            ELSE IF isEv /\ (ln.x = "hook_success:before_signal" \/ ln.x = "hook_failure:before_signal") THEN @
                            ELSE IF ln.k \in InjKinds THEN @      \* (the environment acting in between is not the daemon's next step)
                            ELSE 0,
               !.lastSig = lastSig1,
               !.term = term1,
               !.csigs = csigs1,
               \* the veto of a before_signal hook concerns the signal that send_signal would deliver next: the
               \* very next effect (the hook_success/failure event in between excepted)
               !.veto = IF ln.k = "hook" /\ ln.x = "before_signal"
                        THEN (IF Effective(g, ln.w, "before_signal", ln.r) THEN {} ELSE {ln.p})
                        ELSE IF isEv /\ (ln.x = "hook_success:before_signal" \/ ln.x = "hook_failure:before_signal") THEN @
                        ELSE {},
               !.hookOpen = IF ln.k = "hook" THEN ln.x ELSE IF isEv THEN "" ELSE @,
               !.blocked = @ \/ ln.k = "block",
               !.termAt = IF @ = -1 /\ sdStim THEN ln.t ELSE @,
               !.closed = IF ln.k = "close" THEN @ \cup {ln.x} ELSE @,
               !.booted = @ \/ ln.k = "boot",
               !.bootDone = @ \/ (rel /\ g.op.slot = "arbiter_start_watchers" /\ g.op.cmd = "internal"),
               !.idleSince = IF o2.slot # "" \/ ~g.bootDone \/ ln.k = "block" THEN ln.t ELSE @,
               !.lastSpawn = IF ln.k = "spawn"
                             THEN [w |-> ln.x, t |-> ln.t, prio |-> CfgW(g, ln.x).prio,
                                   first |-> IF @.w = ln.x THEN @.first ELSE ln.t]
                             ELSE IF acq THEN [w |-> "", t |-> -1, prio |-> 0, first |-> -1] ELSE @,
               !.par0 = LET t == Grow(g.par0, n2, 0) IN IF ln.k = "fork" THEN [t EXCEPT ![ln.p] = ln.a] ELSE t,
               !.lastStatus = LET t == Grow(g.lastStatus, n2, "") IN
                              IF ln.k = "status" THEN [t EXCEPT ![ln.p] = ln.r] ELSE t,
               !.pruned = LET left == { p \in AllTracked(o) : p \notin AllTracked(o2) /\ p \notin g.reaped
                                          /\ \/ (p \in 1..Len(g.lastStatus) /\ g.lastStatus[p] \in {"zombie", "gone"})
                                             \/ p \in g.killed }     \* (surplus / expired worker popped after its kill)
                          IN ((@ \cup left) \ g.detached) \ (IF isEv /\ ln.x = "reap" THEN {ln.p} ELSE {}),
               \* D3 as coded: kill_process is called while the pid is still in the table, so send_signal consults
               \* before_signal and (unless vetoed) sends the stop signal; only then is the pid forgotten.  A pid
               \* forgotten without that attempt is NOT this finding.
               !.detPend = IF ln.k = "hook" /\ ln.x = "after_spawn" /\ ~Effective(g, ln.w, "after_spawn", ln.r)
                           THEN @ \cup {ln.p} ELSE @,
               !.detached = IF (ln.k = "signal" \/ (ln.k = "hook" /\ ln.x = "before_signal")) /\ ln.p \in g.detPend
                               /\ ln.p \in AllTracked(o)       \* (Process.stop()'s late SIGTERM does not count)
                            THEN @ \cup {ln.p} ELSE @,
               !.vetoRaise = IF ln.k = "hook" /\ ln.x = "before_signal"
                             THEN (IF ln.r = "raise" /\ ~HookCfg(g, ln.w, "before_signal").ig THEN {ln.p} ELSE {})
                             ELSE IF isEv /\ ln.x = "hook_failure:before_signal" THEN @ ELSE {},
               !.reloaded = @ \/ o2.slot = "arbiter_reload_config",
               !.drifted = @ \/ (o2.slot = "arbiter_reload_config" /\ Cardinality(SeqToSet(o2.wll)) < Len(o2.wll)
                                  /\ Cardinality(SeqToSet(o.wll)) = Len(o.wll)),
               !.dsigBusy = @ \/ (ln.k = "dsig" /\ ln.a \in {15, 2, 3} /\ o2.slot # ""),
               !.sigTargets = IF isReq THEN {} ELSE IF ln.k \in SigKinds /\ ln.r # "nsp" THEN @ \cup {ln.p} ELSE @,
               !.snapk = IF isReq THEN o2.k ELSE @,
               !.ctxDie = IF isReq THEN FALSE ELSE @ \/ ln.k \in {"die", "sigdeath", "extkill"},
               !.ctxErr = IF isReq THEN FALSE ELSE @ \/ (isRep /\ g.ctx.on /\ ln.x = g.ctx.cid /\ ln.r = "error") ]
  IN g1

---------------------------------------------------------------------------
\* The clauses.  Each is a predicate on one step (g = ghost BEFORE the step, g2 = after).
\* Names are "<property>.<clause>".

Quiet(o) == o.fl = 0 /\ o.slot = ""

\* ---------------- C01
C01_range(o2) == \A i \in WIdx(o2) : o2.w[i].np >= 0 /\ (o2.w[i].sing => o2.w[i].np <= 1)
C01_converge(g2, o2) ==
   Quiet(o2) /\ g2.passes >= 2 /\ ~g2.blocked =>
      \A i \in WIdx(o2) : LET wr == o2.w[i] IN
         (wr.st = "active" /\ wr.resp /\ ~wr.od /\ wr.mage = 0 /\ Stopping(wr) = {} /\ wr.ln \notin g2.badw)
            => Cardinality(Live(o2, wr)) = wr.np
\* the periodic check is there at all: with a check delay configured, no two check delays pass with the slot free
\* and no check
C01_period(g, o2, ln) ==
   (ln.cb = 0 /\ ln.k \in {"tick", "end"} /\ g.bootDone /\ g.cfg.cd > 0 /\ g.closed = {} /\ ~o2.stopping /\ ~g.blocked
      /\ o2.slot = "")
     => ln.t - g.idleSince <= 2 * g.cfg.cd + 100
\* an accepted `set` that names numprocesses (alone or among other options) has set it when the request has been
\* handled: the target the count converges to is the one that was asked for
C01_set(g, ln, o2) ==
   (ln.k = "reqend" /\ g.ctx.on /\ ln.x = g.ctx.cid /\ g.ctx.cmd = "set" /\ g.ctx.setnp # -99 /\ ~g.ctxErr /\ g.ctx.hasname) =>
      \A i \in WIdx(o2) : (o2.w[i].ln = g.ctx.lname /\ o2.w[i].n \in SeqToSet(o2.wl)) =>
          o2.w[i].np = (IF g.ctx.setnp < 0 THEN 0 ELSE g.ctx.setnp)
C01_fixpoint(g, ln) == ~(g.inPass /\ g.passClean /\ ln.k \in (SigKinds \cup {"spawn"}))
\* max_age: a periodic check that finds the count right terminates a worker for its age only when it HAS that age
\* (max_age plus a non-negative random variance); the signal that begins a termination inside a pass, for a worker
\* that is not surplus and was there before the pass began, is such an expiry
C01_young(g, o, ln) ==
   (ln.k = "signal" /\ g.inPass /\ ~g.ctx.on /\ ln.r = "ok") =>
      \A i \in WIdx(o) : LET wr == o.w[i] IN
         (ln.p \in Pids(wr) /\ wr.mage > 0 /\ wr.st = "active" /\ Len(wr.pr) <= wr.np /\ ln.p \notin Stopping(wr)
            /\ ln.p \notin g.killed        \* (no termination of it has begun before: Process.stop() signals once more at the end of one)
            /\ KSt(o, ln.p) = "run" /\ ln.p \in 1..Len(g.bornT) /\ g.bornT[ln.p] >= 0 /\ g.bornT[ln.p] < g.passT0)
           => ln.t - g.bornT[ln.p] + 1 >= wr.mage * 100
C01_fresh(g, o, o2) ==
   (o.slot # "" /\ o2.slot # o.slot /\ g.op.slot \in {"watcher_restart", "watcher_reload", "arbiter_restart",
                                                 "arbiter_reload"}
      /\ g.op.cmd \in {"restart", "reload"} /\ ~g.op.faulty /\ ~g.blocked)
   => \A i \in WIdx(o2) : LET wr == o2.w[i] IN
        ((~g.op.hasname \/ g.op.lname = wr.ln) /\ wr.st = "active"
           /\ (g.op.cmd = "reload" /\ g.op.graceful => ~wr.hup))
          => \A p \in (Live(o2, wr) \ Stopping(wr)) : p > g.op.mark

\* ---------------- C02
BecameStopped(o, o2) == { i \in WIdx(o2) : o2.w[i].st = "stopped" /\
                            \E j \in WIdx(o) : o.w[j].ln = o2.w[i].ln /\ o.w[j].st # "stopped" }
C02_complete(g2, o, o2) ==
   \A i \in BecameStopped(o, o2) : ~o2.w[i].od =>
      /\ o2.w[i].pr = <<>>
      /\ \A p \in OwnedBy(g2, o2, o2.w[i].ln) : KSt(o2, p) = "reaped"
C02_opdone(g, o, o2) ==
   /\ (o.slot # "" /\ o2.slot # o.slot /\ g.op.cmd = "stop" /\ g.op.slot \in {"watcher_stop", "arbiter_stop_watchers"})
      => \A i \in WIdx(o2) : (~g.op.hasname \/ g.op.lname = o2.w[i].ln) /\ ~o2.w[i].od
             => o2.w[i].st = "stopped" /\ o2.w[i].pr = <<>>
   \* rm (without nostop): when rm_watcher lets go of the slot the watcher it took out of the directory has been
   \* stopped: no worker left (a removed watcher stays in the projection for as long as it has workers)
   /\ (o.slot = "arbiter_rm_watcher" /\ o2.slot # o.slot /\ g.op.cmd = "rm" /\ ~g.op.nostop)
      => \A i \in WIdx(o2) : (o2.w[i].ln = g.op.lname /\ ~o2.w[i].od /\ \A j \in 1..Len(o2.wl) : o2.wl[j] # o2.w[i].n)
             => o2.w[i].st = "stopped" /\ o2.w[i].pr = <<>>
Started(o, o2) == { i \in WIdx(o2) : o2.w[i].st \in {"starting", "active"} /\
                      \E j \in WIdx(o) : o.w[j].ln = o2.w[i].ln /\ o.w[j].st = "stopped" }
C02_stays(g, o, ln, o2) ==
   /\ \A i \in Started(o, o2) : ~o2.w[i].od =>
        /\ o2.slot \in StartSlots
        \* ... taken by a request that is one of those (a `set` that gets hold of the reload slot is not)
        /\ g.op.cmd \in {"start", "restart", "reload", "add", "reloadconfig", "internal"}
        /\ (o2.slot \in WatcherSlots /\ g.op.hasname /\ ~g.op.pattern => g.op.lname = o2.w[i].ln)
        \* ... and a pattern reaches the watchers it matches, no others
        /\ (g.op.hasname /\ g.op.pattern /\ g.op.cmd \in {"start", "restart"} => o2.w[i].ln \in g.op.matches)
   /\ (ln.k = "spawn" => \A j \in WIdx(o2) : o2.w[j].ln = ln.x => o2.w[j].st # "stopped")

\* ---------------- C03
C03_first(g, o, ln) ==
   \* an escalation SIGKILL (not a `signal` request, not the configured stop signal itself) only inside an
   \* open termination
   (ln.k = "signal" /\ ln.a = SIGKILL /\ ~(g.ctx.on /\ g.ctx.cmd = "signal"))
     => \/ (ln.p \in 1..Len(g.term) /\ g.term[ln.p].open)
        \/ (\E i \in WIdx(o) : ln.p \in Pids(o.w[i]) /\ o.w[i].ssig = SIGKILL)
        \/ (g.ctx.on /\ g.ctx.cmd = "kill" /\ g.ctx.signum = SIGKILL)
C03_notearly(g, ln) ==
   (ln.k = "signal" /\ ln.a = SIGKILL /\ ln.p \in 1..Len(g.term) /\ g.term[ln.p].open
      /\ g.term[ln.p].sig # SIGKILL /\ ~(g.ctx.on /\ g.ctx.cmd = "signal"))
     => ln.t + 1 >= g.term[ln.p].t0 + g.term[ln.p].G
C03_notdead(g, ln) ==
   (ln.k = "signal" /\ ln.a = SIGKILL /\ ln.p \in 1..Len(g.term) /\ g.term[ln.p].open /\ ~g.blocked
      /\ ~(g.ctx.on /\ g.ctx.cmd = "signal"))
     \* "exited in time" = exited during this termination's grace period (one poll of slack); a worker that
     \* was already dead when the termination began, or a zero grace period, is not that case
     => /\ (ln.p \in g.polledDead => g.term[ln.p].G = 0)
        /\ (ln.p \in 1..Len(g.diedAt) /\ g.diedAt[ln.p] # -1 /\ g.diedAt[ln.p] >= g.term[ln.p].t0
              /\ g.term[ln.p].G > 0 => g.diedAt[ln.p] + 101 >= ln.t)
C03_prompt(g, o, ln) ==
   (ln.k = "tick" /\ ~g.blocked) =>
      \A p \in 1..Len(g.term) :
         (g.term[p].open /\ ~g.term[p].killed /\ KSt(o, p) = "run" /\ g.term[p].sig # SIGKILL)
            => g.t <= g.term[p].t0 + g.term[p].G + 101
C03_kids(g, g2, o, o2) ==
   /\ \A p \in StopFlips(o, o2) : \A c \in g2.term[p].kids : <<c, g2.term[p].sig>> \in g.csigs
\* the signal a termination begins with is the one the request named (kill with a signum), otherwise the watcher's
\* configured stop signal (0 = a before_signal hook vetoed it: C14's business)
C03_stopsig(g, g2, o, o2) ==
   \A p \in StopFlips(o, o2) : g2.term[p].sig # 0 =>
      g2.term[p].sig = IF g.ctx.on /\ g.ctx.cmd = "kill" /\ g.ctx.signum >= 0 THEN g.ctx.signum
                       ELSE WOfPid(o2, p).ssig

\* ---------------- C04 (judged on `probe` lines: what the read-only requests SAY vs the kernel table)
Mine(g, o, lname) == { p \in 1..NK(o) : OwnerOf(g, p) = lname /\ KSt(o, p) = "run" /\ p \notin g.released
                                          /\ KPar(o, p) = 0 }
C04_list(g, o, ln) ==
   (ln.k = "probe" /\ Quiet(o)) =>
      \A j \in 1..Len(ln.pb.per) : SeqToSet(ln.pb.per[j].pids) = Mine(g, o, ln.pb.per[j].n)
C04_count(g, o, ln) ==
   (ln.k = "probe" /\ Quiet(o) /\ g.passes >= 1 /\ ~g.blocked) =>
      \A j \in 1..Len(ln.pb.per) :
         /\ ln.pb.per[j].np = Cardinality(Mine(g, o, ln.pb.per[j].n))
         /\ SeqToSet(ln.pb.per[j].stats) = Mine(g, o, ln.pb.per[j].n)
C04_owned(g, o, ln) ==
   (ln.k \in {"probe", "end"} /\ Quiet(o) /\ g.passes >= 1 /\ ~g.blocked) =>
      \A p \in 1..NK(o) :
         /\ (KSt(o, p) = "run" /\ KPar(o, p) = 0 /\ p \notin g.released)
               => /\ Cardinality({ i \in WIdx(o) : p \in Pids(o.w[i]) }) = 1
                  \* ... a watcher that is in the directory: one that was removed but still runs workers reports nothing
                  /\ \E i \in WIdx(o) : p \in Pids(o.w[i]) /\ o.w[i].n \in SeqToSet(o.wl)
         /\ KSt(o, p) # "zombie"
         /\ (KSt(o, p) = "reaped" => p \notin AllTracked(o))
\* "zombie children never outlive one periodic check", also when the checks leave no trace of their own (nothing is
\* tracked, nothing to look at): a child of the daemon that has been a zombie for two check delays during which
\* nothing stood in the way of a check
C04_zombie(g, o2, ln) ==
   (ln.cb = 0 /\ ln.k \in {"tick", "end", "probe"} /\ g.bootDone /\ g.cfg.cd > 0 /\ g.closed = {} /\ ~o2.stopping /\ ~g.blocked
      /\ o2.slot = "")
     => \A p \in 1..NK(o2) :
          (KSt(o2, p) = "zombie" /\ KPar(o2, p) = 0 /\ p \in 1..Len(g.diedAt) /\ g.diedAt[p] # -1)
             => ln.t - Max2(g.diedAt[p], g.idleSince) <= 2 * g.cfg.cd + 100
C04_status(o, ln, o2) ==
   /\ \A i \in WIdx(o2) : (o2.w[i].st = "stopped" /\ ~o2.w[i].od) => o2.w[i].pr = <<>>
   /\ (ln.cb = 0 /\ ln.k \in {"tick", "req", "probe", "end"} /\ Quiet(o2))
         => \A i \in WIdx(o2) : o2.w[i].st \in {"stopped", "active"}

\* Completion bound of the operation holding the slot, from the statement: "the sum of the applicable
\* graceful_timeout and warmup delays plus a small constant" (ms).  Watchers the operation applies to:
OpWs(g, o) == { i \in WIdx(o) : ~g.op.hasname \/ g.op.pattern \/ o.w[i].ln = g.op.lname }
NPof(wr) == Max2(wr.np, Len(wr.pr))
SumOver(o, S, f(_)) == LET RECURSIVE Sm(_)
                          Sm(T) == IF T = {} THEN 0 ELSE LET i == CHOOSE i \in T : TRUE IN f(o.w[i]) + Sm(T \ {i})
                      IN Sm(S)
MaxG(o, S) == LET RECURSIVE Mx(_)
                  Mx(T) == IF T = {} THEN 0 ELSE LET i == CHOOSE i \in T : TRUE IN Max2(o.w[i].G + 100, Mx(T \ {i}))
              IN Mx(S)
StopB(wr) == wr.G + 100                                  \* all workers are killed concurrently: one grace period
StartB(wr) == (NPof(wr) + 1) * wr.W + wr.G + 100          \* (+ a stop if a hook aborts the start)
SmallC == 400
OpBound(g, o) ==
  LET ws == OpWs(g, o) sl == g.op.slot IN
  CASE sl \in {"watcher_stop", "arbiter_rm_watcher"} -> SumOver(o, ws, StopB) + SmallC
    [] sl \in {"arbiter_stop_watchers", "arbiter_stop"} -> MaxG(o, ws) + SmallC
    [] sl \in {"watcher_start", "arbiter_start_watchers"} ->
         SumOver(o, ws, StartB) + Cardinality(ws) * g.cfg.wg + SmallC
    [] sl \in {"watcher_restart", "arbiter_restart"} ->
         MaxG(o, ws) + SumOver(o, ws, StartB) + Cardinality(ws) * g.cfg.wg + SmallC
    [] sl \in {"watcher_incr", "watcher_decr", "watcher_do_action", "watcher_set_opt", "manage_watchers"} ->
         SumOver(o, ws, LAMBDA wr : (NPof(wr) + 1) * wr.W + 2 * (wr.G + 100)) + SmallC
    [] sl \in {"watcher_reload", "arbiter_reload"} ->
         SumOver(o, ws, LAMBDA wr : (NPof(wr) + 1) * (wr.G + 100 + wr.W) + StartB(wr)) + SmallC
    [] OTHER -> Bound(g, o)

\* ---------------- C05
C05_noblock(ln) == ln.k # "block"
C05_readnow(g, ln) == ~(g.roPending # "" /\ ln.cb = 0)
OpenWaiting(g) == { i \in 1..Len(g.reqs) : g.reqs[i].waiting /\ g.reqs[i].n = 0 /\ ~g.reqs[i].cast /\ ~g.reqs[i].raw }
C05_bound(g, o, ln) ==
   (ln.k = "tick" /\ ~g.blocked) =>
      /\ (o.slot # "" => g.t - g.op.t0 <= OpBound(g, o))
      /\ \A i \in OpenWaiting(g) : g.t - g.reqs[i].t0 <= Bound(g, o)

\* ---------------- C06 (daemon half, on the recorded frames)
ReqOf(g, cid) == g.reqs[CHOOSE i \in 1..Len(g.reqs) : g.reqs[i].cid = cid]
C06_reply(g, ln) ==
   ln.k = "reply" =>
      /\ \E i \in 1..Len(g.reqs) : g.reqs[i].cid = ln.x
      /\ LET r == ReqOf(g, ln.x) IN r.raw \/ (~r.cast /\ r.n = 0 /\ ln.w = r.mid)     \* (raw frames: Protocol.tla)
      /\ ln.b = 1
C06_status(ln) == ln.k = "reply" => ln.r \in {"ok", "error"}
C06_all(g, ln) ==
   \* (requests still pending when the daemon exits are outside: after an accepted quit nobody serves)
   (ln.k = "end" /\ "ctrl" \notin g.closed) =>
      \A i \in 1..Len(g.reqs) : g.reqs[i].raw \/ g.reqs[i].n = (IF g.reqs[i].cast THEN 0 ELSE 1)

\* ---------------- C09
C09_spawn(g, ln) == (ln.k = "ev" /\ ln.x = "spawn") => ln.p \notin g.spawned /\ ln.p \notin g.reaped
C09_reap(g, o, ln) ==
   (ln.k = "ev" /\ ln.x = "reap") =>
      /\ ln.p \in g.spawned
      /\ ln.p \notin g.reaped
      /\ (KWs(o, ln.p) # -1 /\ (ln.p \in g.envDied) => ln.a = Decode(KWs(o, ln.p)))
C09_live(g, o, ln) ==
   (ln.k \in {"probe", "end"} /\ Quiet(o) /\ g.passes >= 1 /\ ~g.blocked) =>
      /\ ((g.spawned \ (g.reaped \cup g.killed)) \ g.released)
            = { p \in AllTracked(o) : KSt(o, p) = "run" }
      /\ \A p \in (g.envDied \ g.released) : p \notin AllTracked(o) => p \in g.reaped
\* a kill event says "this worker is being terminated": once nothing is in flight any more, a worker with a kill
\* event and no reap event is not among the running workers (evaluated at EVERY quiet environment line, not only at
\* the probes: the evidence is gone as soon as the worker is really terminated later)
C09_killev(g, o, ln) ==
   (ln.cb = 0 /\ ln.k \in {"tick", "req", "probe", "end"} /\ Quiet(o) /\ ~g.blocked) =>
      \A p \in (g.killed \ (g.reaped \cup g.released)) : ~(p \in AllTracked(o) /\ KSt(o, p) = "run")
LastEvOf(g, lname) == IF \E i \in 1..Len(g.lastEv) : g.lastEv[i][1] = lname
                      THEN g.lastEv[CHOOSE i \in 1..Len(g.lastEv) : g.lastEv[i][1] = lname][2] ELSE "none"
C09_startstop(g, o2, ln) ==
   /\ (ln.k = "ev" /\ ln.x = "start") => LastEvOf(g, ln.w) # "start"
   /\ (ln.cb = 0 /\ ln.k \in {"tick", "req", "probe", "end"} /\ Quiet(o2)) =>
        \A i \in WIdx(o2) : /\ (o2.w[i].st = "active"  => LastEvOf(g, o2.w[i].ln) = "start")
                            /\ (o2.w[i].st = "stopped" => LastEvOf(g, o2.w[i].ln) # "start")

\* what `status <name>` answers is the status the watcher has (and the events announced)
C09_status(g, ln, o2) ==
   (ln.k = "reply" /\ g.ctx.on /\ ln.x = g.ctx.cid /\ g.ctx.cmd = "status" /\ g.ctx.hasname /\ ln.r # "error") =>
      \E i \in WIdx(o2) : o2.w[i].ln = g.ctx.lname /\ o2.w[i].st = ln.r /\ o2.w[i].n \in SeqToSet(o2.wl)

\* ---------------- C10
\* nothing in flight, and yet the slot is held - or the arbiter still calls itself restarting although it is alive
\* and serving (every request would be refused from then on)
C10_wedge(g, o2, ln) == ~(ln.cb = 0 /\ ln.k \in {"tick", "req", "probe", "end"} /\ o2.fl = 0
                          /\ (o2.slot # "" \/ (o2.restarting /\ g.closed = {})))
C10_refuse(g, o, ln, o2) ==
   g.refusing =>
      /\ ln.k \notin (SigKinds \cup {"spawn", "ev", "tick"})
      /\ (ln.k = "reply" /\ ln.x = g.ctx.cid) =>
            /\ <<o2.w, o2.wl, o2.wn>> = g.snap
            /\ o2.slot = g.snapslot              \* ... and the operation in flight keeps the slot
            /\ \/ ln.r = "error"
               \/ (g.ctx.cmd \in {"incr", "decr"} /\ HasWL(o, g.ctx.lname) /\ WL(o, g.ctx.lname).sing)
\* state-changing work happens only under the slot: a spawn, or a watcher changing status, while the slot is
\* free means an operation is running unserialized (workers forgotten by D3 and on-demand watchers excepted)
StChanged(o, o2) == { i \in WIdx(o2) : \E j \in WIdx(o) : o.w[j].ln = o2.w[i].ln /\ o.w[j].st # o2.w[i].st /\ ~o2.w[i].od }
\* a watcher that was removed from the directory stays in the projection until it is stopped and empty: its leaving
\* the projection is its last status change
\* (a watcher removed with nostop is released, running, when the rm request has been handled)
Vanished(g, o, o2) == { j \in WIdx(o) : /\ o.w[j].st # "stopped" /\ ~o.w[j].od
                                        /\ ~\E i \in WIdx(o2) : o2.w[i].ln = o.w[j].ln
                                        /\ ~(g.ctx.on /\ g.ctx.cmd = "rm" /\ g.ctx.nostop /\ g.ctx.lname = o.w[j].ln) }
C10_held(g, o, ln, o2) ==
   (ln.k = "spawn" \/ StChanged(o, o2) # {} \/ Vanished(g, o, o2) # {}) => (o.slot # "" \/ o2.slot # "")
C10_accept(ln) == (ln.k = "reply" /\ ln.w = "xprobe") => ln.r = "ok"

\* ---------------- C11: a request refused as invalid or conflicting changes nothing
\* (errno 1 invalid JSON, 2 unknown command, 3 message error, 5 command error incl. conflict / bad value / duplicate)
C11_unchanged(g, ln, o2) ==
   (ln.k = "reply" /\ g.ctx.on /\ ln.x = g.ctx.cid /\ ln.r = "error" /\ ln.a \in {1, 2, 3, 5}) =>
      /\ <<o2.w, o2.wl, o2.wn>> = g.snap
      /\ ~g.ctxEff

\* ---------------- C13 (worker ids)
C13_wid(o, o2) ==
   \A i \in WIdx(o2) : LET wr == o2.w[i] IN
      /\ \A j \in 1..Len(wr.pr) : wr.pr[j][2] >= 1
      /\ Cardinality(Wids(wr, Live(o2, wr))) = Cardinality(Live(o2, wr))
      /\ (Len(wr.pr) = 1 /\ (\E k \in WIdx(o) : o.w[k].ln = wr.ln /\ o.w[k].pr = <<>>)) => wr.pr[1][2] = 1

\* ---------------- C14
C14_startgate(g, o, o2) ==
   (o.slot # "" /\ o2.slot # o.slot /\ ~g.blocked) =>
      \A lname \in g.op.gatefail : \A i \in WIdx(o2) : o2.w[i].ln = lname =>
         /\ o2.w[i].st = "stopped"
         /\ \A p \in OwnedBy(g, o2, lname) : KSt(o2, p) # "run"
C14_siggate(g, ln) == (ln.k = "signal" /\ ln.p \in g.veto) => ln.a = SIGKILL
\* SIGKILL is always sent, whatever before_signal says
C14_killsent(g, ln) ==
   (g.pendKill # 0 /\ ln.k \notin InjKinds
      /\ ~(ln.k = "ev" /\ (ln.x = "hook_success:before_signal" \/ ln.x = "hook_failure:before_signal")))
     => ln.k = "signal" /\ ln.p = g.pendKill /\ ln.a = SIGKILL
\* a hook runs for the watcher it was configured on, and for no other
C14_own(g, ln) == (ln.k = "hook") => HookCfg(g, ln.w, ln.x).o # "absent"
C14_events(g, ln) ==
   /\ (g.hookOpen # "" /\ ln.k # "exc") =>
         ln.k = "ev" /\ (ln.x = "hook_success:" \o g.hookOpen \/ ln.x = "hook_failure:" \o g.hookOpen)
   /\ (ln.k = "ev" /\ (ln.x = "hook_success:" \o g.hookOpen) /\ g.hookOpen # "") => TRUE

\* ---------------- C15
C15_dir(g, o2, ln) ==
   \* judged where a request could observe it: between two callbacks
   (g.booted /\ ln.cb = 0 /\ ln.k \in {"tick", "req", "probe", "end"}) =>
   /\ Cardinality(SeqToSet(o2.wll)) = Len(o2.wll)
   /\ SeqToSet(o2.wll) = SeqToSet(o2.wn)
C15_views(o, ln) ==
   ln.k = "probe" =>
      /\ SeqToSet(ln.pb.wl) = SeqToSet(ln.pb.stn)
      /\ SeqToSet(ln.pb.wl) = SeqToSet(ln.pb.stats)
      /\ ln.pb.nw = Cardinality(SeqToSet(ln.pb.wl))
      /\ Len(ln.pb.stn) = ln.pb.nw
C15_addrm(g, o, ln, o2) ==
   /\ (ln.k = "reply" /\ g.ctx.on /\ ln.x = g.ctx.cid /\ g.ctx.cmd = "add" /\ ln.r = "ok")
         => g.ctx.lname \in SeqToSet(o2.wn) /\ g.ctx.lname \in SeqToSet(o2.wll)
   /\ (o.slot = "arbiter_rm_watcher" /\ o2.slot # o.slot)
         => g.op.lname \notin SeqToSet(o2.wn) /\ g.op.lname \notin SeqToSet(o2.wll)

\* a request that names an existing watcher, in whatever letter case, is not told "not found" (errno 3 is the
\* MessageError class; for these commands with well-formed properties nothing else produces it)
C15_reach(g, ln) ==
   (ln.k = "reply" /\ g.ctx.on /\ ln.x = g.ctx.cid /\ ln.r = "error" /\ ln.a = 3 /\ g.ctx.hasname /\ ~g.ctx.pattern
      /\ g.ctx.cmd \in {"start", "stop", "restart", "status", "numprocesses", "list", "stats", "options", "incr", "decr"}
      /\ g.snap # <<>>)
     => ~(/\ g.ctx.lname \in SeqToSet(g.snap[3])
          /\ \E i \in 1..Len(g.snap[1]) : g.snap[1][i].ln = g.ctx.lname /\ g.snap[1][i].n \in SeqToSet(g.snap[2]))

\* ---------------- C18 (confinement of signal / kill requests)
RECURSIVE Anc(_, _, _)
Anc(g, p, n) == IF n = 0 \/ p \notin 1..Len(g.par0) \/ g.par0[p] = 0 THEN {} ELSE {g.par0[p]} \cup Anc(g, g.par0[p], n - 1)
C18_confine(g, o, ln) ==
   (ln.k \in SigKinds /\ g.ctx.on /\ g.ctx.cmd \in {"signal", "kill"}) =>
      \E i \in WIdx(o) : /\ o.w[i].ln = g.ctx.lname
                         /\ \/ ln.p \in Desc(o, Pids(o.w[i]))
                            \* a child listed a moment ago whose parent (a worker of this watcher) has just died
                            \/ \E a \in Anc(g, ln.p, 8) : OwnerOf(g, a) = g.ctx.lname

\* the processes a `signal` request addresses (commands/sendsignal.py), in the state in which it arrived
SnapSt(g, p) == IF p \in 1..Len(g.snapk) THEN g.snapk[p][2] ELSE "none"
SnapKids(g, p, rec) ==
   LET direct(P) == { c \in 1..Len(g.snapk) : g.snapk[c][4] \in P /\ g.snapk[c][2] = "run" }
       RECURSIVE Clo(_)
       Clo(P) == IF direct(P) \subseteq P THEN P ELSE Clo(P \cup direct(P))
   IN IF SnapSt(g, p) # "run" THEN {} ELSE IF rec THEN Clo({p}) \ {p} ELSE direct({p})
Addressed(g) ==
   LET sw == g.snap[1]
       is == { i \in 1..Len(sw) : sw[i].ln = g.ctx.lname }
   IN IF is = {} THEN {}
      ELSE LET wr == sw[CHOOSE i \in is : TRUE]
               tracked == Pids(wr)
               base == IF g.ctx.pid # -1 THEN {g.ctx.pid} ELSE { p \in tracked : SnapSt(g, p) = "run" }
           IN IF g.ctx.childpid # -1 THEN { c \in {g.ctx.childpid} : \E p \in base \cap tracked : c \in SnapKids(g, p, FALSE) }
              ELSE IF g.ctx.children THEN UNION { SnapKids(g, p, FALSE) : p \in base \cap tracked }
              ELSE (base \cap tracked) \cup (IF g.ctx.recursive THEN UNION { SnapKids(g, p, TRUE) : p \in base \cap tracked } ELSE {})
C18_exact(g, ln) ==
   (ln.k = "reqend" /\ g.ctx.on /\ g.ctx.cmd = "signal" /\ ln.x = g.ctx.cid) =>
      /\ g.sigTargets \subseteq Addressed(g)
      \* ... and all of them, unless a hook vetoes or somebody died meanwhile
      \* (a request that was refused - childpid without pid, a child pid that is not a child - owes nobody a signal)
      /\ (~g.ctxDie /\ ~g.ctxErr /\ CfgW(g, g.ctx.lname).hooks = <<>> /\ g.ctx.signum >= 0) =>
            { p \in Addressed(g) : SnapSt(g, p) \in {"run", "zombie"} } \subseteq g.sigTargets

\* ---------------- C12 (schedule half: reloadconfig with deaths, periodic checks and read-only requests in between;
\*                  the daemon is booted from a real file and only the file and reloadconfig change its settings)
RlDone(g, o, o2) == g.fm /\ g.rl.on /\ o.slot = "arbiter_reload_config" /\ o2.slot # o.slot /\ ~g.op.faulty /\ ~g.blocked
                    /\ ~(\E j \in 1..Len(g.rl.file) : g.rl.file[j].sing /\ g.rl.file[j].np > 1)      \* (a refused edit)
WByLn(ws, lname) == { i \in 1..Len(ws) : ws[i].ln = lname }
\* when the reload lets go of the slot the directory is the file: the same names, each with the file's numprocesses
\* and settings (ver = the cmd's version tag, standing for the keys the projection does not show)
C12_conv(g, o, o2) ==
   RlDone(g, o, o2) =>
      /\ \A j \in 1..Len(g.rl.file) : \E i \in WIdx(o2) :
            /\ o2.w[i].ln = g.rl.file[j].ln /\ o2.w[i].np = g.rl.file[j].np
            /\ o2.w[i].ver = g.rl.file[j].ver /\ o2.w[i].G = g.rl.file[j].G /\ o2.w[i].W = g.rl.file[j].W
            /\ o2.w[i].ssig = g.rl.file[j].ssig /\ o2.w[i].sch = g.rl.file[j].sch /\ o2.w[i].sing = g.rl.file[j].sing
            /\ o2.w[i].resp = g.rl.file[j].resp /\ o2.w[i].hup = g.rl.file[j].hup
            /\ \E x \in 1..Len(o2.wl) : o2.wl[x] = o2.w[i].n
      /\ \A x \in 1..Len(o2.wl) : \E j \in 1..Len(g.rl.file) : g.rl.file[j].n = o2.wl[x]
      \* a section with autostart off that this reload added or changed is left stopped, as a fresh start would leave it
      /\ \A j \in 1..Len(g.rl.file) :
            (~g.rl.file[j].auto /\ ~(\E j0 \in 1..Len(g.file) : g.file[j0] = g.rl.file[j])) =>
               \A i \in WIdx(o2) : o2.w[i].ln = g.rl.file[j].ln => (o2.w[i].st = "stopped" /\ o2.w[i].pr = <<>>)
\* a section that is word for word what the daemon loaded before keeps every worker that is still alive
C12_keep(g, o, o2) ==
   RlDone(g, o, o2) =>
      \A j \in 1..Len(g.rl.file) :
         (\E j0 \in 1..Len(g.file) : g.file[j0] = g.rl.file[j]) =>
            \A i0 \in WByLn(g.rl.w0, g.rl.file[j].ln) :
               \A p \in Pids(g.rl.w0[i0]) : KSt(o2, p) = "run" =>
                  \E i \in WIdx(o2) : o2.w[i].ln = g.rl.file[j].ln /\ p \in Pids(o2.w[i])

\* a kill request that names a signal opens its terminations with THAT signal (0, the null signal, included)
C18_killsig(g, g2, o, o2) ==
   (g.ctx.on /\ g.ctx.cmd = "kill" /\ g.ctx.signum >= 0) =>
      \A p \in StopFlips(o, o2) : g2.term[p].sig # 0 => g2.term[p].sig = g.ctx.signum

\* ---------------- C19
C19_order(g, o, ln) ==
   (ln.k = "spawn" /\ o.slot \in {"arbiter_start_watchers", "arbiter_restart"} /\ g.lastSpawn.w # ""
      /\ g.lastSpawn.w # ln.x)
     => CfgW(g, ln.x).prio <= g.lastSpawn.prio
C19_pace(g, o, ln) ==
   (ln.k = "spawn" /\ o.slot \in {"arbiter_start_watchers", "arbiter_restart", "watcher_start",
                                  "watcher_restart"} /\ g.lastSpawn.w # "" /\ ~g.blocked)
     => IF g.lastSpawn.w = ln.x
        THEN (HasWL(o, ln.x) => ln.t + 1 >= g.lastSpawn.t + WL(o, ln.x).W)
        ELSE ln.t + 1 >= g.lastSpawn.t + g.cfg.wg
C19_auto(g, o, ln, o2) ==
   (o.slot = "arbiter_start_watchers" /\ o2.slot # o.slot /\ g.op.cmd = "internal" /\ ~g.bootDone) =>
      \A i \in WIdx(o2) : ~CfgW(g, o2.w[i].ln).auto =>
          o2.w[i].st = "stopped" /\ OwnedBy(g, o2, o2.w[i].ln) = {}

\* ---------------- C08 (simulated half: the schedule dimension)
C08_done(g, o, ln) ==
   (ln.k = "end" /\ g.termAt # -1 /\ ~g.blocked) =>
      /\ "ctrl" \in g.closed /\ "pub" \in g.closed
      \* (a zombie cannot outlive the daemon process: once circusd has exited the kernel reaps it; what must not
      \*  exist is a worker that is still running)
      /\ \A p \in 1..NK(o) : KPar(o, p) = 0 /\ p \notin g.released => KSt(o, p) # "run"
      /\ \A i \in WIdx(o) : o.w[i].st = "stopped"

---------------------------------------------------------------------------
Clauses(g, o, ln, o2, g2) ==
  [ C01_range |-> C01_range(o2), C01_converge |-> C01_converge(g2, o2), C01_fixpoint |-> C01_fixpoint(g, ln),
    C01_period |-> C01_period(g, o2, ln), C01_set |-> C01_set(g, ln, o2),
    C01_fresh |-> C01_fresh(g, o, o2), C01_young |-> C01_young(g, o, ln),
    C02_complete |-> C02_complete(g2, o, o2), C02_opdone |-> C02_opdone(g, o, o2),
    C02_stays |-> C02_stays(g2, o, ln, o2),
    C03_first |-> C03_first(g, o, ln), C03_notearly |-> C03_notearly(g, ln), C03_notdead |-> C03_notdead(g, ln),
    C03_prompt |-> C03_prompt(g, o, ln), C03_kids |-> C03_kids(g, g2, o, o2),
    C03_stopsig |-> C03_stopsig(g, g2, o, o2),
    C12_conv |-> C12_conv(g, o, o2), C12_keep |-> C12_keep(g, o, o2),
    C04_list |-> C04_list(g2, o2, ln), C04_count |-> C04_count(g2, o2, ln), C04_owned |-> C04_owned(g2, o2, ln),
    C04_status |-> C04_status(o, ln, o2), C04_zombie |-> C04_zombie(g2, o2, ln),
    C05_noblock |-> C05_noblock(ln), C05_readnow |-> C05_readnow(g, ln), C05_bound |-> C05_bound(g, o, ln),
    C06_reply |-> C06_reply(g, ln), C06_status |-> C06_status(ln), C06_all |-> C06_all(g, ln),
    C08_done |-> C08_done(g2, o2, ln),
    C09_spawn |-> C09_spawn(g, ln), C09_reap |-> C09_reap(g, o, ln), C09_live |-> C09_live(g2, o2, ln),
    C09_killev |-> C09_killev(g2, o2, ln),
    C09_startstop |-> C09_startstop(g, o2, ln), C09_status |-> C09_status(g, ln, o2),
    C10_wedge |-> C10_wedge(g, o2, ln), C10_refuse |-> C10_refuse(g, o, ln, o2), C10_accept |-> C10_accept(ln), C10_held |-> C10_held(g, o, ln, o2),
    C11_unchanged |-> C11_unchanged(g, ln, o2),
    C13_wid |-> C13_wid(o, o2),
    C14_startgate |-> C14_startgate(g, o, o2), C14_siggate |-> C14_siggate(g, ln),
    C14_events |-> C14_events(g, ln), C14_killsent |-> C14_killsent(g, ln), C14_own |-> C14_own(g, ln),
    C15_dir |-> C15_dir(g, o2, ln), C15_views |-> C15_views(o, ln), C15_addrm |-> C15_addrm(g, o, ln, o2),
    C15_reach |-> C15_reach(g, ln),
    C18_confine |-> C18_confine(g, o, ln), C18_exact |-> C18_exact(g, ln), C18_killsig |-> C18_killsig(g, g2, o, o2),
    C18_stopsig |-> C03_stopsig(g, g2, o, o2),      \* (a kill request without a signal designates the watcher's stop signal)
    C19_order |-> C19_order(g, o, ln), C19_pace |-> C19_pace(g, o, ln), C19_auto |-> C19_auto(g, o, ln, o2) ]

---------------------------------------------------------------------------
\* Known findings (DESIGN.md 6/7).  A violated clause is attributed to a recorded defect only if the violation
\* has that defect's signature: the clause, re-evaluated with exactly the effect of the deviation discounted,
\* holds.  Anything else stays an unexplained violation.  Returns the finding id or "".
NpBad(o) == \E i \in WIdx(o) : o.w[i].npbad
KF(c, g, o, ln, o2, g2) ==
  CASE c \in {"C04_status", "C04_count", "C04_owned", "C04_list"} /\ (NpBad(o) \/ NpBad(o2)) -> "D16"
    [] c = "C09_live" ->
         IF /\ (((g2.spawned \ (g2.reaped \cup g2.killed)) \ g2.released) \ g2.pruned)
                   = { p \in AllTracked(o2) : KSt(o2, p) = "run" }
            /\ \A p \in (g2.envDied \ g2.released) : p \notin AllTracked(o2) => p \in (g2.reaped \cup g2.pruned)
         THEN "D4" ELSE ""
    [] c = "C02_complete" ->
         LET off == UNION { { p \in OwnedBy(g2, o2, o2.w[i].ln) : KSt(o2, p) # "reaped" } : i \in BecameStopped(o, o2) } IN
         IF (\A i \in BecameStopped(o, o2) : o2.w[i].pr = <<>>) /\ off # {}
         THEN (IF \A p \in off : p \in g2.detached THEN "D3"
               ELSE IF \A p \in off : p \in g2.pruned /\ KSt(o2, p) = "zombie" THEN "D4"
               ELSE IF \A p \in off : p \in g2.detached \/ (p \in g2.pruned /\ KSt(o2, p) = "zombie") THEN "D3" ELSE "")
         ELSE ""
    [] c = "C04_owned" ->
         LET off == { p \in 1..NK(o2) : \/ (KSt(o2, p) = "run" /\ KPar(o2, p) = 0 /\ p \notin g2.released
                                               /\ Cardinality({ i \in WIdx(o2) : p \in Pids(o2.w[i]) }) # 1)
                                          \/ KSt(o2, p) = "zombie"
                                          \/ (KSt(o2, p) = "reaped" /\ p \in AllTracked(o2)) } IN
         IF off # {} /\ \A p \in off : (KSt(o2, p) = "zombie" /\ p \in g2.pruned)
         THEN "D4"
         ELSE IF off # {} /\ \A p \in off : (KSt(o2, p) = "zombie" /\ p \in g2.pruned)
                                           \/ (KSt(o2, p) = "run" /\ p \in g2.detached /\ p \notin AllTracked(o2))
         THEN "D3" ELSE ""
    [] c = "C14_startgate" ->
         IF \A lname \in g.op.gatefail : \A i \in WIdx(o2) : o2.w[i].ln = lname =>
               /\ o2.w[i].st = "stopped"
               /\ \A p \in OwnedBy(g, o2, lname) : KSt(o2, p) = "run" => p \in g2.detached
         THEN "D3" ELSE ""
    [] c = "C05_noblock" ->
         \* D1 as coded: the unguarded reap after a kill sits in _stop() (stop, restart, non-graceful reload, rm,
         \* quit, an aborted start) and in the sequential reload loop; the surplus / expiry paths of manage_processes
         \* are guarded
         \* (_stop() runs under many slots - a start that aborts, a respawn=False watcher that runs out of workers -
         \*  but always with the watcher in status "stopping")
         IF ln.p \in 1..Len(g.term) /\ g.term[ln.p].open
            /\ \/ \E i \in WIdx(o) : o.w[i].ln = OwnerOf(g, ln.p) /\ o.w[i].st = "stopping"
               \/ (o.slot \in {"watcher_reload", "arbiter_reload", "watcher_do_action"} /\ g.op.seq)
         THEN "D1"
         ELSE IF g.op.cmd = "start" /\ g.op.slot \in {"watcher_start", "arbiter_start_watchers"} THEN "D2"
         \* D18: an on_demand watcher that still has a live worker was set to "stopped" when another one died; the next
         \* socket event "starts" it, and _start's reap_processes() blocks on the live worker
         ELSE IF CfgW(g, OwnerOf(g, ln.p)).od /\ o.slot = "manage_watchers" THEN "D18"
         ELSE ""
    [] c = "C04_count" ->
         IF \A j \in 1..Len(ln.pb.per) :
               LET mine == Mine(g2, o2, ln.pb.per[j].n)
                   lost == mine \ SeqToSet(ln.pb.per[j].stats) IN
               /\ SeqToSet(ln.pb.per[j].stats) \subseteq mine
               /\ lost \subseteq (g2.detached \ AllTracked(o2))
               /\ ln.pb.per[j].np = Cardinality(mine \ lost)
         THEN "D3" ELSE ""
    [] c = "C04_list" ->
         IF \A j \in 1..Len(ln.pb.per) :
               /\ SeqToSet(ln.pb.per[j].pids) \subseteq Mine(g2, o2, ln.pb.per[j].n)
               /\ (Mine(g2, o2, ln.pb.per[j].n) \ SeqToSet(ln.pb.per[j].pids)) \subseteq (g2.detached \ AllTracked(o2))
         THEN "D3" ELSE ""
    [] c = "C03_kids" ->      \* D17: the worker had already exited when its children were looked up again
         IF \A p \in StopFlips(o, o2) :
               (\E kid \in g2.term[p].kids : <<kid, g2.term[p].sig>> \notin g.csigs) => KSt(o2, p) # "run"
         THEN "D17" ELSE ""
    [] c = "C03_prompt" ->
         IF \A p \in 1..Len(g.term) :
               (g.term[p].open /\ ~g.term[p].killed /\ KSt(o, p) = "run" /\ g.term[p].sig # SIGKILL
                  /\ g.t > g.term[p].t0 + g.term[p].G + 101) => p \in g.detached
         THEN "D3" ELSE ""
    [] c = "C14_siggate" -> IF ln.p \in g.vetoRaise THEN "D11" ELSE ""
    [] c = "C09_startstop" ->     \* D18: an on_demand watcher is set to "stopped" without a stop event when a worker dies
         IF /\ (ln.k = "ev" /\ ln.x = "start" /\ LastEvOf(g, ln.w) = "start") => CfgW(g, ln.w).od
            /\ \A i \in WIdx(o2) :
                  ((o2.w[i].st = "active" /\ LastEvOf(g, o2.w[i].ln) # "start")
                     \/ (o2.w[i].st = "stopped" /\ LastEvOf(g, o2.w[i].ln) = "start")) => o2.w[i].od
         THEN "D18" ELSE ""
    [] c = "C01_fresh" ->
         \* a replacement started by this very operation died before it completed
         IF \E p \in 1..NK(o2) : p > g.op.mark /\ OwnerOf(g2, p) # "" /\ KSt(o2, p) # "run" THEN "D14" ELSE ""
    [] c = "C11_unchanged" ->      \* D7: only the refusals `set` can pronounce at apply time
         IF g.ctx.cmd = "set" /\ g.multiSet /\ ~g.ctxHard /\ ln.rc \in {"singleton", "uid", "gid", "hook"} THEN "D7" ELSE ""
    [] c = "C15_dir" ->      \* D9R: reloadconfig adds [watcher:A] next to `a`: dict entry overwritten, list appended
         IF g2.drifted THEN "D9R" ELSE ""      \* (everything the directory does after that drift is its consequence)
    [] c = "C15_views" -> IF g2.drifted THEN "D9R" ELSE ""
    [] c = "C15_addrm" -> IF g.ctx.on /\ g.ctx.cmd = "add" /\ g.ctx.lname = "" /\ ln.k = "reply" THEN "D9" ELSE ""
    [] c = "C06_status" -> IF g.ctx.on /\ g.ctx.cmd = "status" /\ g.ctx.hasname THEN "STATUS" ELSE ""
    [] c = "C08_done" -> IF g2.dsigBusy THEN "D6" ELSE ""
    [] OTHER -> ""

\* the set of clause names violated by this step
Bad(g, o, ln, o2, g2) == LET c == Clauses(g, o, ln, o2, g2) IN { n \in DOMAIN c : ~c[n] }
\* ... each with the known finding that explains it ("" = unexplained)
BadKF(g, o, ln, o2, g2) == { <<n, KF(n, g, o, ln, o2, g2)>> : n \in Bad(g, o, ln, o2, g2) }
=============================================================================
